"""Dispatcher: python -m mc.main <id> [--tier quick|thorough] [--replay file]."""
from __future__ import annotations

import argparse
import importlib
import json
import os
import sys
import traceback

from . import core


def main():
    ap = argparse.ArgumentParser()
    ap.add_argument("pid")
    ap.add_argument("--tier", choices=["quick", "thorough"], default=None)
    ap.add_argument("--replay", default=None)
    a = ap.parse_args()
    pid = a.pid.upper()
    tier = a.tier or os.environ.get("VERIF_TIER", "quick")
    if tier not in ("quick", "thorough"):
        tier = "quick"
    try:
        seed = int(os.environ.get("VERIF_SEED", "0"))
    except ValueError:
        seed = 0
    sys.path.insert(0, core.VERIF)
    # sleap-nn must come from /repo's working tree
    # (VERIF_REPO lets the mutation drills point a check at a scratch worktree; default /repo)
    repo = os.environ.get("VERIF_REPO", "/repo")
    sys.path.insert(0, repo)
    try:
        mod = importlib.import_module(f"props.{pid.lower()}")
    except Exception:
        traceback.print_exc()
        print(f"HARNESS-ERROR property={pid} cannot import check module")
        return 2
    if a.replay:
        with open(a.replay) as f:
            rec = json.load(f)
        case = core.unjson(rec.get("case", rec))
        try:
            obs = mod.replay(case)
        except Exception:
            traceback.print_exc()
            print(f"REPLAY property={pid} raised (see traceback)")
            return 1
        print(json.dumps(core.jsonable(obs), indent=1, sort_keys=True))
        bad = isinstance(obs, dict) and obs.get("violates")
        print(f"REPLAY property={pid} violates={bool(bad)}")
        return 1 if bad else 0
    ctx = core.Ctx(
        pid,
        tier,
        seed,
        getattr(mod, "LEVEL", "model_checking"),
        getattr(mod, "RULE", ""),
        getattr(mod, "KNOWN_PREDICATES", {}),
    )
    ctx.assumptions = list(getattr(mod, "ASSUMPTIONS", []))
    core.set_known(pid, getattr(mod, "KNOWN_PREDICATES", {}))
    try:
        mod.run(ctx)
    except Exception:
        traceback.print_exc()
        print(f"HARNESS-ERROR property={pid} the explorer itself raised")
        return 2
    return ctx.finish(min_outcomes=getattr(mod, "MIN_OUTCOMES", 2))


if __name__ == "__main__":
    sys.exit(main())
