"""Common runner for all property checks: counting, evidence, replays, known findings.

Every check is a bounded *exhaustive* enumeration that drives the real sleap-nn
code (see DESIGN.md).  This module owns the bookkeeping that is the same for all
of them:

* Ctx.count / state / transition / outcome / sample  -- measured coverage numbers
* Ctx.violation(case, msg)                           -- replay artefact + known-finding triage
* Ctx.finish()                                       -- evidence file, summary, exit code
* pmap(fn, shards)                                   -- deterministic fork fan-out

Exit codes: 0 held (possibly KNOWN-FINDING lines), 1 VIOLATION, 2 harness error.
"""
from __future__ import annotations

import hashlib
import json
import math
import multiprocessing as mp
import os
import sys
import time
import traceback

VERIF = os.path.dirname(os.path.dirname(os.path.abspath(__file__)))
# Evidence and replays of runs against a scratch worktree (mutation drills, VERIF_REPO=<dir>) must never
# overwrite the evidence of /repo itself: they go to a scratch directory outside /verif.
_SCRATCH_RUN = os.environ.get("VERIF_REPO", "/repo").rstrip("/") != "/repo"
EVID_DIR = "/tmp/verif-scratch-evidence" if _SCRATCH_RUN else os.path.join(VERIF, "evidence")
REPLAY_DIR = "/tmp/verif-scratch-replays" if _SCRATCH_RUN else os.path.join(VERIF, "replays")
FINDINGS = os.path.join(VERIF, "known_findings.json")
MAX_REPORTED = 10  # VIOLATION lines / replay files per run (total is still counted)
# [(known id, what, predicate)] for the property being checked; set by main before run() so that forked
# workers inherit it.  Cases matching a listed known finding are counted, not stored.
_KNOWN = []


def set_known(pid, predicates):
    global _KNOWN
    _KNOWN = []
    try:
        with open(FINDINGS) as f:
            d = json.load(f)
    except FileNotFoundError:
        return
    for k in d.get("known", []):
        if k.get("property") == pid and k.get("predicate") in (predicates or {}):
            _KNOWN.append((k["id"], k["what"], predicates[k["predicate"]]))
NCPU = min(16, os.cpu_count() or 1)


def jsonable(o):
    """Canonical JSON-able form of tensors / arrays / floats (NaN, inf as strings)."""
    try:
        import numpy as np
    except Exception:  # pragma: no cover
        np = None
    if isinstance(o, dict):
        return {str(k): jsonable(v) for k, v in o.items()}
    if isinstance(o, (list, tuple, set, frozenset)):
        return [jsonable(v) for v in o]
    if isinstance(o, float):
        if math.isnan(o):
            return "NaN"
        if math.isinf(o):
            return "inf" if o > 0 else "-inf"
        return o
    if isinstance(o, (int, str, bool)) or o is None:
        return o
    if np is not None and isinstance(o, np.generic):
        return jsonable(o.item())
    if np is not None and isinstance(o, np.ndarray):
        return jsonable(o.tolist())
    if hasattr(o, "detach") and hasattr(o, "tolist"):
        return jsonable(o.detach().cpu().tolist())
    return repr(o)


def unjson(o):
    """Inverse of jsonable for the float specials."""
    if isinstance(o, dict):
        return {k: unjson(v) for k, v in o.items()}
    if isinstance(o, list):
        return [unjson(v) for v in o]
    if o == "NaN":
        return float("nan")
    if o == "inf":
        return float("inf")
    if o == "-inf":
        return float("-inf")
    return o


def digest(o) -> str:
    return hashlib.sha1(json.dumps(jsonable(o), sort_keys=True).encode()).hexdigest()[:16]


class Part:
    """Coverage accumulator; one per worker shard, merged into the Ctx."""

    def __init__(self):
        self.evaluations = 0
        self.transitions = 0
        self.nontrivial = set()
        self.states = set()
        self.outcomes = set()
        self.samples = []
        self.first_nontrivial = None
        self.last = None
        self.viol = []  # (case, msg)
        self.n_viol = 0
        self.known = {}  # known id -> number of enumerated cases matching its signature
        self.extra = {}

    # -- counting ---------------------------------------------------------
    def count(self, n=1):
        self.evaluations += n

    def transition(self, n=1):
        self.transitions += n

    def state(self, key):
        self.states.add(key if isinstance(key, (str, int, bytes)) else digest(key))

    def nontriv(self, key):
        self.nontrivial.add(key if isinstance(key, (str, int, bytes)) else digest(key))

    def outcome(self, key):
        if len(self.outcomes) < 100000:
            self.outcomes.add(key if isinstance(key, (str, int, bytes)) else digest(key))

    def sample(self, case, nontrivial=False):
        c = jsonable(case)
        if len(self.samples) < 1:
            self.samples.append(c)
        if nontrivial and self.first_nontrivial is None:
            self.first_nontrivial = c
        self.last = c

    def add(self, key, n=1):
        self.extra[key] = self.extra.get(key, 0) + n

    def maxi(self, key, v):
        self.extra[key] = max(self.extra.get(key, v), v)

    def violation(self, case, msg):
        jc = jsonable(case)
        if _KNOWN:
            uc = unjson(jc)
            for kid, _what, pred in _KNOWN:
                try:
                    hit = bool(pred(uc, str(msg)))
                except Exception:
                    hit = False
                if hit:
                    self.known[kid] = self.known.get(kid, 0) + 1
                    return
        self.n_viol += 1
        if len(self.viol) < 200:
            self.viol.append((jc, str(msg)))

    def merge(self, other: "Part"):
        self.evaluations += other.evaluations
        self.transitions += other.transitions
        self.nontrivial |= other.nontrivial
        self.states |= other.states
        self.outcomes |= other.outcomes
        if not self.samples:
            self.samples = other.samples[:1]
        if self.first_nontrivial is None:
            self.first_nontrivial = other.first_nontrivial
        if other.last is not None:
            self.last = other.last
        self.viol.extend(other.viol)
        self.n_viol += other.n_viol
        for k, v in other.known.items():
            self.known[k] = self.known.get(k, 0) + v
        for k, v in other.extra.items():
            if k.startswith("max_"):
                self.extra[k] = max(self.extra.get(k, v), v)
            else:
                self.extra[k] = self.extra.get(k, 0) + v


class Ctx(Part):
    def __init__(self, pid, tier, seed, level, rule, known_predicates=None):
        super().__init__()
        self.pid, self.tier, self.seed, self.level, self.rule = pid, tier, seed, level, rule
        self.t0 = time.time()
        self.known_predicates = known_predicates or {}
        self.assumptions = []
        self.bounds = {}
        self.exhaustive = True
        self.caps = []
        self.notes = []

    def cap(self, what):
        """Record that a cap was hit: the run is then not called exhaustive."""
        self.exhaustive = False
        self.caps.append(what)

    # -- finishing -----------------------------------------------------------
    def finish(self, min_outcomes=2):
        real = list(self.viol)
        n_real = self.n_viol
        what = {kid: w for kid, w, _ in _KNOWN}
        known_hits = {kid: n for kid, n in self.known.items() if n}
        for kid, n in sorted(known_hits.items()):
            print(f"KNOWN-FINDING: property={self.pid} {kid}: {what.get(kid, '')} ({n} enumerated cases match its signature)")
        os.makedirs(os.path.join(REPLAY_DIR, self.pid), exist_ok=True)
        for case, msg in real[:MAX_REPORTED]:
            path = os.path.join(REPLAY_DIR, self.pid, digest(case) + ".json")
            with open(path, "w") as f:
                json.dump({"property": self.pid, "case": case, "message": msg}, f, indent=1, sort_keys=True)
            print(f"VIOLATION property={self.pid} replay={path}")
            print(f"  {msg[:600]}")
        if n_real > MAX_REPORTED:
            print(f"  ... {n_real - MAX_REPORTED} further violating cases not written out")
        vacuous = None
        if n_real == 0 and len(self.outcomes) < min_outcomes:
            vacuous = f"only {len(self.outcomes)} distinct observed outcome(s): exploration would be vacuous"
        samples = list(self.samples)
        if self.first_nontrivial is not None and self.first_nontrivial not in samples:
            samples.append(self.first_nontrivial)
        if self.last is not None and self.last not in samples:
            samples.append(self.last)
        cov = {
            "evaluations": self.evaluations,
            "distinct_nontrivial": len(self.nontrivial),
            "rule": self.rule,
            "samples": samples or ["(no case executed)"],
            "states": len(self.states) if self.states else len(self.nontrivial),
            "transitions": self.transitions if self.transitions else self.evaluations,
            "traces_validated_against_impl": self.transitions if self.transitions else self.evaluations,
            "exhaustive": bool(self.exhaustive),
            "bounds_completed": jsonable(self.bounds),
            "distinct_observed_outcomes": len(self.outcomes),
            "caps_hit": self.caps,
            "known_findings_matched": known_hits,
            "explanation": "explorer drives the real sleap-nn code; every enumerated case is an execution of the implementation",
        }
        cov.update({k: v for k, v in self.extra.items()})
        ev = {
            "property_id": self.pid,
            "tier": self.tier,
            "seed": self.seed,
            "level": self.level,
            "coverage": cov,
            "assumptions": self.assumptions,
            "wall_s": round(time.time() - self.t0, 2),
            "violations": n_real,
            "notes": self.notes,
        }
        os.makedirs(EVID_DIR, exist_ok=True)
        tmp = os.path.join(EVID_DIR, f".{self.pid}.json.tmp")
        with open(tmp, "w") as f:
            json.dump(ev, f, indent=1, sort_keys=True)
        os.replace(tmp, os.path.join(EVID_DIR, f"{self.pid}.json"))
        print(
            f"[{self.pid}] tier={self.tier} seed={self.seed} evaluations={self.evaluations} "
            f"states={cov['states']} transitions={cov['transitions']} nontrivial={len(self.nontrivial)} "
            f"outcomes={len(self.outcomes)} exhaustive={self.exhaustive} violations={n_real} "
            f"known={sum(known_hits.values())} wall={ev['wall_s']}s"
        )
        if vacuous:
            print(f"HARNESS-ERROR property={self.pid} {vacuous}")
            return 2
        return 1 if n_real else 0


# ---------------------------------------------------------------------------
# deterministic fan-out

_FN = None


def _call(args):
    i, shard = args
    import torch

    torch.set_num_threads(1)
    p = Part()
    try:
        _FN(p, shard)
    except Exception:
        p.violation({"shard": i, "harness_exception": True}, "exception escaped worker:\n" + traceback.format_exc())
        p.extra["harness_errors"] = p.extra.get("harness_errors", 0) + 1
    return p


def pmap(ctx: Ctx, fn, shards, procs=None):
    """Run fn(part, shard) for every shard (fork pool), merge the parts in shard order."""
    global _FN
    shards = list(shards)
    procs = min(procs or NCPU, len(shards)) or 1
    _FN = fn
    if procs <= 1 or os.environ.get("VERIF_SERIAL"):
        for i, s in enumerate(shards):
            ctx.merge(_call((i, s)))
        return
    mpctx = mp.get_context("fork")
    with mpctx.Pool(procs) as pool:
        for p in pool.imap(_call, list(enumerate(shards)), chunksize=1):
            ctx.merge(p)


def shard_list(items, n):
    """Deterministic round-robin split of a list into <= n non-empty shards."""
    items = list(items)
    n = max(1, min(n, len(items)))
    return [items[i::n] for i in range(n)]


def rotate(items, seed):
    """VERIF_SEED only rotates enumeration order, never selects cases."""
    items = list(items)
    if not items:
        return items
    k = seed % len(items)
    return items[k:] + items[:k]


def setup_torch():
    import warnings

    warnings.filterwarnings("ignore")
    import torch

    torch.set_num_threads(1)
    return torch
