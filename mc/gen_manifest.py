"""Regenerates /verif/MANIFEST.json from the table below (python3 -m mc.gen_manifest)."""
import json
import os
import subprocess

VERIF = os.path.dirname(os.path.dirname(os.path.abspath(__file__)))

GUARD = "TALMOLAB_SLEAP_NN_VERIF"

# id -> (category, technique, level text, level note, design ref)
CHECKS = {
    "C17": (
        "model_checking",
        "exhaustive small-scope enumeration of all rooted labelled trees x all edge listings on the real toposort_edges/PAFScorer",
        "Every rooted labelled tree on n<=5 (quick) / n<=6 (thorough, + a 1-in-49 slice of n=7) nodes in every one of its (n-1)! edge listings is run through the real functions and the parent-before-child/permutation oracle is evaluated on each; complete within the bound, so a reordering bug that needs a particular numbering or listing cannot hide. Each listing also goes through the real group_instances_sample: the order in which the assigner receives the edges is observed and a fully matched animal must come back whole.",
        "bound on n; networkx is the trusted base; skeletons are trees written parent->child",
        "DESIGN.md §3 C17",
    ),
    "C09": (
        "model_checking",
        "explicit-state BFS over frame histories on the real Tracker (canonical-state dedup, invariants on every transition)",
        "Breadth-first search over every frame history up to the depth bound (every ordered list of distinct animals per frame, incl. empty frames and low-score detections) for each tracker configuration, each transition executed by the real Tracker.track on a copy of the parent state; conservation invariants (no exception, output = inputs above threshold exactly once with a track, no shared track, queue ids within current_tracks) are evaluated on every transition. Exhaustive within the depth/K bound, so defects needing a specific history (first match to track 0, stale track after an absence, newcomer next to tracked animals) cannot hide. Detections with missing nodes are part of the event alphabet, and two Tracker objects fed every pair of short histories in alternation must each behave as when alone. The quick tier also visits score threshold 0.5, reduction max and windows 1/3 at a small depth.",
        "bounds on depth/K/window; canonical-state merging validated in-run (merge validation + replay on fresh trackers); fixed animal positions; FlowShiftTracker out of scope",
        "DESIGN.md §3 C09",
    ),
    "C10": (
        "model_checking",
        "explicit-state BFS over admissible frame histories on the real Tracker with an identity-map oracle",
        "Every admissible history (the property's class, decided from the history alone) up to the frame bound, with every per-frame detection order and drifting positions, is executed on the real Tracker for each configuration; on every transition each animal must carry the track it first received and newcomers must get a never-held track. Exhaustive within bound. A fast-mover scenario (30 px/frame, 100 px apart, single-frame absences) for the distance-scoring configurations makes cumulative displacement exceed the separation within the frame bound. A diagonal-neighbour scenario (boxes separated along both axes) is explored for the IoU configurations. A stride scenario (12 px/frame) is explored for the OKS configurations.",
        "bounds on frames/K/window; absence counted in frames; well-separated geometry fixed; merging validated by replay on fresh trackers",
        "DESIGN.md §3 C10",
    ),
    "C06": (
        "model_checking",
        "exhaustive small-scope enumeration of all maps <=3x3 over <=5 value levels x thresholds x two batch packings against a brute-force neighbour scan",
        "Every h x w map (h,w<=3, strips<=5; thorough adds 3x4/4x3/4x4) over a small value alphabet incl. ties, plateaus, negatives and border maxima is pushed through the real find_local_peaks_rough / find_local_peaks for every threshold in two (samples,channels) packings; the returned multiset must equal the brute-force strict-local-maximum set; refinement keeps count/order/indices and moves <= (patch-1)/2. Complete within the bound. Even patch sizes and a threshold between negative map levels are in the alphabet; a history-independence search over shape/patch-colliding calls covers cached state.",
        "map size / value alphabet bound; refinement bound asserted on non-negative maps with positive mass",
        "DESIGN.md §3 C06",
    ),
    "C07": (
        "model_checking",
        "exhaustive small-scope enumeration of all maps <=3x3 over <=4 value levels (every tie pattern) x thresholds x packings, plus the quarter-pixel lattice of Gaussian centres",
        "Every small map incl. every tie pattern, border/corner maxima and below-threshold maps through the real find_global_peaks_rough / find_global_peaks: reported cell in the argmax set with the max value, NaN/0 below threshold, packing independence; refinement bounded, zero on symmetric bumps and improving on every Gaussian centre of the lattice. Complete within the bound. Even patch sizes, a half/extended-precision map family and a history-independence search over colliding calls are included.",
        "map size / alphabet bound; improvement clause asserted for interior centres (zero-padded border patches are biased by construction)",
        "DESIGN.md §3 C07",
    ),
    "C13": (
        "model_checking",
        "stateless exploration of ALL thread interleavings (cooperative scheduler, DFS with prefix replay) of the real reader thread and the real consumer loop, x queue capacity x batch x range x injected read fault",
        "The real VideoReader/LabelsReader.run (in a real thread) and the real Predictor._predict_generator run under a cooperative scheduler whose scheduling points are the queue operations and thread start/join/end; every interleaving of every grid point (N, range, capacity, batch size, fault index) is executed to completion and the stream-trace + termination oracle is evaluated on each; deadlock = no enabled thread. No preemption bound is needed: the space is explored completely. Thread-liveness queries (is_alive, timed join) are scheduling points as well, so check-then-act races on them are interleaved. The fault alphabet includes 'metadata unavailable' (video.shape None).",
        "frame reads are reader-local (not scheduling points); GIL + queue.Queue lock trusted; timeouts modelled as nondeterministic Empty/Full; free-running sanity pass on the real queue.Queue is not part of the coverage claim",
        "DESIGN.md §3 C13",
    ),
    "C01": (
        "model_checking",
        "exhaustive small-scope enumeration of keypoint tuples x image size x stride x sigma x variant against a float64 Gaussian reference",
        "Every keypoint tuple from a small ordered coordinate alphabet (sub-pixel, on/outside the border, NaN, +inf, half-missing) for (animals,nodes) shapes up to 2x2 (thorough 3x3) x sizes x strides x sigmas x all variants (functional, centroid, both DataPipes, 1-2 samples) is run through the real generators and compared cell by cell with the property's formula; derived clauses (finite, [0,1], max at nearest cell, all-zero missing channel, inputs untouched) asserted directly. Complete within the bound. A history-independence search (all ordered pairs/triples of shape-colliding calls in forked children vs fresh-process results) covers state that outlives a call. Sizes that are not multiples of the stride and frames without any labelled animal are part of the alphabet.",
        "alphabet/shape bound; float32 tolerance 1e-5",
        "DESIGN.md §3 C01",
    ),
    "C16": (
        "model_checking",
        "exhaustive small-scope enumeration of label pairs x prediction edits x extra predictions x every single deletion through the real Evaluator",
        "Every ground-truth/prediction pair within the bound (frames<=2, animals<=2/3, NaN masks, per-instance edit from a 5-6 value alphabet, one extra prediction at every score rank) is evaluated by the real Evaluator, together with every single-prediction deletion; fixed-point, boundedness, monotonicity, definitional and deletion clauses are asserted on each. Two known findings (K3 greedy duplicate, K5 unpredicted frame) are matched by signature predicates only. A perfect-count family evaluates identical predictions for every total of 1..110 (200) ground-truth instances.",
        "bound on frames/animals/edit alphabet; 0/0 summaries (no matched pair) treated as 'no subject'",
        "DESIGN.md §3 C16",
    ),
    "C19": (
        "model_checking",
        "crash-point enumeration: every prefix of the audit-hook log of file-system mutations of a real ModelTrainer construction + 1-step training run, x configuration grid",
        "The real trainer runs for each configuration of the grid (model type x data framework x tracking x checkpointing x config kind, API key always present); an audit hook logs every file-system mutation under the output/chunk/wandb directories and at every such event the directory state left by all previous writes - the state a crash at that point leaves - is scanned for the key bytes (checkpoints are also unpickled); final artifacts are compared with the documented ones. All crash points of all runs are examined. The environment answer 'available memory' is owned by the harness: low-memory runs make the in-memory framework fall back to chunk files in a scratch cwd that is observed as well. Histories with a second train() call on the same trainer object are part of the grid.",
        "writes by the wandb service process are seen at the next event/final scan; torn writes covered by the prefix argument unless the key is split across files; litdata out of scope",
        "DESIGN.md §3 C19",
    ),
    "C02": (
        "model_checking",
        "exhaustive enumeration of the preprocessing/stride/crop/refinement/batch/provider configuration grid through the real predictors with ideal networks (round-trip oracle)",
        "Every point of the stated product grid is executed end to end through the real SingleInstancePredictor / TopDownPredictor (reader threads, size matching, scaling, padding, cropping, peak finding, coordinate back-mapping, label assembly) with networks that emit the ideal maps for the image they are actually given; every visible keypoint must come back within half an output-stride cell in original coordinates, invisible ones as NaN/0, identically for both providers and for make_labels on/off. Complete within the grid. The grid also covers top-down with ground-truth centroids, a growing animal count across frames with batch size 1, and size matching with eff_scale != 1; K4-domain (non-integer resampled size) points are counted as skipped. Also covered: non-square crops, an animal-free frame inside a top-down batch, label files over two videos of different sizes, and every batch forwarded twice through the inference-model object in the label-assembly pass.",
        "ideal networks are the property's premise; grid values are the bound; geometry follows the resolution rule (infeasible points counted, not failed)",
        "DESIGN.md §3 C02",
    ),
    "C03": (
        "model_checking",
        "exhaustive enumeration of tree skeletons x edge listings x every visibility pattern x animals x scale/stride grid through the real BottomUpPredictor + PAFScorer with the ideal bottom-up network",
        "For every rooted labelled tree (n<=3 all listings; n=4 all trees, quick one listing each / thorough all) and each configuration, a labels file whose frames enumerate all 2^n visibility patterns of one animal among 1..3 well-separated animals (plus an empty frame) is run through the real predictor; the multiset of predicted instances must equal the multiset of visible-edge-connected groups of the labelled animals within half a stride cell, nothing else returned. All listings of one edge set run consecutively in one process (state keyed per edge set), and a violating case records its predecessor for replay. Half of the runs use portrait scenes; a 'long' family has edges longer than the frame is wide; the label-assembly pass forwards every batch twice through the inference-model object.",
        "ideal network premise; bounds on n, animals, grid; default scorer parameters",
        "DESIGN.md §3 C03",
    ),
    "C08": (
        "model_checking",
        "staged exhaustive small-scope enumeration (score matrices, match sets, peaks x PAF fields) of the real grouping functions against brute-force assignment + union-find references",
        "Stage 1 enumerates every score matrix up to 3x3 over a 5-value alphabet incl. NaN and every candidate ordering through match_candidates_sample (one-to-one, optimal vs brute force, never a NaN pair); stage 2 every accepted-match set for all trees on <=4 nodes through group_instances_sample vs union-find components; stage 3 peaks x structured PAF fields x batch layouts x scorer parameters through PAFScorer.predict, recomputed from the line scores it returns. Complete within the bounds. Stage 3 also runs on non-square PAF grids.",
        "'arbitrary PAF tensors' = 8 structured fields; bounds on nodes/peaks; ties enumerated",
        "DESIGN.md §3 C08",
    ),
    "C15": (
        "model_checking",
        "exhaustive small-scope enumeration of pose pairs / matrices / frames / cost matrices against algebraic relations and brute-force matching",
        "Every (gt, predicted) pose over a 5-value coordinate alphabet incl. NaN for <=3 nodes x stddev/scale/normalisation options through the real compute_oks (range, identity, missing-gt ignored, missing-pred = miss, monotone in distance, translation/permutation invariance); every frame with 0..3 gt x 0..3 predictions x every weak score ordering through match_instances (one-to-one, conservation); every cost matrix <=3x3 through the tracking matchers vs brute force. Complete within the bounds. An alias family (same array object in both roles, roles swapped between consecutive calls, arguments unchanged) and a history-independence search over colliding compute_oks calls are included. match_instances is also run on ground-truth lists that include an instance without any visible node.",
        "alphabet/size bounds; frames with 0 gt instances may raise (nothing to conserve)",
        "DESIGN.md §3 C15",
    ),
    "C12": (
        "model_checking",
        "exhaustive enumeration of all batches (ordered selections with repetition, size<=3/4) over a 4-frame alphabet x model type x max_instances x refinement, differential against the alone-run",
        "Every batch up to the size bound built from frames with 0..3 animals, two original sizes (two eff_scales) and two video indices goes through the real _predict_generator batching and the real inference models (ideal networks); each frame's records must equal its alone-run, carry its own frame/video index, empty frames yield nothing, and max_instances keeps the k best (top-down in the model, bottom-up in the real label assembly). Complete within the bound. Every selection of >= 2 frames is additionally run as consecutive smaller batches through one inference-model instance (state carried between batches). A tiny bottom-up family (4x6 PAF grid) is run in every batch of 7 (thorough 5..9) frames over a 2-frame alphabet, i.e. batches larger than every PAF-grid axis.",
        "ideal networks; frame buffer pre-filled (reader side is C13); B<=3 quick / 4 thorough",
        "DESIGN.md §3 C12",
    ),
    "C14": (
        "model_checking",
        "exhaustive enumeration of the validity-predicate configuration grid (build + forward of the real Model) and of all eval-mode call histories up to depth 3/4 with a fresh-copy differential oracle",
        "Every configuration of the enumerated grid that satisfies the documented validity predicate is built and run on inputs that are multiples of the max stride: one output per head with the contracted channels and spatial size, equal to the shape the target generators produce. Every call history up to the depth bound over an input alphabet (sizes, batch of two) is executed on representatives of each backbone family; the last output must equal a fresh copy's output for that frame alone (determinism, history and batch-mate independence). Bottom-up configurations with two different head strides are built with the heads listed in both key orders.",
        "grid values and depth are the bound; random weights seeded by VERIF_SEED; miniature widths; pretrained weights unavailable offline",
        "DESIGN.md §3 C14",
    ),
    "C20": (
        "model_checking",
        "exhaustive enumeration of builder argument deviations (singles, pairs in interacting groups, presets x heads, every ordered augmentation list) and single-field invalid values against a docstring reference table + schema defaults",
        "Every single-argument deviation and every pair inside the interacting groups of the three builders, every backbone preset x head, every ordered list of augmentation names (65 intensity, 326 geometric) and every single-field invalid value are run through the real builders, TrainingJobConfig.to_sleap_nn_cfg, verify_training_cfg (twice) and a YAML file round trip; each leaf must equal the supplied argument or the schema default (attrs introspection), named augmentations must be enabled regardless of order, validators must reject. Complete within the stated deviation bound. A history search over the builder API (every ordered pair build -> customise the returned object in place -> build, in forked children, differential against the unmutated library state) covers shared mutable defaults and caches. Path-like arguments include non-canonical strings.",
        "deviation order bound (pairs within groups; thorough adds triples and the full aug cross product); reference table written from docstrings/docs",
        "DESIGN.md §3 C20",
    ),
    "C11": (
        "model_checking",
        "explicit-state exploration of __getitem__ call histories (all index words up to depth 3/4 via de Bruijn arcs) on the real Dataset classes with a fresh-dataset differential oracle, plus exhaustive argument-snapshot purity checks of the functional helpers",
        "Part (a): every NaN pattern of a 2x3 frame x anchor x three memory layouts through each functional helper, whole-storage snapshots before/after. Part (b): for every synthetic label set (NaN patterns incl. missing anchor, empty and predicted instances) x dataset class x anchor x np_chunks x user_instances_only, every index word up to the depth bound is read from the real dataset; each sample must be bitwise equal to a fresh dataset's first read and to the label spec (NaN stays NaN, zero channel), the cache digest must never change, len(ds) must match, labels unchanged afterwards. Two-datasets-alive histories (a companion dataset of the same class built from different labels and read, then every index of the first re-read) cover state shared between dataset objects; helper purity inputs include out-of-frame and border-strip animals.",
        "bounds on frames/animals/depth; augmentation off for part (b)",
        "DESIGN.md §3 C11",
    ),
    "C05": (
        "model_checking",
        "exhaustive small-scope enumeration of instance tuples x edge lists x image size x stride x sigma through the real PAF generators against relational oracles (unit vector, weight 1 on the segment, monotone fall-off, additivity, exact zeros, channel order)",
        "Every instances array from a small coordinate alphabet (NaN, out-of-frame, coincident, border) for <=2 animals x <=3 nodes x every orientation/order of every tree edge list x sizes x strides x sigmas is run through generate_pafs / PartAffinityFieldsGenerator; the oracle is the property's relations evaluated cell by cell with a float64 reference distance. Two known findings (K1 sub-pixel edges, K2 border-strip animals) are matched by signature predicates only. Complete within the bound. A history-independence search (all ordered pairs/triples of calls whose grids collide in shape but not in coordinates, forked children vs fresh-process results) covers state that outlives a call. A size that is not a multiple of the strides and animals with an edge whose endpoints are both outside the image are part of the alphabet.",
        "alphabet/shape bound; monotonicity margin 1e-4 in distance",
        "DESIGN.md §3 C05",
    ),
    "C18": (
        "exploration",
        "exhaustive enumeration of label sets (all ordered 2-frame sets over 8 frame types) x covering configuration grid, three-framework differential (in-memory, .npz chunks, chunk function -> real litdata .bin chunks -> StreamingDataset) + DataPipe block vs function",
        "For every label set of the alphabet and every configuration of the (strength-2 covering in quick, full product for the core sets in thorough) grid the same (frame, instance) sample is built by the three user-selectable frameworks with the real classes and compared (images to 8-bit quantisation, keypoints/centroids, confidence maps, PAFs) in the domain the property names; each of the 8 legacy DataPipe blocks is compared with its functional counterpart on every enumerated example. exhaustive: true within the stated alphabet and grid. Every index is read twice and both reads are compared; multi-video label sets (colliding frame indices) are part of the alphabet. Multi-video label sets (same and different frame sizes, with a user-stated max_height or max_width equal to the common target) and a second epoch per dataset are included.",
        "litdata hand-over uses litdata's in-process BinaryWriter (optimize() workers do not complete offline); quick grid is a strength-2 covering array, not the full product",
        "DESIGN.md §3 C18",
    ),
    "C04": (
        "exploration",
        "exhaustive enumeration of the size x max-size x scale x stride x crop x centroid-position grid and of the 81 forced affine-parameter corners (kornia generator behind a seam), functional API and the four Dataset classes end to end, with a blind blob-registration oracle",
        "Every point of the stated grid is executed on the real functions and on the real Dataset classes built on synthetic lossless labels; frames carry one Gaussian blob per keypoint and a sub-pixel locator that does not know which transform ran must find a blob within 1 output px of every returned keypoint (and a keypoint for every blob); sizes exact, padding only bottom/right, intensity-only augmentation returns keypoints bit-equal. The random affine generator is replaced by the enumerated corner values, so the augmentation space is enumerated, not sampled. Known findings K4/K6 are matched by predictive signatures (measured error within 0.15 px of the half-pixel model). exhaustive: true within the grid. Dataset classes are also run on two-video label sets of different frame sizes; size targets include one side equal and the other smaller than the frame.",
        "grid values are the bound; the affine space is represented by its 81 corners; blob sigma >= 1 output px",
        "DESIGN.md §3 C04",
    ),
}

NOT_YET = {}


def main():
    props = [json.loads(l) for l in open(os.path.join(VERIF, "properties.jsonl"))]
    ids = [p["id"] for p in props]
    try:
        fixes = subprocess.run(
            ["git", "-C", "/repo", "log", "--format=%H %s", "bc2d651..HEAD"], capture_output=True, text=True
        ).stdout.strip().splitlines()
    except Exception:
        fixes = []
    hook_commits = [l.split()[0] for l in fixes if " hook:" in l or " verif-hook" in l]
    checks = []
    na = []
    for pid in ids:
        if pid in CHECKS and os.path.exists(os.path.join(VERIF, "props", pid.lower() + ".py")):
            cat, tech, text, note, ref = CHECKS[pid]
            checks.append(
                {
                    "property_id": pid,
                    "quick_cmd": f"./check {pid} --tier quick",
                    "thorough_cmd": f"./check {pid} --tier thorough",
                    "evidence_file": f"/verif/evidence/{pid}.json",
                    "replay_cmd_template": f"./check {pid} --replay {{path}}",
                    "engine": "mc",
                    "level_claimed": {"category": cat, "text": text, "design_ref": ref},
                    "level_note": note,
                    "technique": tech,
                }
            )
        else:
            na.append(
                {
                    "property_id": pid,
                    "reason": NOT_YET.get(pid, "check not built yet in this phase (planned: see DESIGN.md §3); not claimed until its check runs silently on the unchanged tree"),
                }
            )
    man = {
        "version": 1,
        "setup_cmd": "cd /verif && chmod +x check && /venv/bin/python -c 'import mc.core, networkx, numpy'",
        "hooks": {
            "guard": GUARD,
            "enable": f"export {GUARD}=1 (set by ./check); sleap-nn is installed in development mode from /repo, so checks import the current working tree without a build step",
            "baseline_off_cmd": "cd /repo && /venv/bin/python -m pytest -ra -q -p no:cacheprovider --timeout=900 --continue-on-collection-errors",
            "source_commits": hook_commits,
            "add_only": True,
        },
        "engines": [
            {
                "name": "mc",
                "path": "/verif/mc",
                "serves_properties": [c["property_id"] for c in checks],
                "kind_free_text": "hand-written explicit-state / small-scope exhaustive explorers driving the real sleap-nn code: E1 input/configuration enumeration vs reference model, E2 BFS over operation histories with canonical-state dedup, E3 cooperative-scheduler interleaving exploration with fault injection, E4 crash-point (file-op prefix) enumeration",
            }
        ],
        "checks": checks,
        "not_applicable": na,
        "notes": "All checks run the implementation itself (no separate model), so every explored trace is an implementation trace. Known findings: /verif/known_findings.json. Seeded breaking changes: /verif/seeded/.",
    }
    with open(os.path.join(VERIF, "MANIFEST.json"), "w") as f:
        json.dump(man, f, indent=1)
    print(f"MANIFEST.json: {len(checks)} checks, {len(na)} not claimed")


if __name__ == "__main__":
    main()
