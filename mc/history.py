"""E2 for "pure" library functions: results must not depend on which calls were made before.

The reference for call j is computed in a forked child that makes ONLY call j (the parent
must not have called the function itself).  Then, for every i, a forked child makes call i
and afterwards every call j (and, at depth 3, every pair j,k after i); each result must equal
the reference.  All ordered pairs (triples) of a small call alphabet are executed, so a cache
or scratch buffer hoisted to module / object scope and keyed too coarsely - which a
one-configuration-per-process test never sees - shows up as a history-dependent result.
"""
from __future__ import annotations

import os
import pickle
import traceback

import numpy as np


def _to_np(x):
    if hasattr(x, "detach"):
        if getattr(x, "is_nested", False):
            return [_to_np(t) for t in x]
        return x.detach().cpu().numpy()
    if isinstance(x, (list, tuple)):
        return [_to_np(v) for v in x]
    if isinstance(x, dict):
        return {k: _to_np(v) for k, v in x.items()}
    return x


def same(a, b, atol=1e-6):
    if isinstance(a, dict):
        return isinstance(b, dict) and set(a) == set(b) and all(same(a[k], b[k], atol) for k in a)
    if isinstance(a, (list, tuple)):
        return isinstance(b, (list, tuple)) and len(a) == len(b) and all(same(x, y, atol) for x, y in zip(a, b))
    if isinstance(a, np.ndarray) or isinstance(b, np.ndarray):
        a, b = np.asarray(a), np.asarray(b)
        if a.shape != b.shape:
            return False
        if a.dtype.kind in "fc" or b.dtype.kind in "fc":
            return bool(np.allclose(a, b, atol=atol, rtol=1e-6, equal_nan=True))
        return bool((a == b).all())
    if isinstance(a, float) and isinstance(b, float):
        return (a != a and b != b) or abs(a - b) <= atol
    return a == b


def _fork(fn):
    r, w = os.pipe()
    pid = os.fork()
    if pid == 0:
        os.close(r)
        try:
            out = ("ok", fn())
        except BaseException:
            out = ("err", traceback.format_exc()[-600:])
        try:
            with os.fdopen(w, "wb") as f:
                pickle.dump(out, f)
        finally:
            os._exit(0)
    os.close(w)
    with os.fdopen(r, "rb") as f:
        data = f.read()
    os.waitpid(pid, 0)
    return pickle.loads(data)


def _safe(run, entry):
    try:
        return ("value", _to_np(run(entry)))
    except Exception as e:
        return ("raised", type(e).__name__)


def search(part, calls, run, depth=2, atol=1e-6, tag="history"):
    """calls: list of (name, payload). run(entry) executes the real function. Records violations on part.

    Returns the number of (history, call) comparisons made."""
    names = [c[0] for c in calls]
    refs = []
    for j, c in enumerate(calls):
        st, val = _fork(lambda c=c: _safe(run, c))
        if st != "ok":
            part.violation({"kind": tag, "seq": [j]}, f"harness: reference child for {names[j]} failed: {val}")
            refs.append(None)
        else:
            refs.append(val)
    n = 0

    def child(i):
        out = []
        _safe(run, calls[i])
        for j in range(len(calls)):
            got = _safe(run, calls[j])
            out.append(((i, j), got[0] == refs[j][0] and same(got[1], refs[j][1], atol) if refs[j] is not None else True))
            if depth >= 3:
                for k in range(len(calls)):
                    got = _safe(run, calls[k])
                    out.append(((i, j, k), got[0] == refs[k][0] and same(got[1], refs[k][1], atol) if refs[k] is not None else True))
        return out

    for i in range(len(calls)):
        st, val = _fork(lambda i=i: child(i))
        if st != "ok":
            part.violation({"kind": tag, "seq": [i]}, f"harness: history child after {names[i]} failed: {val}")
            continue
        bad = [seq for seq, ok in val if not ok]
        for seq, ok in val:
            n += 1
            part.count()
            part.transition()
            key = f"{tag}:{seq}"
            part.state(key)
            part.nontriv(key)
        part.outcome(f"{tag}:{i}:{len(bad)}")
        part.sample({"kind": tag, "seq": [names[s] for s in val[0][0]]}, True)
        for seq in bad[:2]:
            part.violation(
                {"kind": tag, "seq": list(seq)},
                f"result of {names[seq[-1]]} after the call history {[names[s] for s in seq[:-1]]} differs from its result in a fresh process "
                f"(history-dependent state) [{len(bad)} of {len(val)} histories starting with {names[i]} differ]",
            )
    part.add(f"{tag}_comparisons", n)
    return n


def replay(case, calls, run, atol=1e-6):
    """Re-execute one history in a fresh child and compare its last call with a fresh-process reference."""
    seq = case["seq"]
    st, ref = _fork(lambda: _safe(run, calls[seq[-1]]))

    def child():
        for s in seq[:-1]:
            _safe(run, calls[s])
        return _safe(run, calls[seq[-1]])

    st2, got = _fork(child)
    ok = st == "ok" and st2 == "ok" and got[0] == ref[0] and same(got[1], ref[1], atol)
    return {"violates": not ok, "history": [calls[s][0] for s in seq], "statuses": [st, st2]}
