"""E3 — stateless schedule exploration under a cooperative scheduler.

Exactly one controlled thread runs at a time (baton = per-thread semaphore).  A
thread calls `point(label, guard)` before every *visible* operation (queue
put/get/size tests, thread join); the scheduler then picks, among the threads whose
guard holds, the one that executes its pending operation next.  The pick at the
i-th dispatch comes from a recorded choice prefix (then choice 0 = "keep the running
thread if it is still enabled, else lowest id").  `explore()` enumerates ALL choice
sequences depth-first by prefix replay, so every interleaving of visible
operations is executed; executions are also classified by the number of
preemptions they contain.

Timeout-carrying / non-blocking queue calls are modelled as a point that is always
enabled and raises Empty/Full when executed while the queue cannot serve it: both
"the other thread got there first" and "the timeout expired" are thereby explored.
"""
from __future__ import annotations

import collections
import queue as _queue
import threading


class SchedAbort(BaseException):
    """Raised inside controlled threads when the execution is aborted (deadlock / horizon)."""


class ReplayDivergence(Exception):
    pass


class _Th:
    __slots__ = ("sem", "guard", "label", "waiting", "finished", "name")

    def __init__(self, name):
        self.sem = threading.Semaphore(0)
        self.guard = None
        self.label = "begin"
        self.waiting = False
        self.finished = False
        self.name = name


class Sched:
    def __init__(self, prefix=(), horizon=500):
        self.prefix = list(prefix)
        self.horizon = horizon
        self.th = {}  # tid -> _Th
        self.ident = {}  # threading ident -> tid
        self.points = []  # (enabled tids in canonical order, chosen index, running tid, running still enabled)
        self.choices = []
        self.trace = []  # (tid, label) in execution order
        self.aborted = None  # None | "deadlock" | "horizon"
        self.blocked_at_abort = None
        self.all_done = threading.Event()
        self.lock = threading.Lock()  # protects nothing logically (one runner at a time); guards registration

    # -- registration --------------------------------------------------------
    def register_main(self, name="consumer"):
        self.th[0] = _Th(name)
        self.ident[threading.get_ident()] = 0
        return 0

    def spawn(self, name):
        tid = max(self.th) + 1
        t = _Th(name)
        t.waiting = True  # the newborn waits at its 'begin' point until first scheduled
        self.th[tid] = t
        return tid

    def thread_begin(self, tid):
        self.ident[threading.get_ident()] = tid
        t = self.th[tid]
        t.sem.acquire()
        if self.aborted:
            raise SchedAbort()
        t.waiting = False
        self.trace.append((tid, "begin"))

    def thread_end(self, tid):
        t = self.th[tid]
        t.finished = True
        t.waiting = False
        if not self.aborted:
            self.trace.append((tid, "end"))
            self._dispatch(prev=tid)

    def me(self):
        return self.ident[threading.get_ident()]

    # -- scheduling ------------------------------------------------------------
    def point(self, label, guard=None):
        if self.aborted:
            raise SchedAbort()
        tid = self.me()
        t = self.th[tid]
        t.guard, t.label, t.waiting = guard, label, True
        self._dispatch(prev=tid)
        t.sem.acquire()
        if self.aborted:
            raise SchedAbort()
        t.waiting = False
        self.trace.append((tid, label))

    def finish_main(self):
        """Called by the main (consumer) thread when its body is over: lets the others run to the end."""
        self.thread_end(0)
        self.all_done.wait(timeout=10)

    def _enabled(self):
        out = []
        for tid in sorted(self.th):
            t = self.th[tid]
            if t.finished or not t.waiting:
                continue
            if t.guard is None or t.guard():
                out.append(tid)
        return out

    def _abort(self, why):
        self.aborted = why
        self.blocked_at_abort = {tid: t.label for tid, t in self.th.items() if not t.finished}
        for t in self.th.values():
            t.sem.release()
        self.all_done.set()

    def _dispatch(self, prev):
        if self.aborted:
            return
        enabled = self._enabled()
        if not enabled:
            if all(t.finished for t in self.th.values()):
                self.all_done.set()
            else:
                self._abort("deadlock")
            return
        if len(self.points) >= self.horizon:
            self._abort("horizon")
            return
        still = prev in enabled
        if still:
            enabled.remove(prev)
            enabled.insert(0, prev)
        i = len(self.points)
        if i < len(self.prefix):
            c = self.prefix[i]
            if not 0 <= c < len(enabled):
                self._abort("divergence")
                return
        else:
            c = 0
        self.points.append((tuple(enabled), c, prev, still))
        self.choices.append(c)
        self.th[enabled[c]].sem.release()

    def preemptions(self):
        return sum(1 for en, c, prev, still in self.points if still and c != 0)


class SchedQueue:
    """queue.Queue look-alike whose every operation is a scheduling point."""

    def __init__(self, sched, maxsize=0, snap=None):
        self.s = sched
        self.snap = snap or (lambda x: x)  # what the log keeps of an item (taken at operation time)
        self.maxsize = maxsize
        self.items = collections.deque()
        self.log = []  # ("put"|"get", tid, item)

    def _full(self):
        return self.maxsize > 0 and len(self.items) >= self.maxsize

    def put(self, item, block=True, timeout=None):
        if block and timeout is None:
            self.s.point("put", guard=lambda: not self._full())
        else:
            self.s.point("put?")
            if self._full():
                raise _queue.Full
        self.items.append(item)
        self.log.append(("put", self.s.me(), self.snap(item)))

    def get(self, block=True, timeout=None):
        if block and timeout is None:
            self.s.point("get", guard=lambda: len(self.items) > 0)
        else:
            self.s.point("get?")
            if not self.items:
                raise _queue.Empty
        item = self.items.popleft()
        self.log.append(("get", self.s.me(), self.snap(item)))
        return item

    def put_nowait(self, item):
        return self.put(item, block=False)

    def get_nowait(self):
        return self.get(block=False)

    def qsize(self):
        self.s.point("qsize")
        return len(self.items)

    def empty(self):
        self.s.point("empty")
        return not self.items

    def full(self):
        self.s.point("full")
        return self._full()

    def task_done(self):
        pass

    def join(self):
        pass


def explore(run_one, max_executions=None):
    """Depth-first enumeration of all choice sequences by prefix replay.

    run_one(prefix) -> Sched (after a complete execution).  Yields every execution's
    Sched; the caller checks its oracle on each.  Returns when the frontier is empty
    (exhaustive) or after max_executions (caller must report the cap).
    """
    stack = [[]]
    n = 0
    while stack:
        prefix = stack.pop()
        s = run_one(prefix)
        n += 1
        yield s
        if s.aborted == "divergence":
            raise ReplayDivergence(f"prefix {prefix} could not be replayed")
        if s.choices[: len(prefix)] != list(prefix):
            raise ReplayDivergence(f"prefix {prefix} replayed as {s.choices[:len(prefix)]}")
        for i in range(len(s.points) - 1, len(prefix) - 1, -1):
            en = s.points[i][0]
            for alt in range(len(en) - 1, 0, -1):
                stack.append(s.choices[:i] + [alt])
        if max_executions is not None and n >= max_executions and stack:
            return
