#!/usr/bin/env python3
"""Prints the latest thorough-tier summary line per property found in the `vp run` logs (/root/.vp/runs/*/log) as a
markdown table (used for DESIGN.md 9.6; those runs are made from a snapshot of committed /verif, they are not evidence)."""
import glob, os, re
rows = {}
for log in sorted(glob.glob("/root/.vp/runs/*/log"), key=lambda p: int(p.split("/")[-2])):
    n = log.split("/")[-2]
    for line in open(log, errors="replace"):
        m = re.match(r"\[(C\d\d)\] tier=thorough seed=(\d+) evaluations=(\d+) states=(\d+) transitions=(\d+) nontrivial=(\d+) outcomes=(\d+) exhaustive=(\w+) violations=(\d+) known=(\d+) wall=([\d.]+)s", line)
        if m:
            rows[m.group(1)] = (n,) + m.groups()[1:]
print("| id | vp run | evaluations | states | transitions | non-trivial | outcomes | exhaustive | violations | known | wall s |")
print("|---|---|---|---|---|---|---|---|---|---|---|")
for pid in sorted(rows):
    n, seed, ev, st, tr, nt, oc, ex, vi, kn, wall = rows[pid]
    print(f"| {pid} | #{n} | {ev} | {st} | {tr} | {nt} | {oc} | {ex} | {vi} | {kn} | {wall} |")
