#!/usr/bin/env python3
"""Validate an independently seeded property-breaking change and run our checks against it.

usage: validate_seed.py <seed-name> <out-dir-of-seeder> <check-id>[,<check-id>...] [--skip-baseline]

Steps (all in a fresh scratch worktree of /repo HEAD, removed at the end):
  1. demo_test.py passes on the unchanged tree
  2. patch.diff applies; demo_test.py fails with it
  3. the 112 pinned stable tests still pass with it (tools/baseline_check.py)
  4. each listed check (quick tier, VERIF_REPO=<worktree>) -> exit 1 = caught
Writes /verif/seeded/<seed-name>/{patch.diff, demo_test.py, meta.json}.
"""
import json
import os
import shutil
import subprocess
import sys


def sh(cmd, cwd=None, env=None, timeout=7200):
    r = subprocess.run(cmd, cwd=cwd, env=env, shell=isinstance(cmd, str), capture_output=True, text=True, timeout=timeout)
    return r.returncode, (r.stdout + r.stderr)


def main():
    name, out, ids = sys.argv[1], sys.argv[2], sys.argv[3].split(",")
    skip_base = "--skip-baseline" in sys.argv
    wt = f"/tmp/val-{name}"
    sh(["git", "-C", "/repo", "worktree", "remove", "--force", wt])
    rc, o = sh(["git", "-C", "/repo", "worktree", "add", "--detach", wt, "HEAD"])
    assert rc == 0, o
    res = {"seed": name, "checks": {}}
    env = dict(os.environ, PYTHONPATH=wt, WANDB_MODE="offline")
    try:
        demo = os.path.join(out, "demo_test.py")
        pyt = ["/venv/bin/python", "-m", "pytest", "-q", "-p", "no:cacheprovider", "-x", demo]
        rc0, o0 = sh(pyt, cwd=wt, env=env)
        res["demo_without_change"] = "passes" if rc0 == 0 else f"FAILS rc={rc0}: {o0[-400:]}"
        rc, o = sh(["git", "-C", wt, "apply", os.path.join(out, "patch.diff")])
        res["patch_applies"] = rc == 0
        if rc != 0:
            res["patch_error"] = o[-400:]
        rc1, o1 = sh(pyt, cwd=wt, env=env)
        res["demo_with_change"] = "fails" if rc1 != 0 else "PASSES (does not demonstrate)"
        res["demo_failure_tail"] = o1[-600:] if rc1 != 0 else ""
        if not skip_base:
            rcb, ob = sh(["python3", "/verif/tools/baseline_check.py", wt])
            res["baseline"] = ob.strip().splitlines()[-1] if rcb == 0 else ("BROKEN: " + ob[-600:])
            sh("git checkout -- tests; git clean -fdq tests", cwd=wt)
        for cid in ids:
            e2 = dict(os.environ, VERIF_REPO=wt)
            rcc, oc = sh(["./check", cid, "--tier", os.environ.get("SEED_TIER", "quick")], cwd="/verif", env=e2)
            lines = [l for l in oc.splitlines() if l.startswith("VIOLATION") or l.startswith("  ") or l.startswith("[")]
            res["checks"][cid] = {"exit": rcc, "verdict": "CAUGHT" if rcc == 1 else ("MISSED" if rcc == 0 else "HARNESS-ERROR"), "first": lines[:3], "summary": lines[-1:] }
        d = f"/verif/seeded/{name}"
        os.makedirs(d, exist_ok=True)
        shutil.copy(os.path.join(out, "patch.diff"), d)
        shutil.copy(demo, d)
        meta = {}
        mp = os.path.join(out, "meta.json")
        if os.path.exists(mp):
            try:
                meta = json.load(open(mp))
            except Exception:
                meta = {"raw": open(mp).read()[:2000]}
        meta["validation"] = res
        json.dump(meta, open(os.path.join(d, "meta.json"), "w"), indent=1)
        print(json.dumps(res, indent=1))
    finally:
        sh(["git", "-C", "/repo", "worktree", "remove", "--force", wt])
        sh(["git", "-C", "/repo", "worktree", "prune"])


if __name__ == "__main__":
    main()
