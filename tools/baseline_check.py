#!/usr/bin/env python3
"""Run the pinned test suite in <repo dir> and verify that every BASELINE stable_pass test still passes.

usage: baseline_check.py <repo-or-worktree dir>     (exit 0 = all 112 stable tests pass)
"""
import json
import os
import subprocess
import sys
import tempfile
import xml.etree.ElementTree as ET


def main():
    d = sys.argv[1]
    base = json.load(open("/root/.vp/BASELINE.json"))
    stable = set(base["stable_pass"])
    with tempfile.NamedTemporaryFile(suffix=".xml", delete=False) as f:
        xml = f.name
    env = dict(os.environ, PYTHONPATH=d, WANDB_MODE="offline")
    env.pop("TALMOLAB_SLEAP_NN_VERIF", None)
    cmd = ["/venv/bin/python", "-m", "pytest", "-ra", "-q", "-p", "no:cacheprovider", "--timeout=900", "--continue-on-collection-errors", f"--junitxml={xml}"]
    if len(sys.argv) > 2:
        cmd += sys.argv[2:]
    r = subprocess.run(cmd, cwd=d, env=env, capture_output=True, text=True)
    passed = set()
    failed = set()
    for tc in ET.parse(xml).getroot().iter("testcase"):
        name = f"{tc.get('classname')}::{tc.get('name')}"
        bad = any(c.tag in ("failure", "error", "skipped") for c in tc)
        (failed if bad else passed).add(name)
    os.unlink(xml)
    missing = sorted(stable - passed)
    print(f"passed={len(passed)} failed={len(failed)} stable_required={len(stable)} stable_missing={len(missing)}")
    for m in missing[:20]:
        print("  NOT PASSING:", m)
    return 0 if not missing else 1


if __name__ == "__main__":
    sys.exit(main())
