#!/usr/bin/env python3
"""Mutation drill helper.

usage: mutate.py <worktree> <check-id>[,<check-id>...] <file> <<EOF
<old text>
=====
<new text>
EOF

Applies the textual replacement (first occurrence, binary-safe so CRLF files stay CRLF) to <file> in the
scratch worktree, runs `VERIF_REPO=<worktree> ./check <id> --tier quick` for each id, prints the verdict and the
first VIOLATION lines, then restores the file with git checkout.  Exit 0 if every listed check exited 1 (caught).
"""
import os
import subprocess
import sys


def main():
    wt, ids, rel = sys.argv[1], sys.argv[2].split(","), sys.argv[3]
    tier = os.environ.get("MUT_TIER", "quick")
    text = sys.stdin.read()
    old, new = text.split("\n=====\n")
    new = new.rstrip("\n")
    old = old.strip("\n")
    path = os.path.join(wt, rel)
    data = open(path, "rb").read()
    crlf = b"\r\n" in data
    o, n = old.encode(), new.encode()
    if crlf:
        o, n = o.replace(b"\n", b"\r\n"), n.replace(b"\n", b"\r\n")
    if data.count(o) < 1:
        print(f"MUTATION NOT APPLICABLE: text not found in {rel}")
        return 3
    open(path, "wb").write(data.replace(o, n, 1))
    allcaught = True
    try:
        for cid in ids:
            env = dict(os.environ, VERIF_REPO=wt)
            r = subprocess.run(["./check", cid, "--tier", tier], cwd="/verif", env=env, capture_output=True, text=True)
            lines = [l for l in r.stdout.splitlines() if l.startswith("VIOLATION") or l.startswith("  ") or l.startswith("[") or "HARNESS" in l]
            caught = r.returncode == 1
            allcaught &= caught
            print(f"--- {cid}: exit={r.returncode} {'CAUGHT' if caught else 'MISSED'}")
            for l in lines[:4] + lines[-1:]:
                print("   ", l[:300])
            if r.returncode not in (0, 1):
                print(r.stdout[-1500:], r.stderr[-1500:])
    finally:
        subprocess.run(["git", "-C", wt, "checkout", "--", rel])
    return 0 if allcaught else 1


if __name__ == "__main__":
    sys.exit(main())
