#!/usr/bin/env python3
"""Print a markdown table of what each check's last run covered (from /verif/evidence/*.json)."""
import glob, json, os
rows = []
for f in sorted(glob.glob(os.path.join(os.path.dirname(__file__), "..", "evidence", "C*.json"))):
    d = json.load(open(f)); c = d["coverage"]
    rows.append((d["property_id"], d["tier"], d["level"], c.get("evaluations"), c.get("states"), c.get("transitions"), c.get("distinct_nontrivial"), c.get("distinct_observed_outcomes"), c.get("exhaustive"), sum(c.get("known_findings_matched", {}).values()), d.get("violations"), d.get("wall_s")))
print("| id | tier | level | evaluations | states | transitions | non-trivial | outcomes | exhaustive | known | violations | wall s |")
print("|---|---|---|---|---|---|---|---|---|---|---|---|")
for r in rows:
    print("| " + " | ".join(str(x) for x in r) + " |")
