#!/usr/bin/env python3
"""Rewrites the two tables of DESIGN.md 9.6 between their markers from tools/summary.py and tools/thorough_table.py."""
import re, subprocess, os
root = os.path.join(os.path.dirname(__file__), "..")
p = os.path.join(root, "DESIGN.md")
s = open(p).read()
q = subprocess.run(["python3", os.path.join(root, "tools", "summary.py")], capture_output=True, text=True).stdout.strip()
t = subprocess.run(["python3", os.path.join(root, "tools", "thorough_table.py")], capture_output=True, text=True).stdout.strip()
def put(s, tag, body):
    a, b = f"<!-- {tag} -->", f"<!-- /{tag} -->"
    if tag in s and a not in s:
        s = s.replace(tag, f"{a}\n{body}\n{b}", 1)
    else:
        s = re.sub(re.escape(a) + r".*?" + re.escape(b), lambda m: f"{a}\n{body}\n{b}", s, flags=re.S)
    return s
s = put(s, "QUICK-TABLE", q)
s = put(s, "THOROUGH-TABLE", t)
open(p, "w").write(s)
print("tables written")
