#!/usr/bin/env python3
"""Markdown table of the independently seeded changes under /verif/seeded (from their meta.json)."""
import glob, json, os
print("| seed | property | change | needs | demo without / with | 112 stable tests | checks (quick tier) |")
print("|---|---|---|---|---|---|---|")
for f in sorted(glob.glob(os.path.join(os.path.dirname(__file__), "..", "seeded", "*", "meta.json"))):
    d = json.load(open(f)); v = d.get("validation", {})
    chk = ", ".join(f"{k}: {c['verdict']}" for k, c in v.get("checks", {}).items())
    base = "pass" if "stable_missing=0" in str(v.get("baseline", "")) else str(v.get("baseline", "?"))[:40]
    print(f"| {os.path.basename(os.path.dirname(f))} | {d.get('property','')} | {str(d.get('summary',''))[:220].replace('|','/')} | {str(d.get('needs',''))[:200].replace('|','/')} | {v.get('demo_without_change')} / {v.get('demo_with_change')} | {base} | {chk} |")
