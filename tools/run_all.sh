#!/bin/bash
# usage: tools/run_all.sh [tier] [seed]   -- runs every registered check once, prints one line per check
cd "$(dirname "$0")/.." || exit 2
tier=${1:-quick}; seed=${2:-0}
for p in C01 C02 C03 C04 C05 C06 C07 C08 C09 C10 C11 C12 C13 C14 C15 C16 C17 C18 C19 C20; do
  out=$(VERIF_SEED=$seed ./check $p --tier $tier 2>&1); rc=$?
  echo "$p exit=$rc $(echo "$out" | grep -c '^VIOLATION') violations $(echo "$out" | grep -c '^KNOWN-FINDING') known | $(echo "$out" | tail -1 | cut -c1-200)"
done
