#!/usr/bin/env python3
"""Re-runs the quick tier of each seed's own check(s) against every seed under /verif/seeded (scratch worktree per seed,
VERIF_REPO), N lanes in parallel, and prints which are caught by the checks as they are NOW.
usage: recheck_seeds.py [lanes] [name-substring]"""
import json, os, subprocess, sys, glob
from concurrent.futures import ThreadPoolExecutor

lanes = int(sys.argv[1]) if len(sys.argv) > 1 else 4
flt = sys.argv[2] if len(sys.argv) > 2 else ""


def one(d):
    name = os.path.basename(d)
    meta = json.load(open(os.path.join(d, "meta.json")))
    checks = list(meta.get("validation", {}).get("checks", {})) or [name[:3]]
    own = name[:3]
    wt = f"/tmp/rc-{name}"
    subprocess.run(["git", "-C", "/repo", "worktree", "remove", "--force", wt], capture_output=True)
    subprocess.run(["git", "-C", "/repo", "worktree", "add", "-q", "--detach", wt, "HEAD"], check=True, capture_output=True)
    try:
        r = subprocess.run(["git", "-C", wt, "apply", os.path.join(d, "patch.diff")], capture_output=True, text=True)
        if r.returncode:
            return name, {"patch": "FAILED " + r.stderr[-200:]}
        out = {}
        for c in ([own] if own in checks else checks[:1]):
            p = subprocess.run(["./check", c, "--tier", "quick"], cwd="/verif", env=dict(os.environ, VERIF_REPO=wt), capture_output=True, text=True)
            out[c] = "CAUGHT" if p.returncode == 1 else ("MISSED" if p.returncode == 0 else f"ERROR rc={p.returncode}")
        return name, out
    finally:
        subprocess.run(["git", "-C", "/repo", "worktree", "remove", "--force", wt], capture_output=True)


dirs = sorted(d for d in glob.glob("/verif/seeded/*") if os.path.isdir(d) and flt in os.path.basename(d))
with ThreadPoolExecutor(lanes) as ex:
    for name, res in ex.map(one, dirs):
        print(name, res, flush=True)
