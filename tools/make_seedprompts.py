#!/usr/bin/env python3
"""Regenerates /tmp/seedprompts/CXX.txt (the ONLY input given to fresh seeding sub-agents: property text + scratch worktree
paths + task rules; nothing about the checks).  See tools/seedprompt_example_C13.txt for the rendered form."""
import json, os, re
ex = open(os.path.join(os.path.dirname(__file__), "seedprompt_example_C13.txt")).read()
props = {json.loads(l)["id"]: json.loads(l) for l in open(os.path.join(os.path.dirname(__file__), "..", "properties.jsonl"))}
p13 = props["C13"]
os.makedirs("/tmp/seedprompts", exist_ok=True)
for pid, p in props.items():
    t = ex.replace(p13["title"], p["title"]).replace(p13["statement"], p["statement"]).replace(p13["quantifier"]["text"], p["quantifier"]["text"]).replace("C13", pid)
    open(f"/tmp/seedprompts/{pid}.txt", "w").write(t)
print("written", len(props))
