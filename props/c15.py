"""C15 — object-keypoint similarity and instance matching obey their mathematical contracts.

E1, bounded exhaustive.  Five families of cases, all driving the real functions of
`sleap_nn/evaluation.py` and `sleap_nn/tracking/utils.py`:

  oks        every (ground-truth pose, predicted pose) pair over a small node alphabet, n_nodes <= 3,
             x stddev/scale/normalisation options, one prediction at a time (1 x 1 calls).  For one
             ground truth and one option the values for ALL predicted poses form a table; the
             relations of the property are evaluated between entries of that table:
               range [0,1] / identical => 1 / constant along a node missing in the ground truth (its
               predicted position and its stddev are both irrelevant) /
               prediction NaN == prediction very far away / non-increasing in the distance of one
               predicted node / unchanged by translating both poses
  oks_matrix n_gt x n_pr calls: shape, every entry equal to its own 1 x 1 call, matrix permuted
             when instances are permuted (gt, pr, both; scale vector permuted along)
  area       compute_instance_area against the float64 bounding box of the visible nodes
  match      match_instances on real sio.LabeledFrames (HDF5-embedded synthetic video): all ordered
             lists of 0..3 gt and 0..3 predicted poses x every weak ordering of the scores
             (ties included) x thresholds: one-to-one, conservation, pair OKS consistent and above
             the threshold, no matchable (missed gt, unused prediction) pair left over
  helpers    greedy_matching / hungarian_matching on every cost matrix <= 3x3 over {0,1,2,inf}
             (brute force over all complete assignments), compute_iou, compute_cosine_sim

The oracles are relations and brute-force references; nothing is taken from compute_oks itself
except its 1 x 1 value when the n_gt x n_pr form is compared with it.
"""
from __future__ import annotations

import itertools
import math
import os
import shutil
import tempfile

import numpy as np

from mc import core

LEVEL = "model_checking"
RULE = (
    "oks: a case is one (gt pose, predicted pose, option[, shift]) 1x1 call of compute_oks; the distinct inputs counted "
    "as states are the distinct (alphabet, n_nodes, gt pose, predicted pose) pairs, and a pair is non-trivial when at "
    "least one node visible in the ground truth has a present prediction at a finite non-zero distance (the value then "
    "depends on geometry and normalisation, it is neither the identity nor a complete miss); oks_matrix: non-trivial "
    "when n_gt*n_pr >= 2; match: non-trivial when the frame has >= 1 gt and >= 1 prediction and (n_gt >= 2 or n_pr >= 2) "
    "so instances compete; helpers: matrices with >= 2 rows and >= 2 columns, non-identical box / vector pairs"
)
ASSUMPTIONS = [
    "far family: a fractional-coordinate 3-node pose and its 64 edited predictions translated by offsets up to ~1e6 (sums exact in float64): OKS must not change",
    "alias family: compute_oks called with the same array object in both roles and with two arrays whose roles are swapped between consecutive calls (identity clause on shared objects, arguments unchanged)",
    "history part: all ordered pairs (thorough: triples) of 30 compute_oks calls colliding in shapes with different stddev/scale options, each history in a forked child, compared with a fresh-process result",
    "coordinates come from the alphabet {NaN, 0, 1, 3, 10} (a node is either missing = NaN in both coordinates, or a grid point; "
    "half-NaN nodes are outside the alphabet), plus one very far predicted point (1e6, 1e6); 2-D points only",
    "n_nodes <= 2 over the full 17-value node alphabet, n_nodes = 3 over a 5-value (quick) / a 5- and a 6-value (thorough) node alphabet",
    "every ground-truth pose has >= 1 visible node (with none, OKS is 0/0 and the statement has no subject)",
    "stddev in {default 0.025, scalar 0.5, per-node vector}, scale in {None (bounding-box area), scalar 4, per-gt vector}, "
    "both normalisations; quick uses a fixed covering subset of 6 of the 18 combinations, thorough all 18",
    "n_gt, n_pr <= 2 for matrix calls (<= 3 for 1-node poses); n_gt >= 1 and n_pr >= 1",
    "match_instances: 0..3 gt x 0..3 predictions drawn with repetition from 3 gt / 4 predicted fixed poses (quick), 4 / 6 (thorough); "
    "a frame with 0 ground-truth instances may either return an empty result or raise (nothing to conserve) - which one is recorded",
    "cost matrices <= 3x3 over {0,1,2,inf} (quick: the 3x3 ones over {0,1,inf}); Hungarian optimality only for feasible matrices",
    "tolerances: 1e-12 absolute for relations that are identities in the same arithmetic (range, identity, missing nodes, monotonicity); "
    "1e-9 for translation / permutation / matrix-vs-pairwise",
]
KNOWN_PREDICATES = {}
MIN_OUTCOMES = 50

TOL = 1e-12
TOL_INV = 1e-9

NAN = float("nan")
NANPT = (NAN, NAN)
FAR = (1e6, 1e6)
GRID4 = [(float(x), float(y)) for x in (0, 1, 3, 10) for y in (0, 1, 3, 10)]
ALPH = {
    "node17": [NANPT] + GRID4,
    "node5": [NANPT, (0.0, 0.0), (1.0, 0.0), (0.0, 3.0), (10.0, 10.0)],
    "node6": [NANPT, (0.0, 0.0), (1.0, 0.0), (0.0, 1.0), (3.0, 3.0), (3.0, 10.0)],
    "mat3": [NANPT, (0.0, 0.0), (3.0, 1.0)],
    "mat4": [NANPT, (0.0, 0.0), (1.0, 0.0), (3.0, 10.0)],
}
ALPH_ID = {k: i for i, k in enumerate(sorted(ALPH))}
SHIFTS = [(7.0, -2.0), (-0.5, 123.25), (131072.0 + 341.0 / 1024.0, -(65536.0 + 683.0 / 1024.0))]  # the last one: poses far from the origin; 27 significant bits, so shifted coordinates are exact but their squares are not
STD_VEC = [0.5, 1.0, 0.25]
SCALE_VEC = [25.0, 4.0, 9.0]

# fixed 3-node poses for the matrix family
Q3 = [
    [(0.0, 0.0), (10.0, 0.0), (0.0, 10.0)],
    [(1.0, 0.0), (10.0, 0.0), (0.0, 10.0)],
    [NANPT, (10.0, 0.0), (0.0, 10.0)],
    [(0.0, 0.0), NANPT, NANPT],
    [(3.0, 3.0), (3.0, 3.0), (3.0, 3.0)],
    [(1.0, 1.0), (11.0, 1.0), NANPT],
    [NANPT, NANPT, NANPT],  # predictions only
]

# fixed 3-node poses for match_instances
MP = {
    "m0": [(0.0, 0.0), (10.0, 0.0), (0.0, 10.0)],
    "m1": [(1.0, 0.0), (10.0, 0.0), (0.0, 10.0)],  # one node 1 px off m0: OKS(m0, m1) = (2 + e^-2)/3 > 0.5
    "m2": [(40.0, 40.0), (50.0, 40.0), NANPT],  # degenerate (collinear) box, one node missing
    "m3": [(200.0, 200.0), (210.0, 203.0), (203.0, 210.0)],  # far from everything: OKS underflows to exactly 0
    "m4": [(1.0, 1.0), (11.0, 1.0), (1.0, 11.0)],  # m0 shifted by (1,1): 0 < OKS < 0.5
    "m5": [NANPT, NANPT, NANPT],  # a prediction with nothing visible
    "m6": [(40.0, 40.0), (50.0, 41.0), (45.0, 45.0)],  # against m2: one exact node, one complete miss -> OKS == 0.5 exactly
}
SCORE_VALUES = [0.9, 0.6, 0.3]

_IMPL = {}
_CALLS = [0]


def impl():
    if not _IMPL:
        from sleap_nn import evaluation as ev
        from sleap_nn.tracking import utils as tu

        _IMPL["ev"] = ev
        _IMPL["tu"] = tu
    return _IMPL


# ---------------------------------------------------------------------------
# options


def options(n_nodes, n_gt, tier):
    std = ["default", 0.5, STD_VEC[:n_nodes]]
    scl = [None, 4.0, SCALE_VEC[:n_gt]]
    if tier == "thorough":
        return [{"stddev": s, "scale": c, "coco": k} for s in std for c in scl for k in (True, False)]
    pick = [(0, 0, True), (0, 0, False), (2, 1, True), (1, 2, False), (2, 0, False), (1, 1, True)]
    return [{"stddev": std[a], "scale": scl[b], "coco": k} for a, b, k in pick]


def opt_kwargs(opt):
    kw = {"use_cocoeval": bool(opt["coco"])}
    s = opt["stddev"]
    if isinstance(s, (list, tuple)):
        kw["stddev"] = np.asarray(s, dtype=np.float64)
    elif s != "default":
        kw["stddev"] = float(s)
    c = opt["scale"]
    if isinstance(c, (list, tuple)):
        kw["scale"] = np.asarray(c, dtype=np.float64)
    else:
        kw["scale"] = None if c is None else float(c)
    return kw


def oks_call(gt, pr, kw):
    _CALLS[0] += 1
    return impl()["ev"].compute_oks(gt, pr, **kw)


def arr(points):
    return np.array(points, dtype=np.float64)


def fmt(v):
    return repr(float(v))


# ---------------------------------------------------------------------------
# family "oks": 1x1 calls, relations between entries of the per-gt table


def eval_oks(case):
    gt = arr(case["gt"])[None]
    pr = arr(case["pr"])[None]
    kw = opt_kwargs(case["opt"])
    rel = case["rel"]
    obs = {}

    def one(g, p, name, kw=kw):
        try:
            r = oks_call(g, p, kw)
        except Exception as e:
            return None, f"compute_oks raised {type(e).__name__}: {e} ({name}: gt={g[0].tolist()} pr={p[0].tolist()})"
        if getattr(r, "shape", None) != (1, 1):
            return None, f"compute_oks returned shape {getattr(r, 'shape', None)}, expected (1, 1)"
        obs[name] = float(r[0, 0])
        return float(r[0, 0]), None

    v1, err = one(gt, pr, "oks")
    if err:
        return err, obs
    if rel in ("call", "range"):
        if not math.isfinite(v1) or v1 < 0 or v1 > 1 + TOL:
            return f"OKS = {fmt(v1)} is not a finite value in [0, 1]", obs
        return None, obs
    if rel == "identity":
        if not abs(v1 - 1.0) <= TOL:
            return f"prediction identical to the ground truth but OKS = {fmt(v1)} != 1", obs
        return None, obs
    if rel == "translation":
        sh = arr(case["shift"])
        v2, err = one(gt + sh, pr + sh, "oks_shifted")
        if err:
            return err, obs
        if not abs(v1 - v2) <= TOL_INV:
            return f"translating both poses by {case['shift']} changes OKS from {fmt(v1)} to {fmt(v2)}", obs
        return None, obs
    if rel == "missing_gt_stddev":
        v2, err = one(gt, pr, "oks_other_stddev", opt_kwargs(case["opt2"]))
        if err:
            return err, obs
        if not abs(v1 - v2) <= TOL:
            return (
                f"changing stddev only at nodes missing in the ground truth ({case['opt']['stddev']} -> {case['opt2']['stddev']}) "
                f"changes OKS from {fmt(v1)} to {fmt(v2)}"
            ), obs
        return None, obs
    pr2 = arr(case["pr2"])[None]
    v2, err = one(gt, pr2, "oks2")
    if err:
        return err, obs
    if rel == "missing_gt":
        if not abs(v1 - v2) <= TOL:
            return f"predictions differ only at a node missing in the ground truth, yet OKS {fmt(v1)} != {fmt(v2)}", obs
    elif rel == "missing_pr":
        if not abs(v1 - v2) <= TOL:
            return (
                f"a missing predicted node scores OKS {fmt(v1)} but the same node placed at {FAR} scores {fmt(v2)}: "
                "a missing prediction is not treated as a complete miss"
            ), obs
    elif rel == "monotone":
        if not v2 <= v1 + TOL:
            return f"moving one predicted node farther from its target raises OKS from {fmt(v1)} to {fmt(v2)}", obs
    else:
        raise ValueError(f"unknown relation {rel}")
    return None, obs


def _poses(aname, n, far):
    a = list(ALPH[aname]) + ([FAR] if far else [])
    idx = list(itertools.product(range(len(a)), repeat=n))
    return a, np.array([[a[i] for i in t] for t in idx], dtype=np.float64)


_POSE_CACHE = {}


def poses(aname, n, far):
    k = (aname, n, far)
    if k not in _POSE_CACHE:
        _POSE_CACHE[k] = _poses(aname, n, far)
    return _POSE_CACHE[k]


def _d2(target, a):
    """Exact squared distances from a visible target node to every alphabet value (NaN -> inf)."""
    out = np.empty(len(a))
    for i, p in enumerate(a):
        out[i] = math.inf if math.isnan(p[0]) else (p[0] - target[0]) ** 2 + (p[1] - target[1]) ** 2
    return out


def _table(part, gt1, PR, kw, mk):
    P = PR.shape[0]
    T = np.full(P, np.nan)
    ok = np.ones(P, bool)
    f = impl()["ev"].compute_oks
    for j in range(P):
        try:
            r = f(gt1, PR[j : j + 1], **kw)
            if getattr(r, "shape", None) != (1, 1):
                ok[j] = False
                part.violation(mk(j), f"compute_oks returned shape {getattr(r, 'shape', None)}, expected (1, 1)")
                continue
            T[j] = r[0, 0]
        except Exception as e:
            ok[j] = False
            part.violation(mk(j), f"compute_oks raised {type(e).__name__}: {e}")
    part.count(P)
    part.transition(P)
    return T, ok


def _report(part, case):
    msg, _ = eval_oks(case)
    if msg is None:
        raise RuntimeError(f"explorer flagged a case that the direct evaluation accepts: {core.jsonable(case)}")
    part.violation(case, msg)


def work_oks(part, shard):
    for aname, n, gi, opts, shifts in shard:
        a_gt, GT = poses(aname, n, False)
        a_pr, PR = poses(aname, n, True)
        A = len(a_pr)
        shape = (A,) * n
        P = PR.shape[0]
        gidx = np.unravel_index(gi, (len(a_gt),) * n)
        gt1 = GT[gi : gi + 1]
        gt_list = GT[gi].tolist()
        vis = [not math.isnan(a_gt[i][0]) for i in gidx]
        assert any(vis)
        ident = int(np.ravel_multi_index(gidx, shape))  # a_gt is a prefix of a_pr
        # ---- states / non-triviality, from the inputs only
        MI = np.indices(shape).reshape(n, -1)  # node-wise alphabet index of every predicted pose
        nt = np.zeros(P, bool)
        for k in range(n):
            if vis[k]:
                nt |= (MI[k] != 0) & (MI[k] != A - 1) & (MI[k] != gidx[k])
        base = ((ALPH_ID[aname] * 4 + n) << 44) | (gi << 20)
        for j in range(P):
            part.state(base | j)
        for j in np.flatnonzero(nt):
            part.nontriv(base | int(j))
        first_nt = int(np.flatnonzero(nt)[0]) if nt.any() else None

        for opt in opts:
            kw = opt_kwargs(opt)

            def mk(j, rel="call", j2=None, shift=None, _g=gt_list):
                return {
                    "kind": "oks",
                    "rel": rel,
                    "gt": _g,
                    "pr": PR[j].tolist(),
                    "pr2": None if j2 is None else PR[j2].tolist(),
                    "shift": None if shift is None else list(shift),
                    "opt": opt,
                }

            T, ok = _table(part, gt1, PR, kw, mk)
            part.sample(mk(0, "range"), False)
            if first_nt is not None:
                part.sample(mk(first_nt, "range"), True)
            for v in np.unique(np.round(T[ok & np.isfinite(T)], 10)):
                part.outcome(repr(float(v)))
            fin = ok & np.isfinite(T)
            nrel = 0
            # range
            bad = ok & ~(np.isfinite(T) & (T >= 0) & (T <= 1 + TOL))
            nrel += P
            for j in np.flatnonzero(bad)[:3]:
                _report(part, mk(int(j), "range"))
            if bad.sum() > 3:
                part.n_viol += int(bad.sum()) - 3
            # identity
            nrel += 1
            if fin[ident] and not abs(T[ident] - 1.0) <= TOL:
                _report(part, mk(ident, "identity"))
            Tn = T.reshape(shape)
            Fn = fin.reshape(shape)
            for k in range(n):
                Tk = np.moveaxis(Tn, k, 0)
                Fk = np.moveaxis(Fn, k, 0)
                Jk = np.moveaxis(np.arange(P).reshape(shape), k, 0)
                # a missing prediction (index 0) scores like the far point (index A-1)
                both = Fk[0] & Fk[A - 1]
                d = np.abs(Tk[0] - Tk[A - 1])
                nrel += int(both.sum())
                w = np.argwhere(both & ~(d <= TOL))
                if len(w):
                    r = tuple(w[0])
                    _report(part, mk(int(Jk[0][r]), "missing_pr", int(Jk[A - 1][r])))
                if not vis[k]:
                    # node missing in the ground truth: constant along this axis
                    both = Fk & Fk[0][None]
                    d = np.abs(Tk - Tk[0][None])
                    nrel += int(both.sum())
                    w = np.argwhere(both & ~(d <= TOL))
                    if len(w):
                        r = tuple(w[0])
                        _report(part, mk(int(Jk[0][r[1:]]), "missing_gt", int(Jk[r])))
                    continue
                # visible node: non-increasing in the distance of the prediction
                d2 = _d2(a_gt[gidx[k]], a_pr)
                order = np.argsort(d2, kind="stable")
                ds = d2[order]
                starts = [0] + [i for i in range(1, A) if ds[i] > ds[i - 1]] + [A]
                lo = np.where(Fk, Tk, np.inf)[order]
                hi = np.where(Fk, Tk, -np.inf)[order]
                far_max = None  # max over all strictly farther groups
                far_arg = None
                for g in range(len(starts) - 2, -1, -1):
                    s, e = starts[g], starts[g + 1]
                    if far_max is not None:
                        mn = lo[s:e].min(axis=0)
                        nrel += int(np.isfinite(mn).sum())
                        w = np.argwhere(far_max > mn + TOL)
                        if len(w):
                            r = tuple(w[0])
                            near = s + int(np.argmin(lo[s:e][(slice(None),) + r]))
                            far_i = int(far_arg[r])
                            _report(part, mk(int(Jk[order[near]][r]), "monotone", int(Jk[order[far_i]][r])))
                            break
                    gm = hi[s:e].max(axis=0)
                    ga = s + hi[s:e].argmax(axis=0)
                    if far_max is None:
                        far_max, far_arg = gm, ga
                    else:
                        upd = gm > far_max
                        far_arg = np.where(upd, ga, far_arg)
                        far_max = np.where(upd, gm, far_max)
            # the stddev of a node missing in the ground truth is irrelevant
            if isinstance(opt["stddev"], list) and not all(vis):
                opt2 = dict(opt, stddev=[sd if v else 3.0 * sd for sd, v in zip(opt["stddev"], vis)])

                def mk2(j, rel="call"):
                    return dict(mk(j, rel), opt=opt2) if rel == "call" else dict(mk(j, rel), opt2=opt2)

                T2, ok2 = _table(part, gt1, PR, opt_kwargs(opt2), mk2)
                both = fin & ok2 & np.isfinite(T2)
                nrel += int(both.sum())
                w = np.flatnonzero(both & ~(np.abs(T2 - T) <= TOL))
                if len(w):
                    _report(part, mk2(int(w[0]), "missing_gt_stddev"))
            # translation
            for sh in shifts:
                sha = np.array(sh)
                gs = gt1 + sha
                PRs = PR + sha
                gs_list = gs[0].tolist()

                def mks(j, _PRs=PRs, _g=gs_list):
                    return {"kind": "oks", "rel": "call", "gt": _g, "pr": _PRs[j].tolist(), "pr2": None, "shift": None, "opt": opt}

                Ts, oks_ = _table(part, gs, PRs, kw, mks)
                both = fin & oks_ & np.isfinite(Ts)
                nrel += int(both.sum())
                w = np.flatnonzero(both & ~(np.abs(Ts - T) <= TOL_INV))
                if len(w):
                    _report(part, mk(int(w[0]), "translation", shift=sh))
                bad = oks_ & ~np.isfinite(Ts)
                for j in np.flatnonzero(bad)[:1]:
                    _report(part, mks(int(j)) | {"rel": "range"})
            part.add("oks_relation_checks", nrel)
            part.sample(mk(P - 1, "range"), False)


# ---------------------------------------------------------------------------
# family "oks_matrix": n_gt x n_pr calls


def _perms(n_gt, n_pr):
    ig, ip = tuple(range(n_gt)), tuple(range(n_pr))
    out = []
    for pg in itertools.permutations(range(n_gt)):
        if pg != ig:
            out.append((pg, ip))
    for pp in itertools.permutations(range(n_pr)):
        if pp != ip:
            out.append((ig, pp))
    rg, rp = ig[::-1], ip[::-1]
    if rg != ig and rp != ip:
        out.append((rg, rp))
    return out


def _perm_opt(opt, pg):
    if isinstance(opt["scale"], (list, tuple)):
        return dict(opt, scale=[opt["scale"][i] for i in pg])
    return opt


def eval_matrix(case, pair=None):
    G = arr(case["gts"])
    Pm = arr(case["prs"])
    opt = case["opt"]
    n_gt, n_pr = G.shape[0], Pm.shape[0]
    obs = {}
    try:
        M = oks_call(G, Pm, opt_kwargs(opt))
    except Exception as e:
        return f"compute_oks raised {type(e).__name__}: {e} (n_gt={n_gt}, n_pr={n_pr})", obs
    if getattr(M, "shape", None) != (n_gt, n_pr):
        return f"compute_oks returned shape {getattr(M, 'shape', None)}, expected ({n_gt}, {n_pr})", obs
    M = np.asarray(M, dtype=np.float64)
    obs["matrix"] = M.tolist()
    if not (np.isfinite(M).all() and (M >= 0).all() and (M <= 1 + TOL).all()):
        return f"OKS matrix has entries outside [0, 1]: {M.tolist()}", obs
    for i in range(n_gt):
        oi = dict(opt, scale=float(opt["scale"][i])) if isinstance(opt["scale"], (list, tuple)) else opt
        for j in range(n_pr):
            if pair is not None:
                ref = pair(i, j, oi)
            else:
                ref = float(oks_call(G[i : i + 1], Pm[j : j + 1], opt_kwargs(oi))[0, 0])
            if not abs(M[i, j] - ref) <= TOL_INV:
                return (
                    f"entry [{i},{j}] of the {n_gt}x{n_pr} OKS matrix is {fmt(M[i, j])} but the same pair alone scores {fmt(ref)}"
                ), obs
    for pg, pp in _perms(n_gt, n_pr):
        try:
            M2 = np.asarray(oks_call(G[list(pg)], Pm[list(pp)], opt_kwargs(_perm_opt(opt, pg))), dtype=np.float64)
        except Exception as e:
            return f"compute_oks raised {type(e).__name__}: {e} after permuting instances gt{pg} pr{pp}", obs
        want = M[np.ix_(list(pg), list(pp))]
        if M2.shape != want.shape or not (np.abs(M2 - want) <= TOL_INV).all():
            return f"reordering instances (gt{pg}, pr{pp}) does not permute the matrix: {M2.tolist()} vs {want.tolist()}", obs
    return None, obs


def _mat_pose_sets(spec):
    """spec -> (name, n_nodes, gt poses, pr poses) as python lists of points."""
    kind = spec[0]
    if kind == "alph":
        _, aname, n = spec
        a = ALPH[aname]
        allp = [[a[i] for i in t] for t in itertools.product(range(len(a)), repeat=n)]
        gts = [p for p in allp if any(not math.isnan(q[0]) for q in p)]
        return n, gts, allp
    gts = Q3[:6]
    return 3, gts, Q3


def work_matrix(part, shard):
    for spec, max_gt, max_pr, gl, opts_by_ngt in shard:
        n, gts, prs = _mat_pose_sets(spec)
        cache = {}
        gA = [arr(p)[None] for p in gts]
        pA = [arr(p)[None] for p in prs]
        n_gt = len(gl)
        for k_pr in range(1, max_pr + 1):
            for pl in itertools.product(range(len(prs)), repeat=k_pr):
                for oi, opt in enumerate(opts_by_ngt[n_gt]):
                    case = {"kind": "oks_matrix", "gts": [gts[i] for i in gl], "prs": [prs[j] for j in pl], "opt": opt}

                    def pair(i, j, o, _gl=gl, _pl=pl):
                        key = (_gl[i], _pl[j], repr(o))
                        if key not in cache:
                            cache[key] = float(oks_call(gA[_gl[i]], pA[_pl[j]], opt_kwargs(o))[0, 0])
                        return cache[key]

                    c0 = _CALLS[0]
                    part.count()
                    key = (repr(spec), gl, pl)
                    part.state(repr(key))
                    nt = n_gt * k_pr >= 2
                    if nt:
                        part.nontriv(repr(key))
                    if oi == 0:
                        part.sample(case, nt)
                    try:
                        msg, obs = eval_matrix(case, pair)
                    except Exception as e:
                        msg, obs = f"reference 1x1 call raised {type(e).__name__}: {e}", {}
                    part.transition(_CALLS[0] - c0)
                    part.add("oks_matrix_calls", 1)
                    if msg:
                        part.violation(case, msg)
                    elif "matrix" in obs:
                        part.outcome(repr(np.round(np.array(obs["matrix"]), 10).tolist()))


# ---------------------------------------------------------------------------
# family "area"


def eval_area(case):
    f = impl()["ev"].compute_instance_area
    ps = [arr(p) for p in case["poses"]]
    obs = {}
    ref = []
    for p in ps:
        v = p[~np.isnan(p).any(axis=1)]
        ref.append(float((v[:, 0].max() - v[:, 0].min()) * (v[:, 1].max() - v[:, 1].min())))
    try:
        single = [np.asarray(f(p)) for p in ps]
        batch = np.asarray(f(np.stack(ps)))
    except Exception as e:
        return f"compute_instance_area raised {type(e).__name__}: {e}", obs
    obs["single"] = [s.tolist() for s in single]
    obs["batch"] = batch.tolist()
    for p, s, r in zip(ps, single, ref):
        if s.shape != (1,) or not abs(float(s[0]) - r) <= TOL_INV * max(1.0, r):
            return f"compute_instance_area({p.tolist()}) = {s.tolist()}, bounding box of the visible nodes has area {r}", obs
    if batch.shape != (len(ps),) or not all(abs(float(b) - r) <= TOL_INV * max(1.0, r) for b, r in zip(batch, ref)):
        return f"batched compute_instance_area = {batch.tolist()}, expected {ref}", obs
    return None, obs


def work_area(part, shard):
    for aname, n in shard:
        a, GT = poses(aname, n, False)
        valid = [i for i in range(GT.shape[0]) if not np.isnan(GT[i]).all()]
        for t, i in enumerate(valid):
            j = valid[(t + 1) % len(valid)]
            case = {"kind": "area", "poses": [GT[i].tolist(), GT[j].tolist()]}
            part.count()
            part.transition(3)
            part.state(f"area|{aname}|{n}|{i}")
            nvis = int((~np.isnan(GT[i]).any(axis=1)).sum())
            if nvis >= 2:
                part.nontriv(f"area|{aname}|{n}|{i}")
            part.sample(case, nvis >= 2)
            msg, obs = eval_area(case)
            if msg:
                part.violation(case, msg)
            else:
                part.outcome("area" + repr(obs["batch"]))


# ---------------------------------------------------------------------------
# family "match": match_instances on real labeled frames

_ENV = {}


def make_env():
    """Synthetic one-frame video embedded in a .pkg.slp (HDF5 backend: get_instances needs backend.source_filename)."""
    import sleap_io as sio
    from PIL import Image

    d = tempfile.mkdtemp(prefix="c15_")
    png = os.path.join(d, "f0.png")
    Image.fromarray(np.zeros((16, 16), np.uint8)).save(png)
    sk = sio.Skeleton(nodes=["a", "b", "c"])
    v = sio.load_video([png])
    seed_inst = sio.Instance.from_numpy(arr(MP["m0"]), sk)
    lab = sio.Labels(labeled_frames=[sio.LabeledFrame(video=v, frame_idx=0, instances=[seed_inst])], videos=[v], skeletons=[sk])
    out = os.path.join(d, "scene.pkg.slp")
    lab.save(out, embed="all", verbose=False)
    loaded = sio.load_slp(out)
    return {"dir": d, "video": loaded.videos[0], "skeleton": loaded.skeletons[0], "sio": sio}


def weak_orderings(k):
    out = []
    for t in itertools.product(range(k), repeat=k):
        if k == 0 or set(t) == set(range(max(t) + 1)):
            out.append(t)
    return out


def eval_match(case, env=None, ref_cache=None):
    own = env is None
    if own:
        env = make_env()
    try:
        return _eval_match(case, env, ref_cache)
    finally:
        if own:
            shutil.rmtree(env["dir"], ignore_errors=True)


def _eval_match(case, env, ref_cache):
    sio = env["sio"]
    ev = impl()["ev"]
    sk, video = env["skeleton"], env["video"]
    gts = [arr(p) for p in case["gt"]]
    prs = [arr(p) for p in case["pr"]]
    scores = [float(s) for s in case["scores"]]
    thr = float(case["threshold"])
    kw = {"threshold": thr}
    okw = {}
    if case.get("stddev") is not None:
        kw["stddev"] = okw["stddev"] = float(case["stddev"])
    if case.get("scale") is not None:
        kw["scale"] = okw["scale"] = float(case["scale"])
    gi = [sio.Instance.from_numpy(p, sk) for p in gts]
    pi = [sio.PredictedInstance.from_numpy(p, sk, point_scores=np.ones(len(p)), score=s) for p, s in zip(prs, scores)]
    fg = sio.LabeledFrame(video=video, frame_idx=0, instances=list(gi))
    fp = sio.LabeledFrame(video=video, frame_idx=0, instances=list(pi))
    obs = {}
    _CALLS[0] += 1
    try:
        pairs, fns = ev.match_instances(fg, fp, **kw)
    except Exception as e:
        obs["raised"] = f"{type(e).__name__}: {e}"
        if len(gts) == 0:
            return None, obs  # nothing to conserve; recorded as an outcome
        return f"match_instances raised {type(e).__name__}: {e}", obs
    gid = {id(x): i for i, x in enumerate(gi)}
    pid = {id(x): i for i, x in enumerate(pi)}

    def inst(x):
        return getattr(x, "instance", x)

    try:
        pg = [gid.get(id(inst(t[0]))) for t in pairs]
        pp = [pid.get(id(inst(t[1]))) for t in pairs]
        po = [float(t[2]) for t in pairs]
        fg_ = [gid.get(id(inst(x))) for x in fns]
    except Exception as e:
        return f"result of match_instances is not (list of (gt, pr, oks), list of gt): {type(e).__name__}: {e}", obs
    obs["pairs"] = [[a, b, o] for a, b, o in zip(pg, pp, po)]
    obs["false_negatives"] = fg_
    if None in pg or None in pp or None in fg_:
        return f"match_instances returned an instance that is not in the frames: pairs gt{pg} pr{pp}, false negatives {fg_}", obs
    if len(set(pg)) != len(pg):
        return f"a ground-truth instance is matched more than once: gt indices {pg}", obs
    if len(set(pp)) != len(pp):
        return f"a predicted instance is matched more than once: pr indices {pp}", obs
    if len(set(fg_)) != len(fg_) or set(fg_) & set(pg):
        return f"false negatives {fg_} repeat or overlap the matched ground truth {pg}", obs
    if len(pg) + len(fg_) != len(gts) or set(pg) | set(fg_) != set(range(len(gts))):
        return f"matched {pg} + missed {fg_} do not account for the {len(gts)} ground-truth instances", obs

    def ref(i, j):
        key = (case.get("_gt_ids", (None,) * len(gts))[i], case.get("_pr_ids", (None,) * len(prs))[j], repr(okw))
        if ref_cache is not None and None not in key[:2] and key in ref_cache:
            return ref_cache[key]
        v = float(oks_call(gts[i][None], prs[j][None], dict(okw))[0, 0])
        if ref_cache is not None and None not in key[:2]:
            ref_cache[key] = v
        return v

    for a, b, o in zip(pg, pp, po):
        r = ref(a, b)
        if not (math.isfinite(o) and abs(o - r) <= TOL_INV):
            return f"pair (gt {a}, pr {b}) is reported with OKS {fmt(o)} but compute_oks of that pair is {fmt(r)}", obs
        if not o > thr:
            return f"pair (gt {a}, pr {b}) is reported as a match with OKS {fmt(o)}, not above the threshold {thr}", obs
    unused = [j for j in range(len(prs)) if j not in pp]
    for a in fg_:
        for b in unused:
            r = ref(a, b)
            if r > thr + TOL_INV:
                return (
                    f"ground truth {a} is reported missed and prediction {b} is unused although their OKS {fmt(r)} exceeds the threshold {thr}"
                ), obs
    return None, obs


def work_match(part, shard):
    env = _ENV["env"]
    ref_cache = {}
    for gl, pr_names, thresholds, variants in shard:
        for k in range(0, 4):
            wos = weak_orderings(k)
            for pl in itertools.product(pr_names, repeat=k):
                for wo in wos:
                    for thr in thresholds:
                        for vi, (sd, sc) in enumerate(variants):
                            case = {
                                "kind": "match",
                                "gt": [MP[g] for g in gl],
                                "pr": [MP[p] for p in pl],
                                "scores": [SCORE_VALUES[r] for r in wo],
                                "threshold": thr,
                                "stddev": sd,
                                "scale": sc,
                            }
                            run_case = dict(case, _gt_ids=gl, _pr_ids=pl)
                            part.count()
                            c0 = _CALLS[0]
                            key = f"m|{gl}|{pl}|{wo}"
                            part.state(key)
                            nt = len(gl) >= 1 and k >= 1 and (len(gl) >= 2 or k >= 2)
                            if nt:
                                part.nontriv(key)
                            if vi == 0 and thr == thresholds[0]:
                                part.sample(case, nt)
                            try:
                                msg, obs = eval_match(run_case, env, ref_cache)
                            except Exception as e:
                                msg, obs = f"building the frames / reference raised {type(e).__name__}: {e}", {}
                            part.transition(_CALLS[0] - c0)
                            part.add("match_instances_calls", 1)
                            if msg:
                                part.violation(case, msg)
                            elif "raised" in obs:
                                part.add("match_empty_gt_raises", 1)
                                part.outcome("match-raises-on-empty-gt")
                            else:
                                part.outcome(repr((len(gl), k, [(a, b) for a, b, _ in obs["pairs"]], obs["false_negatives"])))


# ---------------------------------------------------------------------------
# family "helpers"


def _complete_assignments(r, c):
    if r <= c:
        for perm in itertools.permutations(range(c), r):
            yield list(range(r)), list(perm)
    else:
        for perm in itertools.permutations(range(r), c):
            yield list(perm), list(range(c))


def eval_assign(case):
    tu = impl()["tu"]
    C = np.array(case["matrix"], dtype=np.float64)
    r, c = C.shape
    obs = {}
    fn = tu.greedy_matching if case["kind"] == "greedy" else tu.hungarian_matching
    best = min(float(sum(C[i, j] for i, j in zip(ri, ci))) for ri, ci in _complete_assignments(r, c))
    feasible = math.isfinite(best)
    _CALLS[0] += 1
    try:
        rows, cols = fn(C.copy())
        rows = [int(i) for i in rows]
        cols = [int(j) for j in cols]
    except Exception as e:
        obs["raised"] = f"{type(e).__name__}: {e}"
        if case["kind"] == "hungarian" and not feasible:
            return None, obs  # no finite complete assignment exists: out of the helper's contract, recorded
        return f"{case['kind']}_matching raised {type(e).__name__}: {e}", obs
    obs["rows"], obs["cols"] = rows, cols
    if len(rows) != len(cols):
        return f"row and column index lists differ in length: {rows} {cols}", obs
    if any(not 0 <= i < r for i in rows) or any(not 0 <= j < c for j in cols):
        return f"index out of range: rows {rows} cols {cols} for a {r}x{c} matrix", obs
    if len(set(rows)) != len(rows) or len(set(cols)) != len(cols):
        return f"not one-to-one: rows {rows} cols {cols}", obs
    if case["kind"] == "hungarian" and not feasible:
        return None, obs
    if len(rows) != min(r, c):
        return f"assignment {list(zip(rows, cols))} is not complete (min(rows, cols) = {min(r, c)})", obs
    if case["kind"] == "hungarian":
        tot = float(sum(C[i, j] for i, j in zip(rows, cols)))
        if tot != best:
            return f"assignment {list(zip(rows, cols))} costs {tot}, the cheapest complete assignment costs {best}", obs
    else:
        fr, fc = set(range(r)), set(range(c))
        for i, j in zip(rows, cols):
            m = min(C[a, b] for a in fr for b in fc)
            if C[i, j] != m:
                return f"greedy step picks ({i},{j}) with cost {C[i, j]} while the cheapest remaining edge costs {m}", obs
            fr.discard(i)
            fc.discard(j)
    return None, obs


def eval_iou(case):
    f = impl()["tu"].compute_iou
    a, b = [float(x) for x in case["a"]], [float(x) for x in case["b"]]
    obs = {}
    _CALLS[0] += 2
    try:
        v = float(f(np.array(a), np.array(b)))
        w = float(f(np.array(b), np.array(a)))
    except Exception as e:
        return f"compute_iou raised {type(e).__name__}: {e}", obs
    obs["iou"], obs["iou_swapped"] = v, w
    if not (math.isfinite(v) and 0 <= v <= 1 + TOL):
        return f"IoU = {fmt(v)} outside [0, 1]", obs
    if not abs(v - w) <= TOL:
        return f"IoU is not symmetric: {fmt(v)} vs {fmt(w)}", obs
    if a == b and not abs(v - 1) <= TOL:
        return f"IoU of identical boxes is {fmt(v)}", obs
    if a != b and not v < 1 - TOL:
        return f"IoU of two different boxes is {fmt(v)}", obs
    gap = max(a[0] - b[2], b[0] - a[2], a[1] - b[3], b[1] - a[3])
    if gap > 1 and v != 0:
        return f"boxes more than one pixel apart have IoU {fmt(v)}", obs
    ow = min(a[2], b[2]) - max(a[0], b[0])
    oh = min(a[3], b[3]) - max(a[1], b[1])
    if ow > 0 and oh > 0 and not v > 0:
        return f"boxes with overlapping interiors have IoU {fmt(v)}", obs
    return None, obs


def eval_cos(case):
    f = impl()["tu"].compute_cosine_sim
    a, b = np.array(case["a"], dtype=np.float64), np.array(case["b"], dtype=np.float64)
    obs = {}
    _CALLS[0] += 4
    try:
        v = float(f(a, b))
        w = float(f(b, a))
        s = float(f(2 * a, 3 * b))
        n = float(f(a, -b))
    except Exception as e:
        return f"compute_cosine_sim raised {type(e).__name__}: {e}", obs
    obs.update(cos=v, swapped=w, scaled=s, negated=n)
    if not (math.isfinite(v) and abs(v) <= 1 + TOL):
        return f"cosine similarity {fmt(v)} outside [-1, 1]", obs
    if not abs(v - w) <= TOL:
        return f"cosine similarity not symmetric: {fmt(v)} vs {fmt(w)}", obs
    if not abs(v - s) <= TOL:
        return f"cosine similarity changes under positive scaling: {fmt(v)} vs {fmt(s)}", obs
    if not abs(v + n) <= TOL:
        return f"cos(a, -b) = {fmt(n)} is not -cos(a, b) = {fmt(-v)}", obs
    dot = float(np.dot(a, b))
    cross = float(np.dot(a, a) * np.dot(b, b) - dot * dot)  # exact on the integer alphabet
    if cross == 0 and not abs(abs(v) - 1) <= TOL:
        return f"parallel vectors have cosine similarity {fmt(v)}", obs
    if dot == 0 and not abs(v) <= TOL:
        return f"orthogonal vectors have cosine similarity {fmt(v)}", obs
    if (dot > 0) != (v > TOL) and dot != 0:
        return f"sign of cosine similarity {fmt(v)} disagrees with the dot product {dot}", obs
    return None, obs


def work_helpers(part, shard):
    for item in shard:
        what = item[0]
        if what == "assign":
            _, r, c, vals, prefix = item
            rest = r * c - len(prefix)
            for tail in itertools.product(vals, repeat=rest):
                flat = list(prefix) + list(tail)
                M = [flat[i * c : (i + 1) * c] for i in range(r)]
                for kind in ("greedy", "hungarian"):
                    case = {"kind": kind, "matrix": M}
                    part.count()
                    part.transition()
                    key = f"{kind}|{r}x{c}|{flat}"
                    part.state(key)
                    nt = r >= 2 and c >= 2
                    if nt:
                        part.nontriv(key)
                    msg, obs = eval_assign(case)
                    if msg:
                        part.violation(case, msg)
                    else:
                        part.outcome(kind + repr(obs.get("raised", (obs.get("rows"), obs.get("cols")))))
                        if "raised" in obs:
                            part.add("hungarian_infeasible_raises", 1)
                part.sample({"kind": "greedy", "matrix": M}, r >= 2 and c >= 2)
        elif what == "iou":
            _, boxes, a = item
            for b in boxes:
                case = {"kind": "iou", "a": list(a), "b": list(b)}
                part.count()
                part.transition(2)
                part.state(f"iou|{a}|{b}")
                if a != b:
                    part.nontriv(f"iou|{a}|{b}")
                msg, obs = eval_iou(case)
                if msg:
                    part.violation(case, msg)
                else:
                    part.outcome("iou" + repr(round(obs["iou"], 10)))
            part.sample(case, True)
        else:
            _, vecs, a = item
            for b in vecs:
                case = {"kind": "cos", "a": list(a), "b": list(b)}
                part.count()
                part.transition(4)
                part.state(f"cos|{a}|{b}")
                if a != b:
                    part.nontriv(f"cos|{a}|{b}")
                msg, obs = eval_cos(case)
                if msg:
                    part.violation(case, msg)
                else:
                    part.outcome("cos" + repr(round(obs["cos"], 10)))
            part.sample(case, True)


# ---------------------------------------------------------------------------


EVAL = {
    "oks": eval_oks,
    "oks_matrix": eval_matrix,
    "area": eval_area,
    "match": eval_match,
    "greedy": eval_assign,
    "hungarian": eval_assign,
    "iou": eval_iou,
    "cos": eval_cos,
}


def work(part, shard):
    fam, items = shard
    {"oks": work_oks, "matrix": work_matrix, "area": work_area, "match": work_match, "helpers": work_helpers}[fam](part, items)


def _valid_gt_indices(aname, n):
    a, GT = poses(aname, n, False)
    return [i for i in range(GT.shape[0]) if not np.isnan(GT[i]).all()]


def _determinism_probe():
    """R3: the first execution of every family is replayed twice and must give identical observations."""
    probes = [
        {"kind": "oks", "rel": "monotone", "gt": [[0.0, 0.0], [3.0, 1.0]], "pr": [[1.0, 0.0], [3.0, 1.0]], "pr2": [[3.0, 0.0], [3.0, 1.0]],
         "shift": None, "opt": {"stddev": 0.5, "scale": 4.0, "coco": True}},
        {"kind": "oks_matrix", "gts": [[[0.0, 0.0], [3.0, 1.0]]], "prs": [[[1.0, 0.0], [3.0, 1.0]]], "opt": {"stddev": "default", "scale": None, "coco": True}},
        {"kind": "area", "poses": [[[0.0, 0.0], [3.0, 1.0]], [[1.0, 1.0], [NAN, NAN]]]},
        {"kind": "greedy", "matrix": [[0.0, 1.0], [1.0, 2.0]]},
        {"kind": "hungarian", "matrix": [[0.0, 1.0], [1.0, 2.0]]},
        {"kind": "iou", "a": [0, 0, 3, 3], "b": [1, 1, 10, 10]},
        {"kind": "cos", "a": [1, 2], "b": [2, -1]},
        {"kind": "match", "gt": [MP["m0"], MP["m2"]], "pr": [MP["m4"], MP["m6"]], "scores": [0.9, 0.9], "threshold": 0.0, "stddev": None, "scale": None},
    ]
    for c in probes:
        env = _ENV.get("env") if c["kind"] == "match" else None
        a = EVAL[c["kind"]](c, env) if c["kind"] == "match" else EVAL[c["kind"]](c)
        b = EVAL[c["kind"]](c, env) if c["kind"] == "match" else EVAL[c["kind"]](c)
        if core.jsonable(a) != core.jsonable(b):
            raise RuntimeError(f"non-deterministic observation for probe {c['kind']}: {a} vs {b}")


def history_calls():
    """compute_oks / compute_instance_area calls colliding in shapes, with different stddev / scale options."""
    import numpy as np

    out = []
    base = np.array([[0.0, 0.0], [3.0, 1.0], [1.0, 4.0], [5.0, 5.0]])
    for n_nodes in (2, 3, 4):
        for (n_gt, n_pr) in ((1, 1), (2, 1), (1, 2), (2, 2)):
            gt = np.stack([base[:n_nodes] + 7.0 * g for g in range(n_gt)])
            pr = np.stack([base[:n_nodes] + 7.0 * g + 0.5 for g in range(n_pr)])
            if n_nodes > 2:
                gt[0, 1] = np.nan
            for opt in ({}, {"stddev": 0.5}, {"stddev": [0.1 * (k + 1) for k in range(n_nodes)]}, {"scale": 4.0}, {"use_cocoeval": False}):
                out.append((f"compute_oks(n_gt={n_gt},n_pr={n_pr},nodes={n_nodes},{opt})", {"gt": gt, "pr": pr, "opt": opt}))
    return out[::2]


def history_run(entry):
    import numpy as np

    from sleap_nn.evaluation import compute_oks

    c = entry[1]
    opt = {k: (np.array(v) if isinstance(v, list) else v) for k, v in c["opt"].items()}
    return compute_oks(c["gt"].copy(), c["pr"].copy(), **opt)


def alias_family(part):
    """compute_oks with argument OBJECTS shared between roles and calls: OKS(p, p) on the very same array, and
    oks(a, b) followed by oks(b, a) on the same two arrays.  Identity / symmetry-of-use clauses of the property,
    plus: the caller's arrays are not modified."""
    import itertools

    import numpy as np

    from sleap_nn.evaluation import compute_oks

    alpha = [float("nan"), 0.0, 3.0, 10.0]
    poses = []
    for c in itertools.product(alpha, repeat=4):
        p_ = np.array(c, dtype=np.float64).reshape(2, 2)
        vis = ~np.isnan(p_).any(axis=1)
        if vis.any():
            poses.append(p_)
    for dt in (np.float64, np.float32):
        for p_ in poses:
            a = p_.astype(dt)
            snap = a.tobytes()
            case = {"kind": "alias", "mode": "same-object", "pose": a.tolist(), "dtype": np.dtype(dt).name}
            part.count()
            part.transition()
            key = "alias1:" + repr(case)
            part.state(key)
            if np.isnan(a).any():
                part.nontriv(key)
            try:
                v = float(np.asarray(compute_oks(a, a)).reshape(-1)[0])
            except Exception as e:
                part.violation(case, f"compute_oks(p, p) raised {type(e).__name__}: {e}")
                continue
            part.outcome(f"alias1:{v:.6f}")
            if not abs(v - 1.0) <= 1e-9:
                part.violation(case, f"OKS of a pose with itself (the same array object as ground truth and prediction) = {v}, expected 1")
            elif a.tobytes() != snap:
                part.violation(case, f"compute_oks modified its argument: {a.tolist()}")
    small = [p_ for p_ in poses if set(np.nan_to_num(p_, nan=-1).reshape(-1)) <= {-1.0, 0.0, 3.0}][:40]
    for a0 in small:
        for b0 in small:
            a, b = a0.copy(), b0.copy()
            e2 = compute_oks(b0.copy(), a0.copy())
            case = {"kind": "alias", "mode": "swap", "a": a0.tolist(), "b": b0.tolist()}
            part.count()
            part.transition(2)
            key = "alias2:" + repr(case)
            part.state(key)
            if np.isnan(a0).any() or np.isnan(b0).any():
                part.nontriv(key)
            try:
                compute_oks(a, b)
                g2 = compute_oks(b, a)
            except Exception as e:
                part.violation(case, f"compute_oks raised {type(e).__name__}: {e}")
                continue
            part.outcome("alias2:" + repr(np.round(g2, 6).tolist()))
            if not np.allclose(g2, e2, atol=1e-12, equal_nan=True):
                part.violation(case, f"oks(b, a) = {g2.tolist()} after oks(a, b) on the same arrays, but {e2.tolist()} on fresh copies (the first call changed its arguments)")
            elif a.tobytes() != a0.tobytes() or b.tobytes() != b0.tobytes():
                part.violation(case, "compute_oks modified the caller's arrays")


FAR_GT = [(0.25, 0.5), (10.125, 0.75), (3.5, 10.375)]
FAR_EDITS = [(0.0, 0.0), (341.0 / 1024.0, 0.0), (-0.125, 1.0 + 85.0 / 1024.0), (1.25, -0.75)]
FAR_SHIFTS = [(1024.0, -2048.0), (131072.0 + 341.0 / 1024.0, -(65536.0 + 683.0 / 1024.0)), (1048576.0 + 7.0 / 1024.0, 524288.0 + 511.0 / 1024.0)]


def far_family(part):
    """Translation invariance for poses far from the origin: a 3-node pose with fractional (1/1024-grid) coordinates and
    every prediction gt + (per-node choice of 4 fractional edits), translated by three large offsets whose sums with the
    coordinates are exact in float64; OKS must equal the OKS of the untranslated pair (1e-9) for the default and two
    other stddev / normalisation options."""
    gt = arr([FAR_GT])
    for edits in itertools.product(range(len(FAR_EDITS)), repeat=3):
        pr = arr([[(FAR_GT[k][0] + FAR_EDITS[e][0], FAR_GT[k][1] + FAR_EDITS[e][1]) for k, e in enumerate(edits)]])
        for kw in ({}, {"stddev": 0.5}, {"stddev": 0.5, "use_cocoeval": False}):
            ref = float(oks_call(gt, pr, dict(kw))[0, 0])
            for sh in FAR_SHIFTS:
                sha = np.array(sh)
                case = {"kind": "far", "edits": list(edits), "shift": list(sh), "opt": kw}
                part.count()
                part.transition()
                key = f"far:{edits}:{sh}:{sorted(kw.items())}"
                part.state(key)
                part.nontriv(key)
                part.sample(case, True)
                try:
                    got = float(oks_call(gt + sha, pr + sha, dict(kw))[0, 0])
                except Exception as e:
                    part.violation(case, f"compute_oks raised {type(e).__name__}: {e} on poses translated by {sh}")
                    continue
                part.outcome(f"far:{round(ref, 6)}")
                if not (abs(got - ref) <= TOL_INV):
                    part.violation(case, f"translation: OKS {fmt(ref)} becomes {fmt(got)} when both poses are translated by {sh} (options {kw}, edits {edits})")


def run(ctx):
    core.setup_torch()
    from mc import history as _history

    _history.search(ctx, history_calls(), history_run, depth=2 if ctx.tier == "quick" else 3)
    thorough = ctx.tier == "thorough"
    tier = ctx.tier
    env = make_env()
    _ENV["env"] = env
    try:
        _determinism_probe()
        shards = []

        # ---- helpers
        items = []
        vals4 = [0.0, 1.0, 2.0, math.inf]
        vals3 = [0.0, 1.0, math.inf]
        for r in (1, 2, 3):
            for c in (1, 2, 3):
                vals = vals4 if (thorough or r * c < 9) else vals3
                npre = 2 if r * c >= 8 else (1 if r * c >= 4 else 0)
                for prefix in itertools.product(vals, repeat=npre):
                    items.append(("assign", r, c, vals, prefix))
        cv = [0.0, 1.0, 3.0, 10.0] + ([2.5] if thorough else [])
        spans = [(lo, hi) for lo in cv for hi in cv if lo <= hi]
        boxes = [(x0, y0, x1, y1) for x0, x1 in spans for y0, y1 in spans]
        for a in boxes:
            items.append(("iou", boxes, a))
        for d in (2, 3):
            vecs = [v for v in itertools.product((-1.0, 0.0, 1.0, 2.0), repeat=d) if any(v)]
            for a in vecs:
                items.append(("cos", vecs, a))
        ctx.bounds["helpers"] = {
            "cost_matrices": "all r x c, r,c <= 3, over {0,1,2,inf}" + ("" if thorough else " (3x3 over {0,1,inf})"),
            "iou_boxes": len(boxes),
            "cosine_vectors": "{-1,0,1,2}^d minus 0, d in {2,3}, all ordered pairs",
        }
        for s in core.shard_list(core.rotate(items, ctx.seed), 32):
            shards.append(("helpers", s))

        # ---- area
        area_items = [("node17", 1), ("node17", 2), ("node5", 3)] + ([("node6", 3)] if thorough else [])
        shards.append(("area", area_items))

        # ---- match_instances
        gt_names = ["m0", "m1", "m2", "m3"] if thorough else ["m0", "m2", "m3"]
        pr_names = ["m0", "m1", "m4", "m6", "m3", "m5"] if thorough else ["m0", "m4", "m6", "m5"]
        variants = [(None, None), (0.1, None), (None, 50.0)] if thorough else [(None, None)]
        thresholds = [0.0, 0.5]
        items = []
        for k in range(0, 4):
            for gl in itertools.product(gt_names, repeat=k):
                items.append((gl, pr_names, thresholds, variants))
        # a ground-truth instance with NO visible node (an empty instance object in the labels): it can never be matched and
        # must be accounted for as missed
        for k in (1, 2) if not thorough else (1, 2, 3):
            for gl in itertools.product(gt_names + ["m5"], repeat=k):
                if "m5" in gl:
                    items.append((gl, pr_names, thresholds, variants))
        ctx.bounds["match_instances"] = {
            "gt_instances": "0..3 from " + ",".join(gt_names) + "; lists of <= 2 (thorough 3) that include the all-NaN pose m5",
            "predicted_instances": "0..3 from " + ",".join(pr_names),
            "scores": "every weak ordering (ties included)",
            "thresholds": thresholds,
            "stddev_scale_variants": variants,
            "poses": {k: MP[k] for k in sorted(set(gt_names) | set(pr_names))},
        }
        for s in core.shard_list(core.rotate(items, ctx.seed), 48):
            shards.append(("match", s))

        # ---- oks (1x1 tables)
        shifts = SHIFTS if thorough else [SHIFTS[0], SHIFTS[2]]
        tables = [("node17", 1), ("node17", 2), ("node5", 3)] + ([("node6", 3)] if thorough else [])
        items = []
        for aname, n in tables:
            opts = options(n, 1, tier)
            sh = shifts if n <= 2 else shifts[:1]
            for gi in _valid_gt_indices(aname, n):
                items.append((aname, n, gi, opts, sh))
        ctx.bounds["oks"] = {
            "tables": [{"alphabet": ALPH[a], "n_nodes": n, "predictions_also": [FAR]} for a, n in tables],
            "options_per_table": len(options(1, 1, tier)),
            "shifts": {"n_nodes<=2": shifts, "n_nodes=3": shifts[:1]},
        }
        for s in core.shard_list(core.rotate(items, ctx.seed), 96 if thorough else 64):
            shards.append(("oks", s))

        # ---- oks matrices (last: before the D16 repair every n_pr != 1 call here raises)
        specs = []
        if thorough:
            specs += [(("alph", "node5", 1), 3, 3), (("alph", "mat4", 2), 2, 2), (("fixed", "q3", 3), 2, 2)]
        else:
            specs += [(("alph", "mat3", 1), 3, 3), (("alph", "mat3", 2), 2, 2), (("fixed", "q3", 3), 2, 2)]
        items = []
        for spec, max_gt, max_pr in specs:
            n, gts, prs = _mat_pose_sets(spec)
            opts_by = {k: options(n, k, tier) for k in range(1, max_gt + 1)}
            for k in range(1, max_gt + 1):
                for gl in itertools.product(range(len(gts)), repeat=k):
                    items.append((spec, max_gt, max_pr, gl, opts_by))
        ctx.bounds["oks_matrix"] = [
            {"poses": (ALPH[s[1]] if s[0] == "alph" else "7 fixed 3-node poses"), "n_nodes": s[2], "n_gt_max": g, "n_pr_max": p} for s, g, p in specs
        ]
        for s in core.shard_list(core.rotate(items, ctx.seed), 64):
            shards.append(("matrix", s))

        core.pmap(ctx, work, shards)
    finally:
        _ENV.pop("env", None)
        shutil.rmtree(env["dir"], ignore_errors=True)
    alias_family(ctx)
    far_family(ctx)


def replay(case):
    if isinstance(case, dict) and case.get("kind") == "far":
        part = core.Part()
        far_family(part)
        hits = [m for c, m in part.viol if c.get("edits") == case.get("edits") and c.get("shift") == case.get("shift")]
        return {"violates": bool(hits), "messages": hits[:2]}
    if isinstance(case, dict) and case.get("kind") == "alias":
        part = core.Part()
        alias_family(part)
        hits = [m for c, m in part.viol if c.get("mode") == case.get("mode")]
        return {"violates": bool(hits), "messages": hits[:2]}
    if isinstance(case, dict) and case.get("kind") == "history":
        from mc import history as _history

        return _history.replay(case, history_calls(), history_run)
    case = dict(case)
    kind = case["kind"]
    msg, obs = EVAL[kind](case)
    return {"kind": kind, "observed": obs, "message": msg, "violates": msg is not None}
