"""C13 — frame readers deliver each frame once, in order, and always end the stream.

E3: ALL interleavings of the real reader thread (real VideoReader.run /
LabelsReader.run in a real threading.Thread) and the real consumer loop
(Predictor._predict_generator) at the queue put/get/size points and at thread
join, under the cooperative scheduler of mc/sched.py, x queue capacity x batch size
x (start,end) range x a read failure injected at every frame index.
"""
from __future__ import annotations

import numpy as np

from mc import core, sched

LEVEL = "model_checking"
RULE = (
    "depth-first enumeration (prefix replay) of every scheduling choice sequence of {reader thread, consumer} at "
    "queue put/get/qsize/empty/full and join points, for every grid point (reader kind x frames N x (start,end) x "
    "queue capacity Q x batch size x fault index); oracle on every complete execution: stream trace + termination; "
    "a schedule is non-trivial when it contains at least one context switch while both threads are enabled; distinct = "
    "distinct (grid point, choice sequence)"
)
ASSUMPTIONS = [
    "scheduling points are the operations on shared state (queue operations, thread start/join/is_alive/termination); frame reads touch only reader-local state and are therefore not scheduling points (they are the fault-injection site)",
    "CPython's GIL and queue.Queue's own lock are the trusted base: only the protocol is explored, not memory-model effects; a free-running pass on the real queue.Queue re-runs the same bodies as a sanity check only",
    "a blocking call with a timeout / non-blocking call is modelled as an always-enabled point that raises Empty/Full when executed while it cannot be served",
    "'labels-mv' grid points: a label set over two videos of different frame sizes (frames alternate between them); each frame must carry its own video index and original size",
    "fault alphabet: a read that raises at frame k (every k), and 'metadata unavailable' (video.shape is None) for explicit ranges, alone or combined with a read fault",
    "bounds: N<=4, Q<=3, batch<=3 (quick); N<=6, Q<=4, batch<=4 (thorough); all (start,end) with 0<=start<=end<=N for VideoReader (plus None defaults)",
]

H, W = 6, 8


class Fault(Exception):
    pass


class FakeVideo:
    """Duck-typed sio.Video: frame i is an (H, W, 1) uint8 array filled with value 10+i."""

    def __init__(self, n, fault_at=None, hw=None, shape_ok=True):
        self.n = n
        self.fault_at = fault_at
        self.hw = hw or (H, W)
        # shape_ok=False: the video's metadata is unavailable (sio.Video.shape is None when the backend cannot report it)
        self.shape = (n, self.hw[0], self.hw[1], 1) if shape_ok else None
        self.reads = []

    def __len__(self):
        return self.n

    def __getitem__(self, idx):
        self.reads.append(idx)
        if self.fault_at is not None and idx == self.fault_at:
            raise Fault(f"injected read failure at frame {idx}")
        if not 0 <= idx < self.n:
            raise IndexError(idx)
        return np.full((self.hw[0], self.hw[1], 1), 10 + idx, dtype=np.uint8)


class FakeInst:
    is_empty = False

    def __init__(self, k):
        self.k = k

    def numpy(self):
        return np.array([[1.0 + self.k, 2.0], [3.0, 4.0 + self.k]])


class FakeLF:
    def __init__(self, video, i):
        self.video = video
        self.frame_idx = 100 + i  # labelled frames carry their own (non-contiguous) frame index
        self._i = i
        self.instances = [FakeInst(i)]

    @property
    def image(self):
        return self.video[self._i]

    def __iter__(self):
        return iter(self.instances)

    def __len__(self):
        return len(self.instances)


HW2 = (4, 10)  # frame size of the second video in the multi-video label sets


class FakeLabels:
    """Duck-typed sio.Labels.  multi=True: two videos of DIFFERENT frame sizes; labelled frame i lives in video i % 2
    (global frame i is read through its own video's index i, so pixel values stay 10+i)."""

    def __init__(self, n, fault_at=None, multi=False):
        self.video = FakeVideo(n, fault_at)
        self.videos = [self.video]
        if multi:
            self.videos.append(FakeVideo(n, fault_at, hw=HW2))
        self.lfs = [FakeLF(self.videos[i % len(self.videos)], i) for i in range(n)]

    def __len__(self):
        return len(self.lfs)

    def __getitem__(self, i):
        return self.lfs[i]

    def __iter__(self):
        return iter(self.lfs)


_CLASSES = {}


def reader_classes():
    """Scheduler-aware subclasses of the real reader classes (start/run/join become scheduler events)."""
    if _CLASSES:
        return _CLASSES
    from threading import Thread

    from sleap_nn.data.providers import LabelsReader, VideoReader

    class Mixin:
        _sched = None
        _tid = None
        _escaped = None

        def start(self):
            self._tid = self._sched.spawn("reader")
            Thread.start(self)

        def run(self):
            s = self._sched
            try:
                s.thread_begin(self._tid)
                super().run()
            except sched.SchedAbort:
                pass
            except BaseException as e:  # an exception escaping the real run()
                self._escaped = e
            finally:
                s.thread_end(self._tid)

        def join(self, timeout=None):
            s = self._sched
            tid = self._tid
            if timeout is None:
                s.point("join", guard=lambda: s.th[tid].finished)
                Thread.join(self, timeout=5)
            else:
                s.point("join?")  # a timed join may return while the thread is still running

        def is_alive(self):
            # thread liveness is shared state: querying it is a scheduling point, so that a
            # check-then-act sequence such as `queue.empty() and not reader.is_alive()` can be interleaved
            s = self._sched
            if self._tid is None:
                return False
            s.point("is_alive")
            return not s.th[self._tid].finished

    _CLASSES["video"] = type("SVideoReader", (Mixin, VideoReader), {})
    _CLASSES["labels"] = type("SLabelsReader", (Mixin, LabelsReader), {})
    return _CLASSES


_PRED = {}


def predictor_class():
    if _PRED:
        return _PRED["cls"]
    import attrs

    from sleap_nn.inference.predictors import Predictor

    @attrs.define
    class EchoPredictor(Predictor):
        """Minimal concrete Predictor: the inference model echoes what it is given."""

        @classmethod
        def from_trained_models(cls, *a, **k):
            raise NotImplementedError

        @property
        def data_config(self):
            return None

        def make_pipeline(self, *a, **k):
            raise NotImplementedError

        def _initialize_inference_model(self):
            raise NotImplementedError

        def _make_labeled_frames_from_generator(self, generator):
            raise NotImplementedError

    _PRED["cls"] = EchoPredictor
    return EchoPredictor


def echo_model(ex):
    out = {
        "frame_idx": ex["frame_idx"].clone(),
        "video_idx": ex["video_idx"].clone(),
        "orig_size": ex["orig_size"].clone(),
        "pix": ex["image"].reshape(ex["image"].shape[0], -1)[:, 0].clone(),
        "shape": list(ex["image"].shape),
    }
    if "instances" in ex:
        out["inst0"] = ex["instances"].reshape(ex["instances"].shape[0], -1)[:, 0].clone()
    return [out]


def build(gp, s, real_queue=False):
    """Construct reader + predictor for grid point gp on scheduler s."""
    import queue

    kind, n, start, end, q, batch, fault = gp["kind"], gp["n"], gp["start"], gp["end"], gp["q"], gp["batch"], gp["fault"]
    fq = queue.Queue(maxsize=q) if real_queue else sched.SchedQueue(s, maxsize=q, snap=descr)
    if real_queue:
        from sleap_nn.data.providers import LabelsReader, VideoReader

        vcls, lcls = VideoReader, LabelsReader
    else:
        cl = reader_classes()
        vcls, lcls = cl["video"], cl["labels"]
    if kind == "video":
        src = FakeVideo(n, fault, shape_ok=gp.get("meta") != "noshape")
        rd = vcls(src, fq, start, end)
    else:
        src = FakeLabels(n, fault, multi=(kind == "labels-mv"))
        rd = lcls(src, fq, instances_key=(kind == "labels+inst"))
    if not real_queue:
        rd._sched = s
    P = predictor_class()
    pred = P(
        preprocess=True,
        preprocess_config={"batch_size": batch, "scale": 1.0, "is_rgb": False, "max_stride": 1, "max_height": (max(H, HW2[0]) if kind == "labels-mv" else None), "max_width": (max(W, HW2[1]) if kind == "labels-mv" else None)},
        pipeline=rd,
        inference_model=echo_model,
        instances_key=(kind == "labels+inst"),
    )
    return src, fq, rd, pred


def descr(it):
    """Snapshot of a queue item at the time of the queue operation (the consumer mutates the dict afterwards)."""
    if not isinstance(it, dict) or "image" not in it:
        return ("NOT-A-FRAME", repr(it)[:40])
    if it["image"] is None:
        return "END"
    return (int(it["frame_idx"]), int(it["image"].reshape(-1)[0]), tuple(int(x) for x in it["orig_size"].tolist()))


def expected_frames(gp):
    kind, n, start, end, fault = gp["kind"], gp["n"], gp["start"], gp["end"], gp["fault"]
    if kind == "video":
        lo = 0 if start is None else start
        hi = n if end is None else end
        idxs = list(range(lo, hi))
    else:
        idxs = list(range(n))
    if fault is not None and fault in idxs:
        idxs = idxs[: idxs.index(fault)]
    if kind == "video":
        return [(i, 10 + i) for i in idxs]  # (frame_idx, pixel value)
    return [(100 + i, 10 + i) for i in idxs]


def expected_meta(gp, frame_idx):
    """(orig_size, video_idx) the frame with this frame_idx must carry."""
    if gp["kind"] == "labels-mv" and (frame_idx - 100) % 2 == 1:
        return HW2, 1
    return (H, W), 0


def check_execution(gp, s, fq_log, batches, consumer_exc, rd):
    """Oracle for one complete execution. Returns error string or None."""
    if s.aborted == "deadlock":
        return f"deadlock: no thread enabled while unfinished threads are blocked at {s.blocked_at_abort}"
    if s.aborted == "horizon":
        return "livelock: horizon exceeded"
    if consumer_exc is not None:
        return f"exception escaped the consumer: {type(consumer_exc).__name__}: {consumer_exc}"
    if getattr(rd, "_escaped", None) is not None:
        return f"exception escaped the reader thread: {type(rd._escaped).__name__}: {rd._escaped}"
    if not all(t.finished for t in s.th.values()):
        return "a thread is still alive at the end"
    exp = expected_frames(gp)
    gets = [it for op, tid, it in fq_log if op == "get"]
    puts = [it for op, tid, it in fq_log if op == "put"]
    # stream put on the queue: frames then exactly one marker (items were snapshotted at operation time)
    pd, gd = puts, gets
    want = [(f, p, expected_meta(gp, f)[0]) for f, p in exp] + ["END"]
    if pd != want:
        return f"items put on the queue {pd} != expected {want}"
    if gd != want:
        return f"items taken from the queue {gd} != expected {want}"
    # consumer: yields exactly those indices in order, in batches of the configured size, only the last one short
    got = []
    for bi, b in enumerate(batches):
        fi = [int(x) for x in b["frame_idx"]]
        px = [int(round(float(x) * 255)) if float(x) <= 1.0 else int(x) for x in b["pix"]]
        osz = [tuple(int(v) for v in r) for r in b["orig_size"]]
        if bi < len(batches) - 1 and len(fi) != gp["batch"]:
            return f"batch {bi} has {len(fi)} frames, configured batch size {gp['batch']} (only the last batch may be short)"
        if len(fi) > gp["batch"] or len(fi) == 0:
            return f"batch {bi} has {len(fi)} frames"
        for f, p, o in zip(fi, px, osz):
            got.append((f, p))
            if o != expected_meta(gp, f)[0]:
                return f"frame {f} carries orig_size {o}, expected {expected_meta(gp, f)[0]}"
        for f, v in zip(fi, b["video_idx"]):
            if int(v) != expected_meta(gp, f)[1]:
                return f"frame {f} carries video_idx {int(v)}, expected {expected_meta(gp, f)[1]}"
    if got != exp:
        return f"frames processed by the consumer {got} != expected {exp}"
    nb = -(-len(exp) // gp["batch"])
    if len(batches) != nb:
        return f"{len(batches)} batches for {len(exp)} frames at batch size {gp['batch']}"
    return None


def run_one(gp, prefix):
    s = sched.Sched(prefix=prefix, horizon=20 * (gp["n"] + gp["q"] + 5))
    s.register_main()
    src, fq, rd, pred = build(gp, s)
    batches, exc = [], None
    try:
        for out in pred._predict_generator():
            batches.append(out)
    except sched.SchedAbort:
        pass
    except Exception as e:
        exc = e
    s.finish_main()
    if rd.ident is not None:
        from threading import Thread

        Thread.join(rd, timeout=5)
    err = check_execution(gp, s, fq.log, batches, exc, rd)
    return s, err


def grid(tier):
    nmax, qmax, bmax = (4, 3, 3) if tier == "quick" else (6, 4, 4)
    pts = []
    for n in range(0, nmax + 1):
        ranges = [(None, None)] + [(a, b) for a in range(0, n + 1) for b in range(a, n + 1)]
        if tier == "quick":
            # all ranges for n<=3; for n=4 the full range, the empty ones and the offset ones touching an end
            if n == 4:
                ranges = [(None, None), (0, 4), (1, 4), (0, 3), (2, 2), (1, 3), (4, 4)]
        for q in range(1, qmax + 1):
            for b in range(1, bmax + 1):
                for (st, en) in ranges:
                    lo, hi = (0 if st is None else st), (n if en is None else en)
                    for fault in [None] + list(range(lo, hi)):
                        pts.append({"kind": "video", "n": n, "start": st, "end": en, "q": q, "batch": b, "fault": fault})
                # environment answer "metadata unavailable": explicit ranges on a video whose shape is None (frames readable,
                # or failing at the first / a later read)
                for (st, en) in [r for r in ranges if r[0] is not None][: (3 if tier == "quick" else None)]:
                    for fault in [None] + list(range(st, en))[:2]:
                        pts.append({"kind": "video", "n": n, "start": st, "end": en, "q": q, "batch": b, "fault": fault, "meta": "noshape"})
                for kind in ("labels", "labels+inst", "labels-mv"):
                    for fault in [None] + list(range(n)):
                        pts.append({"kind": kind, "n": n, "start": None, "end": None, "q": q, "batch": b, "fault": fault})
    return pts


def work(part, shard):
    for gp in shard:
        gkey = core.digest(gp)
        nsched, sigs, outcomes = 0, set(), set()
        for_s = sched.explore(lambda prefix: _run_rec(gp, prefix))
        for s in for_s:
            err = s._err
            nsched += 1
            part.count()
            part.transition(len(s.points))
            pre = s.preemptions()
            part.maxi("max_preemptions", pre)
            part.maxi("max_points_in_a_schedule", len(s.points))
            key = f"{gkey}:{s.choices}"
            part.state(key)
            switches = sum(1 for en, c, prev, still in s.points if len(en) > 1)
            if switches:
                part.nontriv(key)
            sigs.add(tuple(x for x in s.trace if x[1] in ("put", "get", "put?", "get?")))
            case = {"gp": gp, "choices": list(s.choices), "preemptions": pre}
            part.sample(case, switches > 0)
            if err:
                part.violation(case, f"{err}; grid point {gp}; schedule {[(t, l) for t, l in s.trace]}")
                outcomes.add("ERR:" + err[:40])
            else:
                outcomes.add("ok")
        part.add("grid_points")
        part.add("distinct_queue_op_orders", len(sigs))
        if nsched > 1:
            part.add("grid_points_with_more_than_one_interleaving")
        part.outcome(f"{gp['kind']}:{gp['n']}:{gp['start']}:{gp['end']}:{gp['fault']}:{sorted(outcomes)}")


def _run_rec(gp, prefix):
    s, err = run_one(gp, prefix)
    s._err = err
    return s


def free_running(ctx, pts, reps):
    """Sanity pass on the real queue.Queue with free-running OS threads (not part of the coverage claim)."""
    import threading

    n_ok, n_bad = 0, 0
    for gp in pts:
        for _ in range(reps):
            if n_bad >= 3:
                break
            try:
                src, fq, rd, pred = build(gp, None, real_queue=True)
            except Exception as e:  # the real reader's constructor raised on a grid point of the alphabet
                n_bad += 1
                ctx.violation({"gp": gp, "free_running": True}, f"constructing the reader raised {type(e).__name__}: {e} for {gp}")
                continue
            res = {}

            def body():
                try:
                    res["b"] = list(pred._predict_generator())
                except Exception as e:
                    res["e"] = e

            t = threading.Thread(target=body, daemon=True)
            t.start()
            t.join(timeout=5)
            if t.is_alive():
                n_bad += 1
                ctx.violation({"gp": gp, "free_running": True}, f"free-running consumer did not terminate within 5 s for {gp}")
                continue
            if "e" in res:
                ctx.violation({"gp": gp, "free_running": True}, f"free-running consumer raised {res['e']!r} for {gp}")
                continue
            got = [(int(f), int(round(float(p) * 255)) if float(p) <= 1.0 else int(p)) for b in res["b"] for f, p in zip(b["frame_idx"], b["pix"])]
            if got != expected_frames(gp):
                ctx.violation({"gp": gp, "free_running": True}, f"free-running run processed {got}, expected {expected_frames(gp)}")
                continue
            n_ok += 1
    ctx.extra["free_running_runs_ok"] = n_ok


def run(ctx):
    core.setup_torch()
    from loguru import logger

    logger.remove()  # the readers log every injected fault
    pts = grid(ctx.tier)
    ctx.bounds = {"N_max": 4 if ctx.tier == "quick" else 6, "Q_max": 3 if ctx.tier == "quick" else 4, "batch_max": 3 if ctx.tier == "quick" else 4, "grid_points": len(pts), "preemption_bound": "none (all schedules explored to completion)"}
    # determinism self-check: the same schedule twice gives identical observations
    gp0 = {"kind": "video", "n": 3, "start": None, "end": None, "q": 1, "batch": 2, "fault": None}
    a, ea = run_one(gp0, [0, 1, 0, 1])
    b, eb = run_one(gp0, [0, 1, 0, 1])
    if a.trace != b.trace or a.choices != b.choices or ea != eb:
        raise RuntimeError("replaying one schedule twice gave different observations")
    pts = core.rotate(pts, ctx.seed)
    core.pmap(ctx, work, core.shard_list(pts, 64))
    sub = [p for i, p in enumerate(pts) if i % (40 if ctx.tier == "quick" else 15) == 0]
    free_running(ctx, sub, 3 if ctx.tier == "quick" else 10)


def replay(case):
    from loguru import logger

    logger.remove()
    core.setup_torch()
    gp = case["gp"]
    if case.get("free_running"):
        class C:
            def __init__(self):
                self.v = []
                self.extra = {}

            def violation(self, c, m):
                self.v.append(m)

        c = C()
        free_running(c, [gp], 20)
        return {"violates": bool(c.v), "messages": c.v[:3]}
    s, err = run_one(gp, case["choices"])
    return {"violates": err is not None, "error": err, "trace": s.trace, "preemptions": s.preemptions()}
