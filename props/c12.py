"""C12 — a frame's predictions are independent of batch-mates and carry its indices.

E1, differential: ALL batches (ordered selections with repetition) of size 1..3 (4)
over a 4-frame alphabet (0,1,2,3 animals; two original sizes => two eff_scales; two
video indices) x model type x max_instances x refinement, through the REAL
Predictor._predict_generator batching and the real inference models (ideal networks),
plus the real label assembly where the max-instances filter lives.  Oracle: every
frame's result in every batch equals the result of that frame run alone.
"""
from __future__ import annotations

import itertools
import math
import queue

import numpy as np
import torch

from mc import core
from props import _ideal as I
from props import _scenes as S

LEVEL = "model_checking"
RULE = (
    "every ordered selection with repetition of 1..B frames from a 4-frame alphabet, as one batch through the real "
    "_predict_generator + inference model, x model type {single-instance, top-down, bottom-up} x max_instances {None,1,2} x "
    "refinement {None, integral}; oracle: per-frame set of (keypoints, scores) == alone-run, records carry the frame's own "
    "frame_idx/video_idx, 0-animal frames yield nothing, max_instances=k keeps the k highest-scoring of the alone-run; a "
    "batch is non-trivial when it holds >= 2 frames that differ; distinct = distinct (model config, batch)"
)
ASSUMPTIONS = [
    "ideal networks (props/_ideal.py) in place of trained weights; frames reach the consumer through a pre-filled frame buffer (the reader side is C13's subject)",
    "frame alphabet: 0,1,2,3 animals; frames 0,1 are 2/3 the size of frames 2,3 and size matching brings them to the same network input, so eff_scale differs between batch-mates; video_idx 0 for frames 0,2 and 1 for frames 1,3",
    "tiny bottom-up family (32x48 frames, PAF stride 8 -> 4x6x4 PAF grid, edges longer than max_edge_length_ratio x image size so the distance penalty is active): every ordered selection from a 2-frame alphabet as one batch of 7 (quick) / 5..9 (thorough) frames - batches larger than every PAF-grid axis",
    "centroid-gt configuration: top-down with only a centroid model (FindInstancePeaksGroundTruth); the frames carry <= 2 labelled instances (frame 3 shows a third, unlabelled animal: more detected centroids than instance slots)",
    "train-toggle configuration: top-down networks with a batch-statistic (BatchNorm-like) layer, switched to train mode after a first use of the predictor; the inference layers must put them back into eval mode, otherwise every frame depends on its batch-mates",
    "B = 3 (quick) / 4 (thorough); every selection of B >= 2 frames is additionally run as consecutive batches of size B-1 through the same predictor / inference-model instance (batch-size independence and state carried between batches)",
]

FR = [0.31, 0.57, 0.18, 0.73, 0.44, 0.66, 0.27, 0.81]


def gp(v, i):
    return math.floor(v) + FR[i % len(FR)]


IN_H, IN_W = 96, 240  # network-input size after size matching
CROP = 48


def animal_in(cx, cy, a, variant):
    """3-node animal in network-input pixels."""
    ang = [(0.35, 2.4), (1.1, 3.9), (0.8, 3.1)][variant % 3]
    pts = [(cx + 0.13 * a, cy - 0.09 * a), (cx + a * math.cos(ang[0]), cy + a * math.sin(ang[0])), (cx + a * math.cos(ang[1]), cy + a * math.sin(ang[1]))]
    return np.array(pts, dtype=np.float64)


TINY_H, TINY_W = 32, 48  # "tiny" family: PAF grid 4x6 at stride 8, smaller than the batches it is run in


def dims(cfg):
    return (TINY_H, TINY_W) if cfg.get("tiny") else (IN_H, IN_W)


def make_tiny_frames():
    """Tiny family: frame 0 empty, frames 1..3 hold one animal (three poses / places) whose edges (14.4 px) are longer
    than max_edge_length_ratio x image size (12 px), so the PAF distance penalty is active."""
    a = 0.30 * CROP
    frames = []
    for k in range(4):
        animals = []
        if k:
            cx, cy = (20.0, 11.0) if k == 1 else ((24.0, 13.0) if k == 2 else (18.0, 12.0))
            pin = animal_in(cx, cy, a, [0, 0, 2, 0][k])
            animals.append(np.array([[gp(x, 2 * i + k), gp(y, 2 * i + 1 + k)] for i, (x, y) in enumerate(pin)]))
        img = S.render(TINY_H, TINY_W, animals, radius=a / 3.8)
        item = {
            "image": torch.from_numpy(np.ascontiguousarray(np.transpose(img, (2, 0, 1))[None])),
            "frame_idx": torch.tensor(10 + k, dtype=torch.int32),
            "video_idx": torch.tensor(k % 2, dtype=torch.int32),
            "orig_size": torch.Tensor([TINY_H, TINY_W]),
        }
        frames.append({"item": item, "animals": animals, "hw": (TINY_H, TINY_W)})
    return frames, a


def make_frames(model, tiny=False):
    """4 frames: k animals in frame k (single: 0/1 animal).  Returns list of dicts with the queue item and truth."""
    if tiny:
        return make_tiny_frames()
    a = 0.30 * CROP
    r_in = a / 3.8
    frames = []
    for k in range(4):
        small = k < 2
        f = (1 / 1.5) if small else 1.0  # original-pixel size factor
        H, W = int(round(IN_H * f)), int(round(IN_W * f))
        n_an = k if model != "single" else (0 if k == 0 else 1)
        animals = []
        for j in range(n_an):
            cx, cy = 2.2 * a + 6.0 * a * j + 3 * k, 2.2 * a + (0.9 * a if j % 2 else 0.0) + (2 * k if model == "single" else 0)
            pin = animal_in(cx, cy, a, j + k)
            po = pin * f
            po = np.array([[gp(x, 2 * i + j), gp(y, 2 * i + 1 + j)] for i, (x, y) in enumerate(po)])
            animals.append(po)
        img = S.render(H, W, animals, radius=r_in * f)
        item = {
            "image": torch.from_numpy(np.ascontiguousarray(np.transpose(img, (2, 0, 1))[None])),
            "frame_idx": torch.tensor(10 + k, dtype=torch.int32),
            "video_idx": torch.tensor(k % 2, dtype=torch.int32),
            "orig_size": torch.Tensor([H, W]),
        }
        if model == "centroid-gt":
            # the labels hold at most TWO instances per frame (frame 3 shows a third, unlabelled animal: more detected
            # centroids than instance slots), NaN-padded to two slots as LabelsReader does
            lab = np.full((1, 2, 3, 2), np.nan, dtype=np.float32)
            for j, po in enumerate(animals[:2]):
                lab[0, j] = po
            item["instances"] = torch.from_numpy(lab)
        frames.append({"item": item, "animals": animals, "hw": (H, W)})
    return frames, a


class FilledReader:
    """Stands in for the reader thread: the frame buffer is filled before the consumer starts."""

    def __init__(self, items):
        self.frame_buffer = queue.Queue()
        for it in items:
            self.frame_buffer.put({k: (v.clone() if isinstance(v, torch.Tensor) else v) for k, v in it.items()})
        self.frame_buffer.put({"image": None, "frame_idx": None, "video_idx": None, "orig_size": None})

    def start(self):
        pass

    def join(self):
        pass


def make_predictor(cfg, batch, a):
    sk = S.make_skeleton(3)
    model, ref, mi = cfg["model"], cfg["refinement"], cfg["max_instances"]
    if model == "single":
        p = I.single_predictor(3, 1.0, 16, 2, 1.5, (IN_H, IN_W), ref, batch, sk)
        pc = {"scale": 1.0, "max_stride": 16}
    elif model == "topdown":
        p = I.topdown_predictor(3, 0, 1.0, 1.0, 16, 16, 2, 2, 1.5, CROP, (IN_H, IN_W), ref, batch, sk, max_instances=mi)
        p.inference_model.centroid_crop.torch_model.link = 2.6 * a
        pc = {"scale": 1.0, "max_stride": 16}
    elif model == "centroid-gt":
        p = I.topdown_centroid_only_predictor(0, 1.0, 16, 2, 1.5, (IN_H, IN_W), ref, batch, sk, max_instances=mi)
        p.inference_model.centroid_crop.torch_model.link = 2.6 * a
        pc = {"scale": 1.0, "max_stride": 16}
    elif cfg.get("tiny"):
        p = I.bottomup_predictor(3, [(0, 1), (0, 2)], 1.0, 16, 2, 8, 1.5, 10.0, 2.6 * a, (TINY_H, TINY_W), ref, batch, sk, max_instances=mi)
        pc = {"scale": 1.0, "max_stride": 16}
    else:
        p = I.bottomup_predictor(3, [(0, 1), (0, 2)], 1.0, 16, 2, 4, 1.5, 10.0, 2.6 * a, (IN_H, IN_W), ref, batch, sk, max_instances=mi)
        pc = {"scale": 1.0, "max_stride": 16}
    p.preprocess = True
    p.preprocess_config = {"batch_size": batch, "scale": pc["scale"], "is_rgb": False, "max_stride": pc["max_stride"], "max_height": dims(cfg)[0], "max_width": dims(cfg)[1]}
    return p


def per_frame(model, outs):
    """List of per-record observations (frame_idx, video_idx, sorted instances) in output order."""
    recs = []
    for o in outs:
        if model == "topdown":
            # one dict per frame-with-detections; every row is one instance and carries the indices
            for fi, vi, pk, pv, bb, cv in zip(o["frame_idx"], o["video_idx"], o["pred_instance_peaks"], o["pred_peak_values"], o["instance_bbox"], o["centroid_val"]):
                pk = np.asarray(pk, dtype=np.float64) + np.asarray(bb, dtype=np.float64).reshape(-1, 2)[0]
                recs.append((int(fi), int(vi), [(np.round(pk, 3).tolist(), np.round(np.asarray(pv, dtype=np.float64), 4).tolist(), round(float(cv), 4))]))
        elif model == "centroid-gt":
            # one row per frame: (max_inst, nodes, 2) labelled instances matched to the detected centroids, NaN-padded;
            # the values come flattened as (frames * max_inst, nodes)
            pks = np.asarray(o["pred_instance_peaks"], dtype=np.float64)
            pvs = np.asarray(o["pred_peak_values"], dtype=np.float64).reshape(pks.shape[0], pks.shape[1], -1)
            for i, (fi, vi) in enumerate(zip(o["frame_idx"], o["video_idx"])):
                lst = [(np.round(pks[i, j], 3).tolist(), np.round(np.nan_to_num(pvs[i, j], nan=-1.0), 4).tolist(), 0.0) for j in range(pks.shape[1]) if not np.isnan(pks[i, j]).all()]
                recs.append((int(fi), int(vi), lst))
        elif model == "single":
            for fi, vi, pk, pv in zip(o["frame_idx"], o["video_idx"], o["pred_instance_peaks"], o["pred_peak_values"]):
                recs.append((int(fi), int(vi), [(np.round(np.asarray(pk, dtype=np.float64), 3).tolist(), np.round(np.asarray(pv, dtype=np.float64), 4).tolist(), 0.0)]))
        else:
            for fi, vi, inst, vals, sc in zip(o["frame_idx"], o["video_idx"], o["pred_instance_peaks"], o["pred_peak_values"], o["instance_scores"]):
                lst = []
                for pk, pv, s in zip(inst, vals, sc):
                    pk = np.asarray(pk, dtype=np.float64)
                    if np.isnan(pk).all():
                        continue
                    lst.append((np.round(pk, 3).tolist(), np.round(np.asarray(pv, dtype=np.float64), 4).tolist(), round(float(s), 4)))
                recs.append((int(fi), int(vi), lst))
    return recs


def group(model, recs):
    """frame_idx -> list of occurrences, each a sorted instance list (top-down rows are merged per consecutive frame run)."""
    out = []
    for fi, vi, lst in recs:
        if model == "topdown" and out and out[-1][0] == fi and out[-1][3]:
            out[-1][2].extend(lst)
        else:
            out.append([fi, vi, list(lst), model == "topdown"])
    return [(fi, vi, sorted(l, key=repr)) for fi, vi, l, _ in out]


def same(a, b, tol=2e-3):
    if len(a) != len(b):
        return False
    for (p1, v1, s1), (p2, v2, s2) in zip(a, b):
        if not np.allclose(np.array(p1, dtype=float), np.array(p2, dtype=float), atol=tol, equal_nan=True):
            return False
        if not np.allclose(np.array(v1, dtype=float), np.array(v2, dtype=float), atol=tol, equal_nan=True):
            return False
        if abs(s1 - s2) > tol:
            return False
    return True


def run_batch(cfg, frames, a, sel, batch_size=None):
    """All frames of `sel` go through ONE predictor / inference-model instance, in consecutive batches of
    `batch_size` (default: one batch) - so state kept on the inference layers between batches is exercised too."""
    p = make_predictor(cfg, batch_size or len(sel), a)
    if cfg.get("train_toggle"):
        # history: the predictor is used once, then the wrapped networks are switched to train mode (what resuming
        # training on the shared module does), then it predicts again; the networks carry a batch-statistic layer
        p.pipeline = FilledReader([frames[1]["item"]])
        list(p._predict_generator())
        p.inference_model.centroid_crop.torch_model.train()
        p.inference_model.instance_peaks.torch_model.train()
    p.pipeline = FilledReader([frames[i]["item"] for i in sel])
    outs = list(p._predict_generator())
    return group(cfg["model"], per_frame(cfg["model"], outs))


def expected_alone(cfg, frames, a, k):
    """Alone-run of frame k with max_instances=None, then the documented top-k filter applied by the oracle."""
    base = dict(cfg, max_instances=None)
    occ = run_batch(base, frames, a, [k])
    inst = occ[0][2] if occ else []
    mi = cfg["max_instances"]
    if mi is not None and len(inst) > mi and cfg["model"] == "topdown":
        inst = sorted(sorted(inst, key=lambda t: -t[2])[:mi], key=repr)
    return inst


def check_big(part, cfg, sizes, first, alphabet=(1, 2)):
    """Tiny family: every ordered selection from `alphabet` as ONE batch of size b for b in sizes - batches that hold
    more frames than the PAF grid has rows, columns or channels (a per-batch quantity taken over the wrong axis shows)."""
    frames, a = make_frames(cfg["model"], True)
    ck = core.digest(cfg)
    alone = {k: expected_alone(cfg, frames, a, k) for k in range(4)}
    for k in range(4):
        if len(alone[k]) != len(frames[k]["animals"]):
            part.count()
            part.violation({"cfg": cfg, "batch": [k]}, f"alone-run of tiny frame {k} ({len(frames[k]['animals'])} animals) returns {len(alone[k])} instances")
            return
    for b in sizes:
        for sel in itertools.product(alphabet, repeat=b):
            if sel[0] != first:
                continue  # jobs are split by first frame (load balance)
            case = {"cfg": cfg, "batch": list(sel)}
            part.count()
            part.transition()
            part.state(f"{ck}:{sel}")
            if len(set(sel)) >= 2:
                part.nontriv(f"{ck}:{sel}")
            part.sample(case, len(set(sel)) >= 2)
            err, occ = eval_batch(cfg, frames, a, alone, list(sel))
            if occ is not None:
                part.outcome(core.digest(occ))
            if err:
                part.violation(case, err)


def check_cfg(part, cfg, bmax, only_b=None, only_first=None):
    frames, a = make_frames(cfg["model"])
    ck = core.digest(cfg)
    alone = {k: expected_alone(cfg, frames, a, k) for k in range(4)}
    n_expected = {k: len(frames[k]["animals"]) for k in range(4)}
    for k in range(4):
        if only_b not in (None, 1):
            break  # the alone-run sanity clauses are checked by the b == 1 job
        mi = cfg["max_instances"]
        want = n_expected[k] if (mi is None or cfg["model"] != "topdown") else min(mi, n_expected[k])
        if cfg["model"] == "single":
            # the single-instance model reports one row per frame; "no detection" = every keypoint NaN with value 0
            empty = len(alone[k]) == 1 and np.isnan(np.array(alone[k][0][0], dtype=float)).all() and not np.any(np.array(alone[k][0][1], dtype=float))
            if (n_expected[k] == 0) != empty or len(alone[k]) != 1:
                part.violation({"cfg": cfg, "batch": [k]}, f"alone-run of frame {k} ({n_expected[k]} animals) returns {alone[k]}")
            continue
        if cfg["model"] == "centroid-gt":
            want = min(n_expected[k], 2)  # at most two animals are labelled
        if len(alone[k]) != want:
            part.violation({"cfg": cfg, "batch": [k]}, f"alone-run of frame {k} ({n_expected[k]} animals) returns {len(alone[k])} instances, expected {want}")
    for b in range(1, bmax + 1):
        if only_b is not None and b != only_b:
            continue
        for sel in itertools.product(range(4), repeat=b):
            if only_first is not None and sel[0] != only_first:
                continue
            case = {"cfg": cfg, "batch": list(sel)}
            part.count()
            part.transition()
            part.state(f"{ck}:{sel}")
            nt = len(set(sel)) >= 2
            if nt:
                part.nontriv(f"{ck}:{sel}")
            part.sample(case, nt)
            err, occ = eval_batch(cfg, frames, a, alone, list(sel))
            if occ is not None:
                part.outcome(core.digest(occ))
            if err:
                part.violation(case, err)
            # the same frames in consecutive smaller batches through the same inference-model instance
            if b >= 2:
                bs = b - 1
                case2 = {"cfg": cfg, "batch": list(sel), "batch_size": bs}
                part.count()
                part.transition()
                part.state(f"{ck}:{sel}:bs{bs}")
                part.nontriv(f"{ck}:{sel}:bs{bs}")
                err, occ = eval_batch(cfg, frames, a, alone, list(sel), bs)
                if occ is not None:
                    part.outcome(core.digest(occ))
                if err:
                    part.violation(case2, f"[batch size {bs}] " + err)


def eval_batch(cfg, frames, a, alone, sel, batch_size=None):
    """Run one batch through the real consumer + inference model and compare with the alone-runs."""
    try:
        occ = run_batch(cfg, frames, a, list(sel), batch_size)
    except Exception as e:
        import traceback

        return f"raised {type(e).__name__}: {e} :: {traceback.format_exc()[-400:]}", None
    # expected sequence of records: frames in batch order; frames without detections yield nothing for
    # top-down (no crops) and an empty list otherwise
    exp = []
    for k in sel:
        if cfg["model"] == "topdown" and not alone[k]:
            continue
        exp.append((10 + k, k % 2, alone[k]))
    if cfg["model"] == "topdown":
        # consecutive occurrences of the same frame are indistinguishable in the flat row stream: merge them
        merged = []
        for e in exp:
            if merged and merged[-1][0] == e[0]:
                merged[-1] = (e[0], e[1], sorted(merged[-1][2] + e[2], key=repr))
            else:
                merged.append(e)
        exp = merged
    if len(occ) != len(exp):
        return f"records for frames {[o[0] for o in occ]} but expected {[e[0] for e in exp]} (batch {sel})", occ
    for (fi, vi, got), (efi, evi, want) in zip(occ, exp):
        if fi != efi or vi != evi:
            return f"record carries frame_idx/video_idx ({fi},{vi}) where ({efi},{evi}) was expected (batch {sel})", occ
        if not same(got, want):
            return f"frame {fi} in batch {sel}: {got} != alone-run {want}", occ
    return None, occ


def check_labels_topk(part, cfg):
    """Bottom-up max_instances lives in the label assembly: the kept instances must be the k highest-scoring."""
    import sleap_io as sio

    frames, a = make_frames("bottomup")
    sk = S.make_skeleton(3)
    for sel in itertools.product(range(4), repeat=2):
        case = {"cfg": cfg, "batch": list(sel), "labels": True}
        part.count()
        part.transition()
        try:
            res = {}
            for mi in (None, cfg["max_instances"]):
                p = make_predictor(dict(cfg, max_instances=mi), 2, a)
                p.pipeline = FilledReader([frames[i]["item"] for i in sel])
                p.videos = [_Vid(0), _Vid(1)]
                labels = p._make_labeled_frames_from_generator(p._predict_generator())
                res[mi] = [(int(lf.frame_idx), p.videos.index(lf.video), sorted(((round(float(i.score), 4), np.round(i.numpy(), 3).tolist()) for i in lf.instances), key=repr)) for lf in labels]
        except Exception as e:
            import traceback

            part.violation(case, f"label assembly raised {type(e).__name__}: {e} :: {traceback.format_exc()[-400:]}")
            continue
        k = cfg["max_instances"]
        full, kept = res[None], res[k]
        if [(f, v) for f, v, _ in full] != [(10 + s, s % 2) for s in sel] or [(f, v) for f, v, _ in kept] != [(10 + s, s % 2) for s in sel]:
            part.violation(case, f"labeled frames carry (frame_idx, video) {[(f, v) for f, v, _ in kept]}, expected {[(10 + s, s % 2) for s in sel]}")
            continue
        for (f, v, allinst), (_, _, k_inst) in zip(full, kept):
            want = sorted(sorted(allinst, key=lambda t: -t[0])[:k], key=repr)
            part.outcome(core.digest(k_inst))
            if repr(want) != repr(k_inst):
                part.violation(case, f"frame {f} with max_instances={k}: kept {k_inst}, the {k} highest-scoring of {allinst} are {want}")
                break


class _Vid:
    """Minimal stand-in for sio.Video in label assembly (identity only)."""

    def __init__(self, i):
        self.i = i
        self.filename = f"video{i}"
        self.shape = (4, IN_H, IN_W, 1)

    def __repr__(self):
        return f"Vid({self.i})"


def configs():
    out = []
    for model in ("single", "topdown", "bottomup"):
        for ref in (None, "integral"):
            for mi in (None, 1, 2):
                if model == "single" and mi is not None:
                    continue
                out.append({"model": model, "refinement": ref, "max_instances": mi})
    # top-down whose networks contain a batch-statistic layer and are put into train mode between two uses of the predictor
    out.append({"model": "topdown", "refinement": None, "max_instances": None, "train_toggle": True})
    # top-down with ONLY a centroid model: detected centroids are matched to the frame's own labelled instances
    out.append({"model": "centroid-gt", "refinement": None, "max_instances": None})
    return out


def work(part, shard):
    from loguru import logger

    logger.remove()
    for cfg, bmax, kind, b, first in shard:
        if kind == "labels":
            check_labels_topk(part, cfg)
        elif kind == "big":
            check_big(part, cfg, b, first)
        else:
            check_cfg(part, cfg, bmax, b, first)


def run(ctx):
    core.setup_torch()
    bmax = 3 if ctx.tier == "quick" else 4
    jobs = []
    for c in configs():
        for b in range(1, bmax + 1):
            for first in ([None] if b < 3 else range(4)):  # the big batch sizes are split by first frame (load balance)
                jobs.append((c, bmax, "batch", b, first))
    jobs += [(c, 2, "labels", None, None) for c in configs() if c["model"] == "bottomup" and c["max_instances"] is not None]
    # tiny family (32x48 frames, 4x6 PAF grid): batches larger than the PAF grid
    big_sizes = [7] if ctx.tier == "quick" else [5, 6, 7, 8, 9]
    for ref in (None, "integral"):
        c = {"model": "bottomup", "refinement": ref, "max_instances": None, "tiny": True}
        for bsz in big_sizes:
            for f0 in (1, 2):
                jobs.append((c, bsz, "big", [bsz], f0))
    ctx.bounds = {"tiny_family_batch_sizes": big_sizes, "max_batch": bmax, "configs": len(configs()), "batches_per_config": sum(4**b for b in range(1, bmax + 1))}
    jobs = core.rotate(jobs, ctx.seed)
    core.pmap(ctx, work, [[j] for j in jobs])


def replay(case):
    core.setup_torch()
    from loguru import logger

    logger.remove()
    part = core.Part()
    cfg = case["cfg"]
    if case.get("labels"):
        check_labels_topk(part, cfg)
    else:
        frames, a = make_frames(cfg["model"], bool(cfg.get("tiny")))
        sel = case["batch"]
        alone = {k: expected_alone(cfg, frames, a, k) for k in range(4)}
        err, occ = eval_batch(cfg, frames, a, alone, sel, case.get("batch_size"))
        return {"violates": err is not None, "error": err, "observed": occ, "alone": {k: alone[k] for k in set(sel)}}
    return {"violates": part.n_viol > 0, "messages": [m for _, m in part.viol[:3]]}
