"""C18 -- interchangeable data-pipeline implementations produce the same samples.

E1, differential.  Part "frameworks": for every synthetic label set x source colour x model type x configuration
the sample for the same (frame, instance) is built through

  (1) `*Dataset` in memory,
  (2) `*Dataset` with np_chunks=True (real .npz round trip in a scratch dir),
  (3) `*_data_chunks` -> litdata hand-over -> `*StreamingDataset.__getitem__`

and compared: images (<= 1/255 + 1e-6, "up to 8-bit image quantisation"), the keypoints / centroids the targets
are drawn from (flattened (N,2) lists, NaN pattern exact, atol = rtol = 1e-5), confidence maps and PAFs (1e-4) --
only in the domain the property names (all model types at scale 1; single-instance, centroid and bottom-up at any
scale; for the centroid model `centroids`, not `instances`).

Part "block": each legacy DataPipe block (Normalizer, Resizer, PadToStride, InstanceCentroidFinder, InstanceCropper,
ConfidenceMapGenerator, MultiConfidenceMapGenerator, PartAffinityFieldsGenerator) is run on every frame of a
catalogue of all frame types and compared with its functional counterpart.

Hand-over (3): litdata's multi-process `optimize()` does not complete in this sandbox.  Default mode "bin": the
chunk function's dicts are written with litdata's own `BinaryWriter` (the class optimize()'s workers use) driven
in-process, and read back by the real, unpatched `litdata.StreamingDataset` under the real `*StreamingDataset`
subclass.  Fallback mode "stub" (used if the in-process writer self-test fails, or with C18_HANDOVER=stub):
`litdata.StreamingDataset.__init__/__getitem__` are replaced by a stub that hands the chunk function's dict back.
"""
from __future__ import annotations

import itertools
import os
import shutil
import tempfile

from mc import core
from props import _c18_harness as Hh

LEVEL = "exploration"
RULE = (
    "label sets (ordered tuples of frame types: 1-2 animals, missing anchor / missing node / all-NaN instance before or "
    "after a real one / predicted instance next to a user instance) x source colour x model type x scale x max_stride x "
    "(sigma, output stride) x size-matcher target x is_rgb x crop size (x anchor None, scale 0.75, user_instances_only=False in thorough), each "
    "built through in-memory *Dataset, np_chunks *Dataset (.npz) and chunk function + *StreamingDataset.__getitem__ and "
    "compared sample by sample; plus (DataPipe block, parameters, catalogue frame) triples compared with the functional "
    "counterpart.  Non-trivial (NT) = the label set / frame has >= 2 animals or a NaN.  distinct = distinct "
    "(label set, source colour, configuration) resp. (block, parameters, frame)"
)
ASSUMPTIONS = [
    "multi-video label sets (each labelled frame is frame 0 of its own video) are part of the label-set alphabet: 4 two-video sets in quick, 25 in thorough; "
    "2 (quick) / 25 (thorough) of them again with videos of different frame sizes (48x64 and 44x56), "
    "in both video orders and preprocessing.max_height or max_width stated by the user with exactly the value both frameworks receive through max_hw (so both have the same documented target)",
    "litdata hand-over: in 'bin' mode the samples go through litdata's real BinaryWriter -> .bin chunks -> real "
    "litdata.StreamingDataset in ONE process; assumed: optimize()'s worker processes write what this writer writes. "
    "In 'stub' mode (fallback) litdata.StreamingDataset.__init__/__getitem__ are stubbed to hand the chunk function's "
    "dict back: assumed that litdata round-trips PIL images, tensors and ints unchanged.  The mode used is in bounds_completed.",
    "both dataset frameworks are told the size-matcher target through `max_hw` (as ModelTrainer does) with "
    "data_config.preprocessing.max_height/max_width = None or equal to that target; a user-set max_height DIFFERENT from the label-derived "
    "size, which ModelTrainer forwards only to the chunk functions, is outside this check (model_trainer.py is not an anchor of C18)",
    "augmentation off (apply_aug=False): augmented samples are random and are C04's subject",
    "single-instance model only on label sets whose frames each hold exactly one non-empty instance after the "
    "user-instance filter; centred-instance model only at scale 1 (the two documentations prescribe different orders "
    "of crop and resize for other scales); every frame has >= 1 non-empty instance",
    "observation, not checked (outside the anchors): a labelled frame whose only instances are all-NaN is skipped by the "
    "*Dataset classes but makes every *_data_chunks function raise 'ValueError: need at least one array to stack' "
    "(process_lf stacks an empty list), and sleap_nn/training/get_bin_files.py feeds every frame to litdata.optimize -- "
    "the label alphabet therefore has an all-NaN instance next to a real one but no all-empty frame",
    "observation, by reading only (model_trainer.py:238-244, 340-470): with a user-set preprocessing.max_height/max_width "
    "ModelTrainer gives the *Dataset classes the label-derived max size while the chunk functions prefer the configured "
    "value, so the frameworks would size-match to different targets; here both get the same target",
    "48x64 frames, 3-node chain skeleton, <= 2 animals per frame, 2 frames (thorough: also 3 frames over 5 types); "
    "scales {1, 0.5} (thorough adds 0.75); one video per label set except in the multi-video sets above",
]
MIN_OUTCOMES = 50


# ---------------------------------------------------------------------------------------------------------------
# enumeration

HEADS = [(1.5, 2), (2.5, 4)]
MODELS = ["bottomup", "single_instance", "centroid", "centered_instance"]


def model_applies(model, labelset, scale, user_only):
    if model == "centered_instance" and scale != 1.0:
        return False  # outside the property's comparison domain
    if model == "single_instance" and any(Hh.n_labelled(t, user_only) != 1 for t in labelset):
        return False
    return True


def _case(labelset, src_rgb, model, scale, max_stride, head, max_hw, is_rgb, anchor, crop_hw, user_only, handover):
    c = {
        "part": "frameworks",
        "labelset": list(labelset),
        "src_rgb": bool(src_rgb),
        "model": model,
        "scale": scale,
        "max_stride": max_stride,
        "sigma": head[0],
        "output_stride": head[1],
        "max_hw": list(max_hw) if max_hw else None,
        "is_rgb": bool(is_rgb),
        "user_only": bool(user_only),
        "handover": handover,
    }
    if model in ("centroid", "centered_instance"):
        c["anchor"] = anchor
    if model == "centered_instance":
        c["crop_hw"] = list(crop_hw)
    return c


def configs_small(labelset, src_rgb, user_only, handover, product=True):
    """Reduced grid over three two-valued factors: scale {1, 0.5}; (max_stride, head) {(1, (1.5,2)), (16, (2.5,4))};
    (is_rgb, size-matcher target) {(= source colour, native), (!= source colour, 80x96)} -- over the two source
    colours every pair of (source, is_rgb, target) values occurs.  product=True: all 8 combinations per model;
    product=False (quick tier): the 4-run orthogonal array of strength 2 (every pair of factor values occurs) for the
    frame-based models, and stride x colour/size in full for the centred-instance model (scale is fixed to 1 there)."""
    out = []
    strides = ((1, HEADS[0]), (16, HEADS[1]))
    pairs = ((src_rgb, None), (not src_rgb, Hh.BIG_HW))
    for model in MODELS:
        if product or model == "centered_instance":
            runs = [(sc, st, pr) for sc in (1.0, 0.5) for st in (0, 1) for pr in (0, 1)]
        else:
            runs = [(1.0, 0, 0), (1.0, 1, 1), (0.5, 0, 1), (0.5, 1, 0)]
        for scale, st, pr in runs:
            if not model_applies(model, labelset, scale, user_only):
                continue
            max_stride, head = strides[st]
            is_rgb, max_hw = pairs[pr]
            crop = (32, 32) if st == 0 else (24, 40)  # non-square with the second stride setting (an H/W swap shows)
            out.append(_case(labelset, src_rgb, model, scale, max_stride, head, max_hw, is_rgb, 0, crop, user_only, handover))
    return out


def configs_full(labelset, src_rgb, handover):
    out = []
    for model in MODELS:
        anchors = (0, None) if model in ("centroid", "centered_instance") else (0,)
        crops = ((32, 32), (24, 40)) if model == "centered_instance" else ((32, 32),)
        for scale, max_stride, head, max_hw, is_rgb, anchor, crop in itertools.product(
            (1.0, 0.5, 0.75), (1, 16), HEADS, (None, Hh.BIG_HW), (False, True), anchors, crops
        ):
            if model_applies(model, labelset, scale, True):
                out.append(_case(labelset, src_rgb, model, scale, max_stride, head, max_hw, is_rgb, anchor, crop, True, handover))
    return out


CORE_TYPES = ["A", "An0", "ABn0", "EB", "AP"]  # sub-alphabet for the most expensive products


def groups_for(tier, handover):
    """A group = one label file (label set, source colour) with the list of configurations run on it.

    quick:    all ordered 2-frame sets over 8 frame types x 2 source colours x the orthogonal-array grid.
    thorough: (1) all ordered 2-frame sets over 9 types x 2 colours x the 8-run product grid;
              (2) the 25 ordered 2-frame sets over CORE_TYPES x 2 colours x the FULL product
                  (scale {1,.5,.75} x max_stride x head x size target x is_rgb x anchor x crop);
              (3) all 125 ordered 3-frame sets over CORE_TYPES x 2 colours x the orthogonal-array grid;
              (4) user_instances_only=False on every 2-frame set holding a predicted instance x the 8-run grid.
    """
    groups = []
    if tier == "quick":
        for ls in itertools.product(Hh.QUICK_TYPES, repeat=2):
            for src in (False, True):
                cs = configs_small(ls, src, True, handover, product=False)
                if "AP" in ls and not src:  # user_instances_only=False matters only next to a predicted instance
                    cs = cs + configs_small(ls, src, False, handover, product=False)
                groups.append((list(ls), src, cs))
        return groups
    for ls in itertools.product(Hh.THOROUGH_TYPES, repeat=2):
        for src in (False, True):
            cs = configs_small(ls, src, True, handover, product=True)
            if all(t in CORE_TYPES for t in ls):
                cs += configs_full(ls, src, handover)
            if any(t in ("AP", "P") for t in ls):  # the user-instance filter matters only with predicted instances
                cs += configs_small(ls, src, False, handover, product=True)
            seen, uniq = set(), []
            for c in cs:
                k = core.digest(c)
                if k not in seen:
                    seen.add(k)
                    uniq.append(c)
            groups.append((list(ls), src, uniq))
    for ls in itertools.product(CORE_TYPES, repeat=3):
        for src in (False, True):
            groups.append((list(ls), src, configs_small(ls, src, True, handover, product=False)))
    return groups


CATALOGUE = Hh.THOROUGH_TYPES  # frame f of the catalogue has type CATALOGUE[f] at slot f % 3


# ---------------------------------------------------------------------------------------------------------------
# workers


def _msg(errs):
    head = " | ".join(errs[:6])
    return head + (f" | (+{len(errs) - 6} more differences)" if len(errs) > 6 else "")


def _run_fw_case(part, case, slp, scratch_root):
    sc = tempfile.mkdtemp(dir=scratch_root)
    try:
        errs, info = Hh.run_framework_case(case, slp, sc)
    finally:
        shutil.rmtree(sc, ignore_errors=True)
    nt = Hh.labelset_nontrivial(case["labelset"])
    key = core.digest(case)
    part.count()
    part.state(key)
    part.transition(max(1, sum(info["n_samples"].values())))
    if nt:
        part.nontriv(key)
    part.sample(case, nt)
    part.outcome(core.digest([case["model"], info["digests"], bool(errs)]))
    part.add("framework_cases")
    part.add("samples_compared", 2 * len(info["digests"]))
    part.add("cases_" + case["model"])
    if not errs:
        # vacuity guard: what agreed was a real picture and a real target, not three all-zero tensors
        if info.get("img_max", 0.0) < 0.5 or info.get("map_max", 0.0) < 0.5:
            errs = [f"harness vacuity guard: image max {info.get('img_max')}, target max {info.get('map_max')} (nothing was drawn)"]
    if errs:
        part.violation(case, _msg(errs))
    return errs, info


def work_frameworks(part, shard):
    from loguru import logger

    logger.remove()
    root = tempfile.mkdtemp(prefix="c18_")
    try:
        for gi, (labelset, src_rgb, cases) in enumerate(shard):
            try:
                slp = Hh.write_labelset(root, labelset, src_rgb, f"g{gi}", multi_video=(cases[0].get("multi_video", False) if cases else False))
            except Exception as e:  # sleap-io could not write the synthetic file: harness problem, not a finding
                raise RuntimeError(f"cannot write label set {labelset} rgb={src_rgb}: {e}")
            for case in cases:
                _run_fw_case(part, case, slp, root)
            shutil.rmtree(os.path.join(root, f"g{gi}_frames"), ignore_errors=True)
            try:
                os.remove(slp)
            except OSError:
                pass
    finally:
        shutil.rmtree(root, ignore_errors=True)


def _block_case(part, case, ex, edge_inds):
    key = core.digest(case)
    nt = Hh.labelset_nontrivial([case["frame_type"]])
    part.count()
    part.state(key)
    part.transition(2)
    if nt:
        part.nontriv(key)
    part.sample(case, nt)
    part.add("block_cases")
    try:
        b, f = Hh.run_block_pair(case["block"], case["params"], ex, edge_inds)
    except Exception as e:
        part.violation(case, f"raised {type(e).__name__}: {e}")
        return [f"raised {type(e).__name__}: {e}"]
    part.outcome(core.digest([case["block"], Hh.block_digest(b)]))
    errs = Hh.compare_block_outputs(b, f)
    if errs:
        part.violation(case, _msg(errs))
    return errs


def block_cases(src_rgb):
    out = []
    for f, t in enumerate(CATALOGUE):
        for block in Hh.BLOCKS:
            for p in Hh.BLOCK_PARAMS[block]:
                out.append({"part": "block", "block": block, "params": p, "frame_type": t, "frame": f, "src_rgb": src_rgb})
    return out


def work_blocks(part, shard):
    from loguru import logger

    logger.remove()
    root = tempfile.mkdtemp(prefix="c18b_")
    try:
        for src_rgb, cases in shard:
            slp = Hh.write_catalogue(root, CATALOGUE, src_rgb, f"cat{int(src_rgb)}")
            cache = {}
            for case in cases:
                f = case["frame"]
                if f not in cache:
                    cache[f] = Hh.base_example(slp, f)
                ex, edge_inds = cache[f]
                _block_case(part, case, ex, edge_inds)
    finally:
        shutil.rmtree(root, ignore_errors=True)


def work(part, shard):
    kind, payload = shard
    if kind == "fw":
        work_frameworks(part, payload)
    else:
        work_blocks(part, payload)


# ---------------------------------------------------------------------------------------------------------------


def _pick_handover():
    want = os.environ.get("C18_HANDOVER", "").strip().lower()
    if want in ("bin", "stub"):
        return want
    d = tempfile.mkdtemp(prefix="c18s_")
    try:
        return "bin" if Hh.bin_handover_works(d) else "stub"
    finally:
        shutil.rmtree(d, ignore_errors=True)


QUICK_MV = ["A", "An0", "AB", "AP", "AE"]


def run(ctx):
    core.setup_torch()
    try:
        from sleap_nn.data import custom_datasets, get_data_chunks, pipelines, streaming_datasets  # noqa: F401
    except Exception as e:
        ctx.count()
        ctx.violation({"part": "import"}, f"the data-pipeline modules cannot be imported: {type(e).__name__}: {e}")
        return
    handover = _pick_handover()
    groups = groups_for(ctx.tier, handover)
    # multi-video label sets: every labelled frame is frame 0 of its own video (frame indices collide across videos)
    mv_sets = [("AB", "A"), ("A", "AB"), ("An0", "AP"), ("AB", "AB")] if ctx.tier == "quick" else [(a, b) for a in QUICK_MV for b in QUICK_MV]
    for ls in mv_sets:
        cs = [dict(c, multi_video=True) for c in configs_small(list(ls), False, True, handover)]
        if ctx.tier == "quick":  # anchor_part None (centroid = bounding-box midpoint) is otherwise only in the thorough grid
            cs += [dict(c, anchor=None) for c in cs if c["model"] in ("centroid", "centered_instance")]
        if cs:
            groups.append((list(ls), False, cs))
    # ... and two-video sets whose videos have DIFFERENT frame sizes (the size matcher has real work to do on the smaller
    # one), with the size target stated by the user for neither / one of the two dimensions
    for ls in mv_sets[:2] if ctx.tier == "quick" else mv_sets:
        for order in ("sizes", "sizes-rev"):  # large video first / small video first
            cs = []
            for ci, c in enumerate(configs_small(list(ls), False, True, handover, product=ctx.tier != "quick")):
                for dim in (None, "height", "width") if ctx.tier != "quick" else ((None, "height", "width")[ci % 3], (None, "height", "width")[(ci + 1) % 3]):
                    cs.append(dict(c, multi_video=order, cfg_dim=dim))
            if cs:
                groups.append((list(ls), False, cs))
    n_cases = sum(len(g[2]) for g in groups)
    ctx.bounds = {
        "tier": ctx.tier,
        "label_sets": len({tuple(g[0]) for g in groups}),
        "label_files": len(groups),
        "framework_cases": n_cases,
        "config_grid": "quick: 4-run strength-2 orthogonal array over scale x (max_stride, head) x (is_rgb, size target) per frame-based model, full 4 for centred-instance"
        if ctx.tier == "quick"
        else "thorough: 8-run product of the three two-valued factors on all 81 2-frame sets (and with user_instances_only=False where a predicted instance exists); FULL product incl. scale 0.75, anchor None, both crops on the 25 2-frame sets over the 5 core types; orthogonal array on the 125 3-frame sets over the core types",
        "models": MODELS,
        "scales": [1.0, 0.5] + ([0.75] if ctx.tier == "thorough" else []),
        "max_stride": [1, 16],
        "heads_sigma_stride": HEADS,
        "size_matcher_target": [None, list(Hh.BIG_HW)],
        "source_rgb_x_is_rgb": "all four pairs",
        "anchor": [0, None],
        "crop_hw": [[32, 32], [24, 40]],
        "user_instances_only": [True, False],
        "litdata_handover": handover,
        "block_cases": 2 * len(CATALOGUE) * sum(len(v) for v in Hh.BLOCK_PARAMS.values()),
        "blocks": Hh.BLOCKS,
    }
    # R3: the first execution is replayed twice; a divergence is a harness error, not a finding
    g0 = groups[0]
    d = tempfile.mkdtemp(prefix="c18d_")
    try:
        slp = Hh.write_labelset(d, g0[0], g0[1], "det")
        obs = []
        for _ in range(2):
            sc = tempfile.mkdtemp(dir=d)
            errs, info = Hh.run_framework_case(g0[2][0], slp, sc)
            obs.append((errs, info["digests"]))
        if obs[0] != obs[1]:
            raise RuntimeError(f"nondeterministic observation for {g0[2][0]}: {obs}")
    finally:
        shutil.rmtree(d, ignore_errors=True)

    groups = core.rotate(groups, ctx.seed)
    # balance: deal groups round-robin into shards
    n_shards = 64 if len(groups) >= 64 else max(1, len(groups))
    shards = [("fw", s) for s in core.shard_list(groups, n_shards)]
    shards += [("blocks", [(src, block_cases(src))]) for src in (False, True)]
    core.pmap(ctx, work, shards)


def replay(case):
    core.setup_torch()
    from loguru import logger

    logger.remove()
    root = tempfile.mkdtemp(prefix="c18r_")
    try:
        if case.get("part") == "import":
            try:
                from sleap_nn.data import custom_datasets, get_data_chunks, pipelines, streaming_datasets  # noqa: F401

                return {"violates": False}
            except Exception as e:
                return {"violates": True, "error": f"{type(e).__name__}: {e}"}
        if case.get("part") == "block":
            slp = Hh.write_catalogue(root, CATALOGUE, case["src_rgb"], "cat")
            ex, edge_inds = Hh.base_example(slp, case["frame"])
            try:
                b, f = Hh.run_block_pair(case["block"], case["params"], ex, edge_inds)
                errs = Hh.compare_block_outputs(b, f)
            except Exception as e:
                errs = [f"raised {type(e).__name__}: {e}"]
            return {"violates": bool(errs), "errors": errs[:10]}
        slp = Hh.write_labelset(root, case["labelset"], case["src_rgb"], "replay", multi_video=case.get("multi_video", False))
        sc = tempfile.mkdtemp(dir=root)
        errs, info = Hh.run_framework_case(case, slp, sc)
        return {"violates": bool(errs), "errors": errs[:10], "n_samples": info["n_samples"], "img_max": info.get("img_max"), "map_max": info.get("map_max")}
    finally:
        shutil.rmtree(root, ignore_errors=True)
