"""C06 -- multi-peak detection returns exactly the strict local maxima above threshold.

E1, exhaustive small-scope enumeration.  Every map of size h x w (h, w <= 3, strips up to
5, 4x4 binary in the thorough tier) over a small ordered value alphabet is pushed through
the real `find_local_peaks_rough` / `find_local_peaks` of sleap_nn.inference.peak_finding,
packed into (samples, channels) batches in two different layouts, for every threshold of
the threshold alphabet.  The oracle is a brute-force neighbour scan written in numpy /
plain Python from the property text (cell > threshold and strictly greater than every
existing neighbour).  Refinement clauses are checked on the same enumerated maps (raw and
embedded in larger zero maps) and on one-/two-bump Gaussian maps.
"""
from __future__ import annotations

import itertools
import math

import numpy as np

from mc import core

LEVEL = "model_checking"
RULE = (
    "every h x w map over the value alphabet x every threshold x two (samples,channels) packings, through the real "
    "find_local_peaks_rough and find_local_peaks (refinement None and 'integral', patch 3, 4 and 5; thorough also 6); one evaluation = one "
    "(map, threshold, packing, function variant) comparison against the brute-force neighbour scan; states = distinct "
    "input maps; transitions = calls of the real functions (batched); a map is non-trivial when for some threshold it has "
    ">= 2 peaks, or a peak AND a cell above the threshold that is not a peak (the non-maximum suppression both keeps and "
    "suppresses something in the same map)"
)
ASSUMPTIONS = [
    "history part: all ordered pairs (thorough: triples) of a small call alphabet chosen to collide in every shape-like cache key, each history in a forked child, compared with a fresh-process result",
    "bounded scope: 'all float maps' = all maps with h,w <= 3 (plus 1xN/Nx1 strips N<=5; thorough: 3x4, 4x3 over 3 levels and 4x4 over 2 levels) over <= 5 value levels {-1,0,0.3,0.5,1}, plus structured larger maps (3x3 enumerations embedded in 5x5/7x7 zero maps, one/two Gaussian bumps on 5x5 and 7x7)",
    "float64 family: all maps up to 2x3 / 3x2 (thorough 3x3) over the levels {0, 0.1, 0.1+1e-10, 0.7}, thresholds {0, 0.05}, rough detector and find_local_peaks without refinement",
    "thresholds {-2, -0.5, 0, 0.3, 0.5} are passed as the float64 value of their float32 rounding, so that 'value == threshold' ties are exact in the maps' dtype (float32)",
    "refinement displacement bound is asserted on the domain where it exists mathematically: non-negative map and positive peak value (regression weights form a convex combination); 'half a patch' is read as the half-extent (patch-1)/2 of the patch's cell-centre grid, +1e-5 float32 slack; outside that domain only count/order/indices/values are asserted and the cases are counted (refine_outside_domain)",
    "packing independence is checked between layout A (N,1), layout B (ceil(N/3),3) with the map order rotated (rotation depends on VERIF_SEED) and layout C (= B stored channels-last: a dense non-contiguous tensor) -- other batch shapes are outside the bound",
]
MIN_OUTCOMES = 20

ALPHA3 = [0.0, 0.3, 1.0]
ALPHA4 = [-1.0, 0.0, 0.3, 1.0]
ALPHA5 = [-1.0, 0.0, 0.3, 0.5, 1.0]
ALPHA2 = [0.0, 1.0]
THRESHOLDS = [-2.0, 0.0, 0.3, 0.5, -0.5]  # -0.5 lies BETWEEN map levels -1 and 0 (cells below a negative threshold next to peaks <= 0)
PATCHES = [3, 5]
BATCH = 16384  # maps per batched call (replay rebuilds one such batch)
TOL = 1e-5
MAX_VIOL_PER_BATCH = 3


def f32(v):
    return float(np.float32(v))


# ---------------------------------------------------------------------------
# map generators: spec (small JSON dict) -> (N, H, W) float32 array


def bump_params(H, W, two):
    """Deterministic list of bump parameter tuples for an H x W map."""
    out = []
    if not two:
        for sigma in (0.75, 1.5):
            for cy2 in range(0, 2 * (H - 1) + 1):
                for cx2 in range(0, 2 * (W - 1) + 1):
                    out.append(((cx2 / 2.0, cy2 / 2.0, 1.0, sigma),))
    else:
        pos_x = [0.5 + 1.5 * i for i in range(int((W - 1) / 1.5) + 1) if 0.5 + 1.5 * i <= W - 1]
        pos_y = [0.25 + 1.5 * i for i in range(int((H - 1) / 1.5) + 1) if 0.25 + 1.5 * i <= H - 1]
        cen = [(x, y) for y in pos_y for x in pos_x]
        for (x1, y1), (x2, y2) in itertools.product(cen, cen):
            if (x1, y1) >= (x2, y2):
                continue
            for amp in (1.0, 0.6):
                for sigma in (0.75, 1.25):
                    out.append(((x1, y1, 1.0, sigma), (x2, y2, amp, sigma)))
    return out


def n_maps(spec):
    if spec["gen"] == "enum":
        return len(spec["alphabet"]) ** (spec["h"] * spec["w"])
    return len(bump_params(spec["H"], spec["W"], spec["two"]))


def build(spec):
    lo, n = spec["lo"], spec["n"]
    if spec["gen"] == "enum":
        h, w, alph = spec["h"], spec["w"], np.asarray(spec["alphabet"], dtype=np.float64 if spec.get("f64") else np.float32)
        A, hw = len(alph), h * w
        idx = np.arange(lo, lo + n, dtype=np.int64)
        pw = A ** np.arange(hw - 1, -1, -1, dtype=np.int64)
        digits = (idx[:, None] // pw[None, :]) % A
        maps = alph[digits].reshape(n, h, w)
        emb = spec.get("embed")
        if emb:
            H, W, oy, ox = emb
            big = np.zeros((n, H, W), dtype=maps.dtype)
            big[:, oy : oy + h, ox : ox + w] = maps
            maps = big
        return np.ascontiguousarray(maps)
    if spec["gen"] == "bumps":
        H, W = spec["H"], spec["W"]
        params = bump_params(H, W, spec["two"])[lo : lo + n]
        yy, xx = np.mgrid[0:H, 0:W].astype(np.float64)
        maps = np.zeros((len(params), H, W), dtype=np.float64)
        for i, bumps in enumerate(params):
            for cx, cy, amp, sigma in bumps:
                maps[i] += amp * np.exp(-((xx - cx) ** 2 + (yy - cy) ** 2) / (2 * sigma**2))
        return np.ascontiguousarray(maps.astype(np.float32))
    raise ValueError(spec)


def packing(N, layout, rot):
    """order (flat position -> map index), samples, channels."""
    if layout == "A":
        return np.arange(N), N, 1
    C = 3
    S = (N + C - 1) // C
    order = (np.arange(S * C) + rot) % N  # first N positions are a permutation; the tail repeats maps
    return order, S, C


# ---------------------------------------------------------------------------
# oracle: brute-force neighbour scan, stated from the property text


def oracle_mask(arr, thr):
    """arr (..., h, w) float32 -> bool mask of cells > thr and strictly greater than every existing neighbour."""
    a = arr.astype(np.float64)
    h, w = a.shape[-2:]
    ok = a > thr
    for dy in (-1, 0, 1):
        for dx in (-1, 0, 1):
            if dy == 0 and dx == 0:
                continue
            y0, y1 = max(0, -dy), h - max(0, dy)
            x0, x1 = max(0, -dx), w - max(0, dx)
            if y1 <= y0 or x1 <= x0:
                continue
            ok[..., y0:y1, x0:x1] &= a[..., y0:y1, x0:x1] > a[..., y0 + dy : y1 + dy, x0 + dx : x1 + dx]
    return ok


def oracle_scan(m, thr):
    """Plain-Python version for one map (used in replay and to self-check oracle_mask). Returns sorted [(y,x)]."""
    h, w = len(m), len(m[0])
    out = []
    for y in range(h):
        for x in range(w):
            v = float(m[y][x])
            if not v > thr:
                continue
            good = True
            for yy in range(y - 1, y + 2):
                for xx in range(x - 1, x + 2):
                    if (yy, xx) == (y, x) or yy < 0 or xx < 0 or yy >= h or xx >= w:
                        continue
                    if not v > float(m[yy][xx]):
                        good = False
            if good:
                out.append((y, x))
    return out


# ---------------------------------------------------------------------------
# driving the real functions


def _unpack(out):
    """Real return tuple -> numpy arrays, or an error string."""
    if not isinstance(out, (tuple, list)) or len(out) != 4:
        return f"return value is not a 4-tuple: {type(out).__name__}"
    try:
        pts, vals, si, ci = [o.detach().cpu().numpy() for o in out]
    except Exception as e:
        return f"return tuple members are not tensors: {e}"
    n = vals.shape[0] if vals.ndim == 1 else -1
    if pts.shape != (n, 2) or vals.shape != (n,) or si.shape != (n,) or ci.shape != (n,):
        return f"inconsistent shapes points{pts.shape} vals{vals.shape} samples{si.shape} channels{ci.shape}"
    return pts.astype(np.float64), vals, si.astype(np.int64), ci.astype(np.int64)


def _fmt_peaks(pts, vals, si, ci, s, c):
    sel = (si == s) & (ci == c)
    return [(float(p[0]), float(p[1]), float(v)) for p, v in zip(pts[sel], vals[sel])]


def examine(spec, thr, rot, patch, layouts=("A", "B", "C")):
    """Run one batch (all maps of `spec`) through the real code in the given layouts.

    Returns dict(viol=[(map_index|None, layout, msg)], calls, evals, nt (bool per map), codes (set), n_out_domain,
    max_disp, per-layout observations for replay).
    """
    import torch
    from sleap_nn.inference import peak_finding as pf

    maps = build(spec)
    N, H, W = maps.shape
    viol, calls, evals = [], 0, 0
    nt = np.zeros(N, dtype=bool)
    codes = set()
    n_out_domain, n_in_domain, max_disp = 0, 0, 0.0
    refined_by_layout = {}
    obs = {}
    pw2 = (2 ** np.arange(H * W, dtype=np.int64)) if H * W <= 62 else None
    for layout in layouts:
        order, S, C = packing(N, layout, rot)
        arr = np.ascontiguousarray(maps[order].reshape(S, C, H, W))
        t = torch.from_numpy(arr.copy())
        if layout == "C":  # same packing as B, but a dense NON-contiguous tensor: an NHWC buffer viewed as NCHW (channels-last)
            t = torch.from_numpy(np.ascontiguousarray(arr.transpose(0, 2, 3, 1))).permute(0, 3, 1, 2)
        mask = oracle_mask(arr, thr)
        flat_order = order.reshape(S, C)
        if layout == layouts[0]:
            m0 = mask.reshape(S * C, H, W)[:N]
            a0 = arr.reshape(S * C, H, W)[:N].astype(np.float64)
            idx0 = order[:N]
            npk = m0.sum(axis=(1, 2))
            nt[idx0] = (((a0 > thr) & ~m0).any(axis=(1, 2)) & (npk >= 1)) | (npk >= 2)
            if pw2 is not None:
                codes.update(
                    f"{H}x{W}:t{thr:g}:{int(c)}" for c in np.unique(m0.reshape(N, -1).astype(np.int64) @ pw2)
                )
            else:
                codes.update(f"{H}x{W}:t{thr:g}:n{int(c)}" for c in np.unique(m0.sum(axis=(1, 2))))

        # ---- rough detector, and find_local_peaks without refinement ---------------------------------
        variants = [("rough", lambda: pf.find_local_peaks_rough(t, threshold=thr))]
        variants.append(("local_none", lambda: pf.find_local_peaks(t, threshold=thr, refinement=None)))
        rough = None
        for vname, fn in variants:
            calls += 1
            evals += S * C
            try:
                out = _unpack(fn())
            except Exception as e:
                viol.append((None, layout, f"{vname}: raised {type(e).__name__}: {e}"))
                continue
            if isinstance(out, str):
                viol.append((None, layout, f"{vname}: {out}"))
                continue
            pts, vals, si, ci = out
            n = len(vals)
            xs, ys = pts[:, 0], pts[:, 1]
            okc = (
                np.isfinite(pts).all(axis=1)
                & (xs == np.round(xs))
                & (ys == np.round(ys))
                & (xs >= 0)
                & (xs < W)
                & (ys >= 0)
                & (ys < H)
                & (si >= 0)
                & (si < S)
                & (ci >= 0)
                & (ci < C)
            ) if n else np.zeros(0, dtype=bool)
            if n and not okc.all():
                j = int(np.nonzero(~okc)[0][0])
                viol.append(
                    (None, layout, f"{vname}: peak {j} has indices outside the batch/map: point={pts[j].tolist()} sample={int(si[j])} channel={int(ci[j])} (S={S},C={C},h={H},w={W})")
                )
                continue
            xi, yi = xs.astype(np.int64), ys.astype(np.int64)
            counts = np.zeros((S, C, H, W), dtype=np.int64)
            np.add.at(counts, (si, ci, yi, xi), 1)
            bad = (counts != mask.astype(np.int64)).any(axis=(2, 3))
            if n:
                wrong_val = ~(vals.astype(np.float64) == arr[si, ci, yi, xi].astype(np.float64))
                if wrong_val.any():
                    bad[si[wrong_val], ci[wrong_val]] = True
            if bad.any():
                bs, bc = np.nonzero(bad)
                for s, c in list(zip(bs.tolist(), bc.tolist()))[:MAX_VIOL_PER_BATCH]:
                    exp = [(int(x), int(y), float(arr[s, c, y, x])) for y, x in zip(*np.nonzero(mask[s, c]))]
                    viol.append(
                        (
                            int(flat_order[s, c]),
                            layout,
                            f"{vname}: map {arr[s, c].tolist()} threshold {thr:g} at (sample {s}, channel {c}) of a ({S},{C},{H},{W}) batch: "
                            f"returned (x,y,val) {_fmt_peaks(pts, vals, si, ci, s, c)} but the strict local maxima above threshold are {exp}",
                        )
                    )
                extra = len(bs) - MAX_VIOL_PER_BATCH
                if extra > 0:
                    viol.append(("more", layout, extra))
            if vname == "rough":
                rough = (pts, vals, si, ci, bool(bad.any()))
                obs[layout] = {"n_peaks": int(n)}

        # ---- integral refinement -------------------------------------------------------------------------------
        if patch is None:
            continue
        calls += 1
        evals += S * C
        try:
            out = _unpack(pf.find_local_peaks(t, threshold=thr, refinement="integral", integral_patch_size=patch))
        except Exception as e:
            viol.append((None, layout, f"integral(patch={patch}): raised {type(e).__name__}: {e}"))
            continue
        if isinstance(out, str):
            viol.append((None, layout, f"integral(patch={patch}): {out}"))
            continue
        if rough is None:
            continue
        rpts, rvals, rsi, rci, _ = rough
        pts, vals, si, ci = out
        if len(vals) != len(rvals):
            viol.append((None, layout, f"integral(patch={patch}): {len(vals)} peaks but the rough detector returns {len(rvals)} on the same batch"))
            continue
        same = (si == rsi) & (ci == rci) & (vals.astype(np.float64) == rvals.astype(np.float64))
        if not same.all():
            j = int(np.nonzero(~same)[0][0])
            viol.append(
                (
                    int(flat_order[rsi[j], rci[j]]),
                    layout,
                    f"integral(patch={patch}): peak {j} has (sample,channel,val)=({int(si[j])},{int(ci[j])},{float(vals[j])}) but rough peak {j} is ({int(rsi[j])},{int(rci[j])},{float(rvals[j])}) at {rpts[j].tolist()}: order/indices changed",
                )
            )
            continue
        if len(vals) == 0:
            refined_by_layout[layout] = (np.zeros(0, dtype=np.int64), np.zeros((0, 2)))
            continue
        # refinement domain: non-negative map, positive peak value
        map_min = arr.min(axis=(2, 3))[rsi, rci]
        dom = (map_min >= 0) & (rvals > 0)
        n_out_domain += int((~dom).sum())
        n_in_domain += int(dom.sum())
        disp = np.abs(pts - rpts)
        lim = (patch - 1) / 2 + TOL
        with np.errstate(invalid="ignore"):
            too_far = dom & ~((disp[:, 0] <= lim) & (disp[:, 1] <= lim))  # NaN counts as too far
        if dom.any():
            fin = disp[dom][np.isfinite(disp[dom]).all(axis=1)]
            if len(fin):
                max_disp = max(max_disp, float(fin.max()))
        if too_far.any():
            js = np.nonzero(too_far)[0]
            for j in js[:MAX_VIOL_PER_BATCH].tolist():
                s, c = int(rsi[j]), int(rci[j])
                viol.append(
                    (
                        int(flat_order[s, c]),
                        layout,
                        f"integral(patch={patch}): map {arr[s, c].tolist()} threshold {thr:g} at (sample {s}, channel {c}) of a ({S},{C},{H},{W}) batch: "
                        f"grid peak {rpts[j].tolist()} refined to {pts[j].tolist()}: moves more than (patch-1)/2={(patch - 1) / 2} from its grid cell",
                    )
                )
            if len(js) > MAX_VIOL_PER_BATCH:
                viol.append(("more", layout, len(js) - MAX_VIOL_PER_BATCH))
        # key for the cross-layout comparison: only the first N flat positions (each map exactly once)
        flat = rsi * C + rci
        first = flat < N
        key = order[flat[first]] * (H * W) + rpts[first, 1].astype(np.int64) * W + rpts[first, 0].astype(np.int64)
        o = np.argsort(key, kind="stable")
        refined_by_layout[layout] = (key[o], pts[first][o])
        codes.update(f"r{patch}:{v}" for v in np.unique(np.round(pts[first] - rpts[first], 2))[:50].tolist())

    # ---- refined result of one map must not depend on its batch-mates --------------------------------------------------
    for other in [l for l in layouts[1:] if l in refined_by_layout and layouts[0] in refined_by_layout and patch is not None]:
        (ka, pa), (kb, pb) = refined_by_layout[layouts[0]], refined_by_layout[other]
        tag = "AB" if other == "B" else "A" + other
        if len(ka) == len(kb) and (ka == kb).all():
            evals += N
            # identical non-finite values (mixed-sign maps, outside the refinement domain) count as equal
            diff = ~np.isclose(pa, pb, rtol=0.0, atol=TOL, equal_nan=True).all(axis=1)
            if diff.any():
                js = np.nonzero(diff)[0]
                for j in js[:MAX_VIOL_PER_BATCH].tolist():
                    mi = int(ka[j] // (H * W))
                    cell = int(ka[j] % (H * W))
                    viol.append(
                        (
                            mi,
                            tag,
                            f"integral(patch={patch}): map {maps[mi].tolist()} threshold {thr:g}, grid peak (x={cell % W},y={cell // W}): refined to {pa[j].tolist()} in packing A (N,1) "
                            f"but to {pb[j].tolist()} in packing {other} (N/3,3, rotated by {rot}): result depends on the batch-mates",
                        )
                    )
                if len(js) > MAX_VIOL_PER_BATCH:
                    viol.append(("more", tag, len(js) - MAX_VIOL_PER_BATCH))
    return {
        "viol": viol,
        "calls": calls,
        "evals": evals,
        "nt": nt,
        "codes": codes,
        "n_out_domain": n_out_domain,
        "n_in_domain": n_in_domain,
        "max_disp": max_disp,
        "maps": maps,
        "obs": obs,
    }


# ---------------------------------------------------------------------------
# explorer


def state_base(spec):
    """Integer key space for the maps of one generator (distinct inputs)."""
    if spec["gen"] == "enum":
        emb = spec.get("embed") or [0, 0, 0, 0]
        tag = ((spec["h"] * 8 + spec["w"]) * 8 + len(spec["alphabet"])) * 64 + emb[0] * 8 + emb[2]
        if spec.get("f64"):
            tag += 50000
    else:
        tag = 100000 + (spec["H"] * 8 + spec["W"]) * 2 + int(spec["two"])
    return tag << 40


def work(part, shard):
    for spec, thrs, patches, rot in shard:
        base = state_base(spec)
        lo, n = spec["lo"], spec["n"]
        part.states.update(range(base + lo, base + lo + n))
        for thr in thrs:
            for patch in patches:
                r = examine(spec, thr, rot, patch)
                part.count(r["evals"])
                part.transition(r["calls"])
                part.add("refine_outside_domain", r["n_out_domain"])
                part.add("refine_in_domain", r["n_in_domain"])
                part.maxi("max_refine_displacement", r["max_disp"])
                part.add("map_threshold_pairs", n)
                nt = r["nt"]
                part.nontrivial.update((base + lo + np.nonzero(nt)[0]).tolist())
                for c in r["codes"]:
                    part.outcome(c)
                maps = r["maps"]

                def mk(i, layout="A"):
                    return {
                        "spec": spec,
                        "threshold": thr,
                        "rot": rot,
                        "patch": patch,
                        "layout": layout,
                        "map_index": i,
                        "map": None if i is None else maps[i].tolist(),
                    }

                part.sample(mk(0), bool(nt[0]))
                if nt.any():
                    i = int(np.nonzero(nt)[0][0])
                    part.sample(mk(i), True)
                part.sample(mk(n - 1), bool(nt[n - 1]))
                for mi, layout, msg in r["viol"]:
                    if mi == "more":
                        part.n_viol += int(msg)
                        continue
                    part.violation(dict(mk(mi, layout), variant=str(msg).split(":")[0]), msg)


def self_check():
    """The vectorised oracle must agree with the plain-Python scan (harness self-test, all 2x3 maps over 4 levels)."""
    spec = {"gen": "enum", "h": 2, "w": 3, "alphabet": ALPHA4, "lo": 0, "n": 4**6}
    maps = build(spec)
    for thr in (-2.0, f32(0.3)):
        mask = oracle_mask(maps, thr)
        for i in range(0, len(maps), 7):
            a = sorted(zip(*[v.tolist() for v in np.nonzero(mask[i])]))
            b = oracle_scan(maps[i].tolist(), thr)
            if a != b:
                raise AssertionError(f"oracle self-check failed on {maps[i].tolist()} thr={thr}: {a} vs {b}")


def plan(tier):
    """List of (spec-without-range, thresholds, patches)."""
    thr = [f32(t) for t in THRESHOLDS]
    items = []

    def enum(h, w, alph, patches=(None,), embed=None, thrs=thr):
        s = {"gen": "enum", "h": h, "w": w, "alphabet": [f32(a) for a in alph]}
        if embed:
            s["embed"] = list(embed)
        items.append((s, list(thrs), list(patches)))

    small = [(1, 1), (1, 2), (2, 1), (1, 3), (3, 1), (2, 2), (1, 4), (4, 1), (1, 5), (5, 1), (2, 3), (3, 2)]
    for h, w in small:
        enum(h, w, ALPHA5, patches=(None, 3, 4, 5))
    if tier == "quick":
        enum(3, 3, ALPHA4)
        enum(3, 3, ALPHA3, patches=(3, 4, 5))
        enum(3, 3, ALPHA3, patches=(3, 4, 5), embed=(5, 5, 1, 1), thrs=thr[1:3])
        enum(3, 3, ALPHA3, patches=(5,), embed=(7, 7, 2, 2), thrs=thr[1:3])
    else:
        enum(3, 3, ALPHA5, patches=(None, 3))
        enum(3, 3, ALPHA4, patches=(5,))
        enum(3, 4, ALPHA3)
        enum(4, 3, ALPHA3)
        enum(4, 4, ALPHA2, patches=(None, 3, 4, 5))
        enum(3, 3, ALPHA4, patches=(3, 4, 5, 6), embed=(5, 5, 1, 1))
        enum(3, 3, ALPHA3, patches=(3, 5), embed=(7, 7, 2, 2))
        enum(3, 3, ALPHA3, patches=(3, 5), embed=(5, 5, 0, 2))
    for H, W in ((5, 5), (7, 7), (5, 7)):
        for two in (False, True):
            items.append(({"gen": "bumps", "H": H, "W": W, "two": two}, [thr[1], thr[2], thr[3]], [3, 5]))
    # double-precision maps over levels that single precision cannot tell apart (0.1 vs 0.1+1e-10) or cannot represent
    # (0.7): ties and near-ties below float32 resolution; rough detector only
    for h, w in ((1, 2), (2, 2), (1, 3), (2, 3), (3, 2)) + (((3, 3),) if tier != "quick" else ()):
        items.append(({"gen": "enum", "h": h, "w": w, "alphabet": ALPHA_F64, "f64": True}, [0.0, 0.05], [None]))
    return items


ALPHA_F64 = [0.0, 0.1, 0.1 + 1e-10, 0.7]


FN_NAME = "find_local_peaks"


def history_calls():
    """Calls that collide in batch shape / patch size / threshold in different combinations."""
    import numpy as np

    out = []
    rng_maps = {}
    for (s, c, h, w) in [(2, 3, 5, 5), (1, 3, 7, 5), (3, 1, 5, 7)]:
        yy, xx = np.mgrid[0:h, 0:w].astype(np.float64)
        m = np.zeros((s, c, h, w), dtype=np.float32)
        for i in range(s):
            for j in range(c):
                cx, cy = 1.3 + 0.9 * j + 0.4 * i, 1.6 + 0.7 * i + 0.3 * j
                m[i, j] = np.exp(-((xx - cx) ** 2 + (yy - cy) ** 2) / 2.0) + 0.6 * np.exp(-((xx - (w - 1.4)) ** 2 + (yy - (h - 1.7 - 0.2 * j)) ** 2) / 1.5)
        rng_maps[(s, c, h, w)] = m
    for shape, m in rng_maps.items():
        for patch in (None, 3, 4, 5):
            for thr in ((0.2, 0.7) if patch == 5 else (0.2,)):
                out.append((f"%s(shape={shape},patch={patch},thr={thr})" % FN_NAME, {"maps": m, "patch": patch, "thr": thr}))
    return out


def history_run(entry):
    import torch

    from sleap_nn.inference import peak_finding as pf

    c = entry[1]
    t = torch.from_numpy(c["maps"].copy())
    fn = getattr(pf, FN_NAME)
    if c["patch"] is None:
        return list(fn(t, threshold=c["thr"], refinement=None))
    return list(fn(t, threshold=c["thr"], refinement="integral", integral_patch_size=c["patch"]))

def run(ctx):
    core.setup_torch()
    # E2 part first (the parent has not called the functions yet): every ordered pair / triple of a small call alphabet
    # in forked children, each result compared with the same call in a fresh process (history-dependent state)
    from mc import history as _history

    _history.search(ctx, history_calls(), history_run, depth=2 if ctx.tier == "quick" else 3)
    self_check()
    jobs = []
    bounds = []
    for spec, thrs, patches in plan(ctx.tier):
        total = n_maps(spec)
        bounds.append(
            {k: v for k, v in spec.items()} | {"maps": total, "thresholds": thrs, "patches": ["none" if p is None else p for p in patches]}
        )
        for lo in range(0, total, BATCH):
            n = min(BATCH, total - lo)
            s = dict(spec, lo=lo, n=n)
            rot = 1 + (ctx.seed * 7 + lo // BATCH) % max(1, n - 1)
            jobs.append((s, thrs, patches, rot))
    ctx.bounds = {"generators": bounds, "packings": ["A:(N,1)", "B:(ceil(N/3),3) rotated"], "batch": BATCH}
    jobs = core.rotate(jobs, ctx.seed)
    core.pmap(ctx, work, core.shard_list(jobs, max(16, min(len(jobs), 96))))


def replay(case):
    if isinstance(case, dict) and case.get("kind") == "history":
        core.setup_torch()
        from mc import history as _history

        return _history.replay(case, history_calls(), history_run)
    core.setup_torch()
    import torch
    from sleap_nn.inference import peak_finding as pf

    spec, thr, rot, patch = case["spec"], case["threshold"], case["rot"], case.get("patch")
    mi, layout = case.get("map_index"), case.get("layout", "A")
    layouts = ("A", "C") if layout in ("C", "AC") else (("A", "B") if layout == "AB" or patch is not None else (layout,))
    r = examine(spec, thr, rot, patch, layouts=layouts)
    mine = [(m, l, msg) for m, l, msg in r["viol"] if m != "more" and (mi is None or m is None or m == mi)]
    # MAX_VIOL_PER_BATCH may hide this map's own line in a batch with many violations: look at it alone, too
    out = {"batch_violations_for_this_map": [f"[{l}] {msg}" for m, l, msg in mine], "violates": bool(mine)}
    if mi is not None:
        m = r["maps"][mi]
        t = torch.from_numpy(m[None, None].copy())
        try:
            pts, vals, si, ci = pf.find_local_peaks_rough(t, threshold=thr)
            got = sorted((int(p[1]), int(p[0])) for p in pts.tolist())
            exp = oracle_scan(m.tolist(), thr)
            out["alone"] = {"map": m.tolist(), "threshold": thr, "returned_yx": got, "expected_yx": exp}
            if got != exp:
                out["violates"] = True
            if patch is not None:
                rp = pf.find_local_peaks(t, threshold=thr, refinement="integral", integral_patch_size=patch)[0]
                out["alone"]["refined_xy"] = rp.tolist()
        except Exception as e:
            out["alone"] = f"raised {type(e).__name__}: {e}"
            out["violates"] = True
    if not mine and r["viol"] and mi is not None:
        # the batch still violates somewhere: report, and count it if this map's line was cut by the per-batch cap
        out["other_violations_in_batch"] = sum(1 if m != "more" else int(msg) for m, l, msg in r["viol"])
    return out
