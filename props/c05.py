"""C05 — part-affinity-field targets point along each edge and vanish where they must.

E1 (small-scope input enumeration).  Every enumerated case is one execution of the
real `sleap_nn.data.edge_maps.generate_pafs` or of the DataPipe
`PartAffinityFieldsGenerator`; the oracle is the property text, written as float64
numpy geometry plus *relations* (no fall-off formula is assumed):

  (i)   shape (2E, H/s, W/s) [flatten] or (E, 2, H/s, W/s), channels e0.x, e0.y, e1.x, ...; all finite
  (ii)  one animal alone, edge with finite endpoints and length > 0, animal not wholly outside
        the image: at every cell v = w*u (u = unit vector source->destination), 0 <= w <= 1,
        w = 1 at cells lying on the segment, and dist(a) < dist(b) - DELTA  =>  w(a) >= w(b) - ATOL
  (iii) edge with a missing endpoint or zero length: both channels exactly 0
  (iv)  animal with no node inside the image: contributes exactly 0
  (v)   several animals: output == sum of the real outputs of each animal alone

Families enumerated
  A  one animal, 2 nodes: ALL 81x81 ordered point pairs over the coordinate alphabet, both edge orientations
  B  one animal, 3 nodes: all triples over a point set Q, x all 24 edge lists (3 trees x 2 orders x 4 orientations)
  C  2 (thorough: also 3) animals drawn from fixed animal lists (inside, border-only, wholly outside,
     missing, half-missing, coincident, identical animals), 2-node x 2 edge lists and 3-node x 24 edge lists
  Z  zero animals
each x image size x stride x sigma x flatten_channels x {function, DataPipe}.
"""
from __future__ import annotations

import hashlib
import itertools
import math
import re

import numpy as np

from mc import core

LEVEL = "model_checking"
RULE = (
    "inputs = instances arrays built from the per-axis coordinate alphabet {NaN,-4,0,1,2.5,3,N-2,N-1,N+3} (N = W for x, H for y): "
    "A all 81^2 two-node animals x both edge orientations; B three-node animals over a point set Q x all 24 oriented/ordered "
    "tree edge lists; C pairs (thorough: triples) of animals from fixed lists; Z no animal; each x image size x stride x sigma "
    "x flatten_channels x api(generate_pafs | PartAffinityFieldsGenerator); every case is one execution of the real code, "
    "checked against a float64 point-to-segment reference and the relations of the property. A case is non-trivial when the "
    "oracle expects a non-zero field (some edge with finite endpoints, length>0, of an animal with a node inside the image) "
    "and the observed output is not all zero; distinct = distinct (api, flatten, hw, stride, sigma, instances, edge list)"
)
ASSUMPTIONS = [
    "history part: all ordered pairs (thorough: triples) of 16 generate_pafs calls whose grids collide in shape but not in coordinates, each history in a forked child, compared with a fresh-process result (module-level caches / scratch buffers keyed too coarsely)",
    "coordinates only from the alphabet {NaN,-4,0,1,2.5,3,N-2,N-1,N+3} per axis (dyadic, so 'cell lies on the segment' is decided exactly); no +-inf coordinates",
    "animals <= 2 (quick) / <= 3 (thorough), nodes <= 3, edge lists = oriented/ordered spanning trees of the node set (1 or 2 edges)",
    "image sizes (H,W): quick (8,12); thorough (8,8),(8,12),(12,8) and for family A also (12,12) -- all multiples of the strides {1,2,4} -- plus, for family A, the 8x4096 frame at stride 1 (edges up to 4090 px long) and, for families A and C, the size (7,10) at strides 2 and 4 (not a multiple: the output may have floor or ceil(size/stride) cells per axis, every cell is judged at (col*stride,row*stride)); sigma in {0.5,1.5,4}; n_samples = 1 (generate_pafs reads instances[0] only)",
    "edge_inds passed as torch.Tensor(list) (float tensor (E,2)), which is how CustomDataset/pipelines call the code",
    "'inside the image' = node in [0,W-1]x[0,H-1]; 'wholly outside' = no node inside; float32 tolerance ATOL=1e-5 on weights/components, DELTA=1e-4 on reference distances",
    "quick runs (flatten, api) in {(True,fn),(False,fn),(True,dp)}; thorough the full 2x2 product",
    "every failed clause of a case is handed to the runner as its own violation (case + focus = clause/animal/edge), so a known-finding signature can never mask a different failure of the same case; coverage.violations_with_signature_* counts how many match each signature predicate whether or not the finding is listed",
    "family C checks additivity against the real single-animal outputs; the per-animal clauses (ii)-(iv) are decided on the single-animal families A/B, of which C's animals are members",
]
MIN_OUTCOMES = 200

ATOL = 1e-5
DELTA = 1e-4
NAN = float("nan")

STRIDES = (1, 2, 4)
SIGMAS = (0.5, 1.5, 4.0)
APIS = ("fn", "dp")
FLATTEN = (True, False)

# per-axis coordinate alphabet, symbolic (index 6, 7 depend on the image extent along that axis)
N_SYM = 9


def coord(sym, n):
    return (NAN, -4.0, 0.0, 1.0, 2.5, 3.0, float(n - 1), float(n + 3), float(n - 2))[sym]


def point(p, hw):
    """Symbolic point (ix, iy) -> concrete [x, y] for an image of size hw=(H, W)."""
    return [coord(p[0], hw[1]), coord(p[1], hw[0])]


ALL_POINTS = [(ix, iy) for ix in range(N_SYM) for iy in range(N_SYM)]  # 81, incl. half-missing points

# named symbolic points used for families B and C
P_NAN = (0, 0)
P_11 = (3, 3)  # (1, 1)
P_31 = (5, 3)  # (3, 1)
P_253 = (4, 5)  # (2.5, 3)
P_33 = (5, 5)  # (3, 3)
P_01 = (2, 3)  # (0, 1)      left border
P_00 = (2, 2)  # (0, 0)      corner
P_FAR = (6, 6)  # (W-1, H-1)  far corner (border)
P_OUT = (1, 2)  # (-4, 0)     outside
P_OUT2 = (7, 5)  # (W+3, 3)    outside
P_HALF = (3, 0)  # (1, NaN)    half-missing
P_2525 = (4, 4)  # (2.5, 2.5)

Q_QUICK = [P_NAN, P_11, P_31, P_253, P_01]
Q_THOROUGH = [P_NAN, P_11, P_31, P_253, P_01, P_FAR, P_OUT, P_HALF]


def edge_lists(n_nodes):
    """Every orientation and every order of every spanning tree on n_nodes (2 -> 2 lists, 3 -> 24), plus, for 3 nodes,
    the 6 single-edge lists (one node unconnected)."""
    if n_nodes == 2:
        return [[[0, 1]], [[1, 0]]]
    out = []
    pairs = [(0, 1), (0, 2), (1, 2)]
    # skeletons in which one node is connected to nothing (its index may be lower than a connected node's)
    for a, b in pairs:
        out.append([[a, b]])
        out.append([[b, a]])
    for tree in itertools.combinations(pairs, 2):  # any 2 of the 3 pairs span 3 nodes
        for order in itertools.permutations(tree):
            for flips in itertools.product((0, 1), repeat=2):
                out.append([[a, b] if not f else [b, a] for (a, b), f in zip(order, flips)])
    return out


# fixed animal lists for family C (all are members of families A / B)
A2 = [
    (P_11, P_31),  # inside, +x
    (P_31, P_253),  # inside, skew
    (P_253, P_33),  # inside, half-pixel edge (K1 region)
    (P_11, P_11),  # coincident nodes
    (P_11, P_NAN),  # one node missing
    (P_NAN, P_NAN),  # padding row
    (P_OUT, P_OUT2),  # wholly outside, segment crosses the image
    (P_01, P_00),  # border only (K2 region)
    (P_FAR, P_33),  # one border node, one inside
    (P_HALF, P_31),  # half-missing
    (P_OUT, P_11),  # one node outside
    (P_33, P_11),  # inside, diagonal, crosses animal 0/1
]
A3 = [
    (P_11, P_31, P_253),
    (P_33, P_11, P_FAR),
    (P_11, P_11, P_31),  # coincident
    (P_NAN, P_31, P_253),  # one missing
    (P_NAN, P_NAN, P_NAN),
    (P_OUT, P_OUT2, P_NAN),  # wholly outside
    (P_01, P_00, P_NAN),  # border only
    (P_31, P_OUT, P_33),
]


def configs(tier, family):
    if tier == "quick":
        hws = [(8, 12)]
    elif family == "A":
        hws = [(8, 8), (12, 12), (8, 12), (12, 8)]
    else:
        hws = [(8, 8), (8, 12), (12, 8)]
    out = [(hw, s, sg) for hw in hws for s in STRIDES for sg in SIGMAS]
    if family in ("A", "C"):  # a size that is NOT a multiple of the strides 2 and 4 (grid of floor or ceil(size/stride) cells)
        out += [((7, 10), s, sg) for s in STRIDES if s > 1 for sg in (SIGMAS if tier != "quick" else SIGMAS[1:2])]
    if family == "A":  # a very wide frame: edges thousands of pixels long (coordinates where float32 has ~1e-3 px resolution)
        out += [((8, 4096), 1, SIGMAS[1])]
    return out


def variants(tier):
    """(flatten_channels, api) combinations: thorough = full product; quick = function x both layouts + DataPipe flattened
    (the form pipelines.py uses)."""
    if tier == "quick":
        return [(True, "fn"), (False, "fn"), (True, "dp")]
    return [(f, a) for f in FLATTEN for a in APIS]


# ---------------------------------------------------------------------------
# the real code


def call_real(case):
    """One execution of the real sleap-nn code for a case dict; returns the raw output object."""
    import torch
    from sleap_nn.data.edge_maps import PartAffinityFieldsGenerator, generate_pafs

    H, W = case["hw"]
    n_nodes = case["n_nodes"]
    t = torch.tensor(case["inst"], dtype=torch.float32).reshape(1, len(case["inst"]), n_nodes, 2)
    E = torch.Tensor(case["edges"])
    if case["api"] == "fn":
        return generate_pafs(
            t,
            img_hw=(H, W),
            sigma=case["sigma"],
            output_stride=case["stride"],
            edge_inds=E,
            flatten_channels=case["flatten"],
        )
    ex = {"image": torch.zeros((1, 1, H, W)), "instances": t, "skeleton_inds": torch.zeros((1, len(case["inst"])))}
    dp = PartAffinityFieldsGenerator(
        [ex], sigma=case["sigma"], output_stride=case["stride"], edge_inds=E, flatten_channels=case["flatten"]
    )
    outs = list(dp)
    if len(outs) != 1 or "part_affinity_fields" not in outs[0]:
        raise AssertionError(f"DataPipe yielded {len(outs)} examples / keys {sorted(outs[0]) if outs else None}")
    return outs[0]["part_affinity_fields"]


# ---------------------------------------------------------------------------
# reference geometry (float64, textbook point-to-segment distance)


def finite_pt(p):
    return math.isfinite(p[0]) and math.isfinite(p[1])


def node_inside(p, hw):
    return finite_pt(p) and 0.0 <= p[0] <= hw[1] - 1 and 0.0 <= p[1] <= hw[0] - 1


def animal_inside(animal, hw):
    return any(node_inside(p, hw) for p in animal)


def last_grid(n, stride):
    return float(((n + stride - 1) // stride - 1) * stride)


def edge_geometry(ps, pd, hw, stride, dims=None):
    """(u, dist, on_segment) for a valid edge on the (H/s, W/s) grid whose cell (i,j) sits at x=j*s, y=i*s.
    dims: the grid dimensions of the output being judged (floor or ceil of size/stride for sizes that are not multiples)."""
    H, W = hw
    gh, gw = dims if dims is not None else (H // stride, W // stride)
    gx, gy = np.meshgrid(np.arange(gw, dtype=np.float64) * stride, np.arange(gh, dtype=np.float64) * stride)
    dx, dy = pd[0] - ps[0], pd[1] - ps[1]
    L2 = dx * dx + dy * dy
    L = math.sqrt(L2)
    rx, ry = gx - ps[0], gy - ps[1]
    dot = rx * dx + ry * dy
    cross = rx * dy - ry * dx  # exact for dyadic inputs
    t = np.clip(dot / L2, 0.0, 1.0)
    dist = np.hypot(rx - t * dx, ry - t * dy)
    on = (cross == 0.0) & (dot >= 0.0) & (dot <= L2)
    dist = np.where(on, 0.0, dist)
    return (dx / L, dy / L), dist, on


def monotone_defect(dist, w):
    """max over pairs dist(a) < dist(b) - DELTA of w(b) - w(a)  (<= 0 when there is no such pair)."""
    d = dist.ravel()
    ww = w.ravel()
    order = np.argsort(d, kind="stable")
    ds, ws = d[order], ww[order]
    pm = np.minimum.accumulate(ws)
    k = np.searchsorted(ds, ds - DELTA, side="left")  # number of cells strictly closer than d_b - DELTA
    has = k > 0
    if not has.any():
        return -1.0, None
    defect = np.where(has, ws - pm[np.maximum(k - 1, 0)], -1.0)
    b = int(np.argmax(defect))
    return float(defect[b]), int(order[b])


def to_edge_major(out, n_edges, hw, stride, flatten):
    """Shape clause (i); returns (array (E,2,h,w) float64, error or None)."""
    import torch

    h, w = hw[0] // stride, hw[1] // stride
    want = (2 * n_edges, h, w) if flatten else (n_edges, 2, h, w)
    if not isinstance(out, torch.Tensor):
        return None, f"output is {type(out).__name__}, not a tensor"
    if tuple(out.shape) != want:
        # a size that is not a multiple of the stride: "H/stride" is read as floor or ceil
        h, w = -(-hw[0] // stride), -(-hw[1] // stride)
        alt = (2 * n_edges, h, w) if flatten else (n_edges, 2, h, w)
        if tuple(out.shape) != alt:
            return None, f"shape {tuple(out.shape)} != {want}" + ("" if alt == want else f" or {alt}")
    a = out.detach().cpu().numpy().astype(np.float64)
    return a.reshape(n_edges, 2, h, w), None


def check_single(case, arr, geom=None, stats=None):
    """Clauses (ii)-(iv) for a one-animal case.  arr: (E,2,h,w) float64.  Returns (failures, expects_nonzero)."""
    fails = []
    hw, stride = case["hw"], case["stride"]
    animal = case["inst"][0]
    inside = animal_inside(animal, hw)
    all_zero = not np.any(arr != 0.0)
    expects = False
    if not inside:
        if not all_zero:
            fails.append(
                dict(clause="outside_animal_zero", animal=0, edge=-1, detail=f"animal has no node inside the image but max|field|={np.abs(arr).max():.6g}")
            )
        return fails, expects
    for e, (s, d) in enumerate(case["edges"]):
        ps, pd = animal[s], animal[d]
        valid = finite_pt(ps) and finite_pt(pd) and (ps[0] != pd[0] or ps[1] != pd[1])
        f = arr[e]
        if not valid:
            if np.any(f != 0.0):
                why = "zero length" if finite_pt(ps) and finite_pt(pd) else "missing endpoint"
                fails.append(dict(clause="degenerate_edge_zero", animal=0, edge=e, detail=f"{why} edge {ps}->{pd} has max|field|={np.abs(f).max():.6g}"))
            continue
        expects = True
        key = (e, s, d)
        g = geom.get(key) if geom is not None else None
        if g is None:
            g = edge_geometry(ps, pd, hw, stride, tuple(f.shape[-2:]))
            if geom is not None:
                geom[key] = g
        (ux, uy), dist, on = g
        w = f[0] * ux + f[1] * uy
        resid = max(float(np.abs(f[0] - w * ux).max()), float(np.abs(f[1] - w * uy).max()))
        if stats is not None:
            stats["max_direction_residual"] = max(stats.get("max_direction_residual", 0.0), resid)
        if resid > ATOL or float(w.min()) < -ATOL or float(w.max()) > 1.0 + ATOL:
            i = int(np.argmax(np.maximum(np.abs(f[0] - w * ux), np.abs(f[1] - w * uy)) + np.maximum(-w, 0) + np.maximum(w - 1, 0)))
            ci, cj = divmod(i, w.shape[1])
            fails.append(
                dict(
                    clause="direction_or_range",
                    animal=0,
                    edge=e,
                    detail=f"edge {ps}->{pd} u=({ux:.4f},{uy:.4f}): cell (row {ci}, col {cj}) field=({f[0, ci, cj]:.6g},{f[1, ci, cj]:.6g}) "
                    f"w=v.u={w[ci, cj]:.6g}; residual |v-w*u|max={resid:.3g}, w range [{w.min():.6g},{w.max():.6g}] (need v=w*u, 0<=w<=1)",
                )
            )
        if on.any():
            won = w[on]
            k = int(np.argmax(np.abs(won - 1.0)))
            dev = float(abs(won[k] - 1.0))
            if stats is not None and dev <= ATOL:
                stats["max_on_segment_dev_within_tol"] = max(stats.get("max_on_segment_dev_within_tol", 0.0), dev)
            if dev > ATOL:
                ci, cj = [int(v[k]) for v in np.nonzero(on)]
                fails.append(
                    dict(
                        clause="w_on_segment",
                        animal=0,
                        edge=e,
                        w_observed=float(won[k]),
                        cell=[ci, cj],
                        animal_output_all_zero=bool(all_zero),
                        detail=f"edge {ps}->{pd}: cell (row {ci}, col {cj}) = point ({cj * stride},{ci * stride}) lies on the segment but w={won[k] + 0.0:.6g} (expected 1)"
                        + (" [whole output of this animal is exactly zero]" if all_zero else ""),
                    )
                )
        defect, b = monotone_defect(dist, w)
        if stats is not None and defect <= ATOL:
            stats["max_monotone_defect_within_tol"] = max(stats.get("max_monotone_defect_within_tol", 0.0), defect)
        if defect > ATOL:
            db = dist.ravel()[b]
            wr = w.ravel()
            cand = np.where(dist.ravel() < db - DELTA, wr, np.inf)
            a = int(np.argmin(cand))
            W_ = w.shape[1]
            fails.append(
                dict(
                    clause="monotone",
                    animal=0,
                    edge=e,
                    defect=float(defect),
                    cell_a=[a // W_, a % W_],
                    cell_b=[b // W_, b % W_],
                    w_a=float(wr[a]),
                    w_b=float(wr[b]),
                    detail=f"edge {ps}->{pd}: cell (row {a // W_}, col {a % W_}) at distance {dist.ravel()[a]:.6g} has w={wr[a]:.6g} < "
                    f"w={wr[b]:.6g} of cell (row {b // W_}, col {b % W_}) at distance {db:.6g} (weight must be non-increasing with distance)",
                )
            )
    return fails, expects


def check_case(case, out, singles=None, geom=None, stats=None):
    """Full oracle for one executed case.  Returns (failures, nontrivial, arr)."""
    n_edges = len(case["edges"])
    arr, err = to_edge_major(out, n_edges, case["hw"], case["stride"], case["flatten"])
    if err:
        return [dict(clause="shape", animal=-1, edge=-1, detail=err)], False, None
    fails = []
    if not np.all(np.isfinite(arr)):
        bad = np.argwhere(~np.isfinite(arr))[0]
        fails.append(dict(clause="finite", animal=-1, edge=int(bad[0]), detail=f"{int((~np.isfinite(arr)).sum())} non-finite values, first at (edge,comp,row,col)={bad.tolist()}: {arr[tuple(bad)]}"))
        return fails, False, arr
    n_animals = len(case["inst"])
    expects = False
    if n_animals == 0:
        if np.any(arr != 0.0):
            fails.append(dict(clause="no_animal_zero", animal=-1, edge=-1, detail=f"no animals but max|field|={np.abs(arr).max():.6g}"))
    elif n_animals == 1:
        f, expects = check_single(case, arr, geom, stats)
        fails.extend(f)
    else:
        total = np.zeros_like(arr)
        for a in range(n_animals):
            sa = singles(a)
            if sa is None:
                fails.append(dict(clause="additivity", animal=a, edge=-1, detail="the real function failed on this animal alone"))
                return fails, False, arr
            total += sa
        expects = bool(np.any(total != 0.0))
        diff = np.abs(arr - total)
        tol = ATOL + ATOL * np.abs(total)
        if np.any(diff > tol):
            idx = np.unravel_index(int(np.argmax(diff - tol)), diff.shape)
            fails.append(
                dict(
                    clause="additivity",
                    animal=-1,
                    edge=int(idx[0]),
                    detail=f"(edge,comp,row,col)={tuple(int(i) for i in idx)}: all animals together give {arr[idx]:.7g}, the sum of each animal alone is {total[idx]:.7g}",
                )
            )
    nontrivial = expects and bool(np.any(arr != 0.0))
    return fails, nontrivial, arr


def single_case(case, a):
    c = dict(case)
    c["inst"] = [case["inst"][a]]
    c.pop("focus", None)
    return c


def run_case(case, singles_cache=None, geom=None, stats=None):
    """Execute + check one case.  Returns (failures, nontrivial, outcome_key, n_real_calls)."""
    calls = 1
    try:
        out = call_real(case)
    except Exception as e:
        return [dict(clause="exception", animal=-1, edge=-1, detail=f"raised {type(e).__name__}: {e}")], False, "exc:" + type(e).__name__, calls

    n_calls = [0]

    def singles(a):
        key = None
        if singles_cache is not None:
            key = (repr(case["inst"][a]), repr(case["edges"]), tuple(case["hw"]), case["stride"], case["sigma"], case["flatten"], case["api"])
            if key in singles_cache:
                return singles_cache[key]
        sc = single_case(case, a)
        n_calls[0] += 1
        try:
            so = call_real(sc)
            sa, err = to_edge_major(so, len(case["edges"]), case["hw"], case["stride"], case["flatten"])
        except Exception:
            sa = None
        if key is not None:
            singles_cache[key] = sa
        return sa

    fails, nontrivial, arr = check_case(case, out, singles, geom, stats)
    calls += n_calls[0]
    if arr is None:
        okey = "shape:" + repr(tuple(getattr(out, "shape", ())))
    else:
        okey = hashlib.blake2b(arr.astype(np.float32).tobytes() + repr(arr.shape).encode(), digest_size=8).hexdigest()
    return fails, nontrivial, okey, calls


# ---------------------------------------------------------------------------
# known-finding signature predicates


def _focus(case):
    f = case.get("focus")
    return f if isinstance(f, dict) else None


def _k1_distance(ps, pd, x, y):
    """Distance from (x, y) to the foot point that results when the projection (c-src).d is divided by 1 instead of |d|^2
    (what a denominator max(|d|^2, 1) does to an edge with |d| < 1): the mechanism K1 names."""
    dx, dy = pd[0] - ps[0], pd[1] - ps[1]
    rx, ry = x - ps[0], y - ps[1]
    t = min(max(rx * dx + ry * dy, 0.0), 1.0)
    return math.hypot(rx - t * dx, ry - t * dy)


def k1_short_edge(case, msg):
    """K1: one animal, edge with finite endpoints and length in (0,1) px, and the failure is explained by the foot point
    being misplaced along the segment (by < 0.385 px):
      * 'w = 1 on the segment' broken at a cell whose misplaced foot point is not the cell itself, with 0.95 <= w < 1
        (with the present fall-off exp(-d^4/2 sigma^2) and sigma >= 0.5 the smallest such w is 0.957; a larger deviation
        is deliberately NOT covered and shows up as a VIOLATION for re-triage), or
      * monotonicity broken by a pair of cells (a closer than b, w_a < w_b) whose order of distance to the misplaced
        foot point is the reverse (a not closer than b).
    Direction, range, zero, shape, finiteness and additivity clauses are never covered."""
    f = _focus(case)
    if not f or f.get("clause") not in ("w_on_segment", "monotone") or len(case["inst"]) != 1:
        return False
    s, d = case["edges"][f["edge"]]
    ps, pd = case["inst"][f["animal"]][s], case["inst"][f["animal"]][d]
    if not (finite_pt(ps) and finite_pt(pd)):
        return False
    L = math.hypot(pd[0] - ps[0], pd[1] - ps[1])
    if not (0.0 < L < 1.0):
        return False
    st = case["stride"]
    if f["clause"] == "w_on_segment":
        r, c = f["cell"]
        return (
            (not f.get("animal_output_all_zero"))
            and 0.95 <= f.get("w_observed", -1.0) < 1.0
            and _k1_distance(ps, pd, c * st, r * st) > 0.0
        )
    (ra, ca), (rb, cb) = f["cell_a"], f["cell_b"]
    da, db = _k1_distance(ps, pd, ca * st, ra * st), _k1_distance(ps, pd, cb * st, rb * st)
    return f["w_a"] < f["w_b"] and da >= db - 1e-6


def k2_border_strip(case, msg):
    """K2: single animal with at least one node inside [0,W-1]x[0,H-1] but no node strictly inside
    (0, last grid x) x (0, last grid y); observed: the animal's whole output is exactly zero, so a cell on a
    valid edge has w = 0 instead of 1."""
    f = _focus(case)
    if not f or f.get("clause") != "w_on_segment" or len(case["inst"]) != 1:
        return False
    if not f.get("animal_output_all_zero") or f.get("w_observed") != 0.0:
        return False
    hw, stride = case["hw"], case["stride"]
    xl, yl = last_grid(hw[1], stride), last_grid(hw[0], stride)
    animal = case["inst"][f["animal"]]
    if not animal_inside(animal, hw):
        return False
    for p in animal:
        if finite_pt(p) and 0.0 < p[0] < xl and 0.0 < p[1] < yl:
            return False
    return True


KNOWN_PREDICATES = {"k1_short_edge": k1_short_edge, "k2_border_strip": k2_border_strip}


# ---------------------------------------------------------------------------
# explorer


def state_key(case):
    s = repr((case["api"], case["flatten"], case["hw"], case["stride"], case["sigma"], case["inst"], case["edges"]))
    return int.from_bytes(hashlib.blake2b(s.encode(), digest_size=8).digest(), "big")


def make_case(animals, n_nodes, edges, hw, stride, sigma, flatten, api):
    return {
        "inst": [[point(p, hw) for p in an] for an in animals],
        "n_nodes": n_nodes,
        "edges": edges,
        "hw": list(hw),
        "stride": stride,
        "sigma": sigma,
        "flatten": flatten,
        "api": api,
    }


def report(part, case, fails, kept):
    for f in fails:
        c = dict(case)
        c["focus"] = {k: v for k, v in f.items() if k != "detail"}
        msg = f"[{f['clause']}] api={case['api']} hw={case['hw']} stride={case['stride']} sigma={case['sigma']} flatten={case['flatten']} edges={case['edges']}: {f['detail']}"
        sig = None
        for name, pred in KNOWN_PREDICATES.items():
            if pred(c, msg):
                sig = name
                break
        if sig is not None:
            part.add(f"violations_with_signature_{sig}")
        part.violation(c, msg)


def work(part, shard):
    kept = {}
    singles_cache = {}
    sampled = sampled_nt = False
    last = None
    stats = {}
    for tier, family, animals, n_nodes, edges in shard:
        for hw, stride in sorted({(c[0], c[1]) for c in configs(tier, family)}):
            geom = {}
            if len(singles_cache) > 20000:
                singles_cache.clear()
            for sigma in SIGMAS:
                for flatten, api in variants(tier):
                    if True:
                        case = make_case(animals, n_nodes, edges, hw, stride, sigma, flatten, api)
                        fails, nontrivial, okey, calls = run_case(case, singles_cache, geom, stats)
                        part.count()
                        part.transition(calls)
                        sk = state_key(case)
                        part.state(sk)
                        if nontrivial:
                            part.nontriv(sk)
                        part.outcome(okey)
                        if not sampled or (nontrivial and not sampled_nt):
                            part.sample(case, nontrivial)
                            sampled, sampled_nt = True, sampled_nt or nontrivial
                        last = (case, nontrivial)
                        part.add("cases_family_" + family)
                        if fails:
                            report(part, case, fails, kept)
                        for f in fails:
                            if f["clause"] == "monotone":
                                part.maxi("max_monotone_defect", f["defect"])
    if last is not None:
        part.sample(*last)
    for k, v in stats.items():
        part.maxi(k if k.startswith("max_") else "max_" + k, v)


def items_for(tier):
    items = []
    for ip, p in enumerate(ALL_POINTS):
        for iq, q in enumerate(ALL_POINTS):
            for el in edge_lists(2):
                # quick: every ordered pair with the edge (0,1) (= every directed geometric edge), and the
                # reversed listing (1,0) for the pairs with index(p) <= index(q) only; thorough: both for all
                if tier == "quick" and el == [[1, 0]] and ip > iq:
                    continue
                items.append((tier, "A", ((p, q),), 2, el))
    Q = Q_QUICK if tier == "quick" else Q_THOROUGH
    for tri in itertools.product(Q, repeat=3):
        for el in edge_lists(3):
            items.append((tier, "B", (tri,), 3, el))
    # partially visible animals with an edge whose endpoints are BOTH outside the image while its segment crosses it:
    # every arrangement of (outside-left, outside-right, t) for t in Q
    # (the segments y = 0 and y = 3 pass exactly through grid cells, where the weight must be 1; the skew one has none)
    for left, right in ((P_OUT, P_OUT2), (P_OUT, (7, 2)), ((1, 5), P_OUT2)):
        for t in Q:
            for tri in itertools.permutations((left, right, t)):
                for el in edge_lists(3):
                    items.append((tier, "B", (tri,), 3, el))
    a2, a3 = (A2[:8], A3[:6]) if tier == "quick" else (A2, A3)
    for pair in itertools.product(a2, repeat=2):
        for el in edge_lists(2):
            items.append((tier, "C", pair, 2, el))
    for pair in itertools.product(a3, repeat=2):
        for el in edge_lists(3):
            items.append((tier, "C", pair, 3, el))
    if tier == "thorough":
        for tri in itertools.product(A2[:8], repeat=3):
            for el in edge_lists(2):
                items.append((tier, "C", tri, 2, el))
        for tri in itertools.product(A3[:4], repeat=3):
            for el in edge_lists(3):
                items.append((tier, "C", tri, 3, el))
    for n_nodes in (2, 3):
        for el in edge_lists(n_nodes):
            items.append((tier, "Z", (), n_nodes, el))
    return items, Q, a2, a3


def history_calls():
    """Call alphabet of the history search: configurations whose grids collide in SHAPE but not in coordinates."""
    out = []
    for (hw, stride) in [((8, 12), 1), ((16, 24), 2), ((32, 48), 4), ((8, 12), 2), ((4, 6), 1), ((16, 24), 4), ((12, 8), 1), ((24, 16), 2)]:
        for sigma in (1.5, 4.0):
            f = hw[1] / 12.0
            inst = [[[2.5 * f, 1.5 * f], [8.5 * f, 5.25 * f], [4.0 * f, 6.0 * f]], [[10.0 * f, 1.0 * f], [6.5 * f, 2.0 * f], [float("nan"), float("nan")]]]
            out.append((f"generate_pafs(hw={hw},stride={stride},sigma={sigma})", {"inst": inst, "hw": hw, "stride": stride, "sigma": sigma}))
    return out


def history_run(entry):
    import torch

    from sleap_nn.data.edge_maps import generate_pafs

    c = entry[1]
    return generate_pafs(torch.tensor([c["inst"]], dtype=torch.float32), img_hw=tuple(c["hw"]), sigma=c["sigma"], output_stride=c["stride"], edge_inds=torch.Tensor([[0, 1], [1, 2]]), flatten_channels=True)


def run(ctx):
    core.setup_torch()
    # E2 part first (the parent must not have called the functions yet): every ordered pair / triple of calls whose
    # sampling grids have the same shape but different coordinates, in forked children, against fresh-process references
    from mc import history

    history.search(ctx, history_calls(), history_run, depth=2 if ctx.tier == "quick" else 3)
    items, Q, a2, a3 = items_for(ctx.tier)
    # R3: the first execution is replayed twice and must give identical observations
    first = make_case(((P_11, P_31),), 2, [[0, 1]], (8, 12), 2, 1.5, True, "fn")
    o1 = call_real(first).numpy().tobytes()
    o2 = call_real(first).numpy().tobytes()
    if o1 != o2:
        raise RuntimeError("generate_pafs is not deterministic on a repeated call")
    fam = {}
    for it in items:
        fam[it[1]] = fam.get(it[1], 0) + 1
    ctx.bounds = {
        "coordinate_alphabet_per_axis": ["NaN", -4, 0, 1, 2.5, 3, "N-1", "N+3", "N-2"],
        "family_A_two_node_animals": "all 81x81 ordered point pairs x edge list [(0,1)]; edge list [(1,0)] for "
        + ("the 3321 pairs with index(p)<=index(q)" if ctx.tier == "quick" else "all 81x81 pairs too"),
        "family_B_point_set_Q": [point(p, (8, 12)) for p in Q],
        "family_B_three_node_animals": f"all {len(Q)}^3 triples x 30 edge lists (24 spanning trees + 6 single edges that leave one node unconnected), plus every arrangement of (outside-left, outside-right, t in Q) (an edge with both endpoints outside whose segment crosses the image)",
        "family_C_animals_per_frame": 2 if ctx.tier == "quick" else 3,
        "family_C_lists": {"two_node_animals_pairs": len(a2), "three_node_animals_pairs": len(a3), "two_node_animals_triples": 8 if ctx.tier != "quick" else 0, "three_node_animals_triples": 4 if ctx.tier != "quick" else 0},
        "items_per_family": fam,
        "configs_per_item": {f: len(configs(ctx.tier, f)) * len(variants(ctx.tier)) for f in "ABCZ"},
        "flatten_api_variants": variants(ctx.tier),
        "image_sizes_hw": {f: sorted({c[0] for c in configs(ctx.tier, f)}) for f in "ABCZ"},
        "strides": list(STRIDES),
        "sigmas": list(SIGMAS),
        "atol": ATOL,
        "delta": DELTA,
    }
    items = core.rotate(items, ctx.seed)
    core.pmap(ctx, work, core.shard_list(items, 256))


def replay(case):
    core.setup_torch()
    if case.get("kind") == "history":
        from mc import history

        return history.replay(case, history_calls(), history_run)
    case = dict(case)
    focus = case.pop("focus", None)
    fails, nontrivial, okey, calls = run_case(case)
    same = None
    if focus:
        same = any(f["clause"] == focus.get("clause") and f["animal"] == focus.get("animal") and f["edge"] == focus.get("edge") for f in fails)
    obs = {
        "failures": fails,
        "focus": focus,
        "focus_reproduced": same,
        "nontrivial": nontrivial,
        "outcome": okey,
        "violates": bool(fails),
    }
    try:
        out = call_real(case)
        obs["output_shape"] = list(out.shape)
        obs["output_abs_max"] = float(out.abs().max()) if out.numel() else 0.0
    except Exception as e:
        obs["output_exception"] = f"{type(e).__name__}: {e}"
    return obs
