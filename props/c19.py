"""C19 — training runs complete and leave full artifacts that never contain the API key.

E4: crash-point enumeration x configuration grid.  The REAL ModelTrainer(config) +
.train() (1 epoch, 1 step, miniature UNet, CPU, 2-frame synthetic .pkg.slp) runs
under an audit-hook observer that logs every file-system mutation under the output
directories; at EVERY logged event - i.e. on the directory state left by all previous
writes, which is the state a crash between two writes would leave behind - every
regular file is scanned for the key bytes.  The final state is checked against the
documented artifacts.
"""
from __future__ import annotations

import os
import pickle
import shutil
import sys
import tempfile

import numpy as np

from mc import core
from props import _scenes as S

LEVEL = "model_checking"
RULE = (
    "configuration grid model type x data framework {torch_dataset, torch_dataset_np_chunks} x tracking {off, on(offline)} "
    "(API key present in both) x checkpointing x config object {plain YAML-loaded, structured builder-made}; for each, "
    "every prefix of the ordered log of file-system mutations (open-for-write, rename/replace, remove, rmdir, mkdir) of "
    "the real trainer construction + 1-step training run is a crash point whose directory state is scanned for the key; "
    "states = crash points examined; transitions = file-system mutation events; a run is non-trivial when it logged >= 3 "
    "config writes; distinct = distinct (configuration, event index)"
)
ASSUMPTIONS = [
    "a file opened for writing is truncated/created first, so the content visible at a crash inside a write is a prefix of a later observed content; a prefix of a key-free byte string is key-free; hence scanning every inter-operation state plus the final state covers torn writes, unless the key is split across two files",
    "file-system mutations made by the wandb service process (a separate process in offline mode) are not intercepted; their effect is observed at this process's next event and in the final scan (after wandb.finish())",
    "environment answer owned by the harness: psutil.virtual_memory().available is forced to 0 in the 'mem: low' runs, which makes the in-memory framework fall back to .npz chunk files under the current directory (the run's cwd is a scratch directory that is observed and checked for left-over chunks)",
    "litdata is outside the property's quantifier; 1 epoch / 1 training step; CPU; miniature UNet (filters 4, max_stride 8)",
    "seed, lr_scheduler and early_stopping are set (as the builders and the shipped YAMLs always do)",
]

KEY = "VERIF-SECRET-9f3a7c21e5b84d06"
KEYB = KEY.encode()
MODEL_TYPES = ["single_instance", "centered_instance", "centroid", "bottomup"]

# ---------------------------------------------------------------------------
# observer

_OBS = {"on": False, "roots": [], "events": [], "leaks": [], "scans": 0, "installed": False, "busy": False}
_WRITE_EVENTS = {"os.rename", "os.remove", "os.rmdir", "os.mkdir", "shutil.rmtree", "os.truncate", "shutil.move", "shutil.copyfile"}


def _under(path):
    try:
        p = os.fspath(path)
    except TypeError:
        return False
    if isinstance(p, bytes):
        p = p.decode(errors="ignore")
    p = os.path.abspath(p)
    return any(p.startswith(r) for r in _OBS["roots"])


def scan(tag):
    """Scan every regular file under the roots for the key bytes; record leaks with the crash point."""
    _OBS["scans"] += 1
    found = []
    for r in _OBS["roots"]:
        for dp, dn, fn in os.walk(r):
            for f in fn:
                p = os.path.join(dp, f)
                try:
                    with open(p, "rb") as fh:
                        data = fh.read()
                except OSError:
                    continue
                if KEYB in data:
                    found.append(os.path.relpath(p, r))
    if found:
        _OBS["leaks"].append({"crash_point": len(_OBS["events"]), "before_event": tag, "files": sorted(found)})


def _hook(event, args):
    if not _OBS["on"] or _OBS["busy"]:
        return
    try:
        if event == "open":
            path, mode, flags = args
            if isinstance(path, int) or path is None:
                return
            writing = (mode is not None and any(c in str(mode) for c in "wax+")) or (
                isinstance(flags, int) and flags & (os.O_WRONLY | os.O_RDWR | os.O_CREAT | os.O_TRUNC | os.O_APPEND)
            )
            if not writing or not _under(path):
                return
            tag = f"open({os.path.basename(os.fspath(path))},{mode})"
        elif event in _WRITE_EVENTS:
            if not any(_under(a) for a in args if isinstance(a, (str, bytes, os.PathLike))):
                return
            tag = event + "(" + ",".join(os.path.basename(os.fspath(a)) for a in args if isinstance(a, (str, bytes, os.PathLike))) + ")"
        else:
            return
        _OBS["busy"] = True
        try:
            scan(tag)  # state left by all previous operations = crash point before this one
            _OBS["events"].append(tag)
        finally:
            _OBS["busy"] = False
    except Exception:
        _OBS["busy"] = False


def observer_start(roots):
    if not _OBS["installed"]:
        sys.addaudithook(_hook)
        _OBS["installed"] = True
    _OBS.update(on=True, roots=[os.path.abspath(r) + os.sep for r in roots], events=[], leaks=[], scans=0)


def observer_stop():
    _OBS["on"] = False


# ---------------------------------------------------------------------------
# scene + configs


def make_data(tmp, n_animals=2):
    sk = S.make_skeleton(3, edges=[(0, 1), (1, 2)])
    frames = []
    for f in range(2):
        animals = [np.array([[14.0 + f, 16.0], [24.0, 20.0 + f], [18.0, 30.0]]), np.array([[44.0, 40.0 + f], [52.0, 46.0], [46.0 + f, 54.0]])]
        animals = animals[:n_animals]
        frames.append({"image": S.render(64, 64, animals, radius=3.0), "instances": animals})
    return S.write_labels(tmp, frames, sk, name="train", embed=True)


def head_cfg(mt):
    if mt == "single_instance":
        return {"single_instance": {"confmaps": {"part_names": None, "sigma": 1.5, "output_stride": 2}}}
    if mt == "centroid":
        return {"centroid": {"confmaps": {"anchor_part": None, "sigma": 1.5, "output_stride": 2}}}
    if mt == "centered_instance":
        return {"centered_instance": {"confmaps": {"part_names": None, "anchor_part": None, "sigma": 1.5, "output_stride": 2}}}
    return {
        "bottomup": {
            "confmaps": {"part_names": None, "sigma": 1.5, "output_stride": 2, "loss_weight": 1.0},
            "pafs": {"edges": None, "sigma": 4.0, "output_stride": 4, "loss_weight": 1.0},
        }
    }


def build_config(case, tmp, slp):
    from omegaconf import OmegaConf

    from sleap_nn.config.training_job_config import TrainingJobConfig
    from sleap_nn.train import get_data_config, get_model_config, get_trainer_config

    out = os.path.join(tmp, "out")
    chunks = os.path.join(tmp, "chunks")
    d = get_data_config(
        train_labels_path=slp,
        val_labels_path=slp,
        data_pipeline_fw=case["fw"],
        np_chunks_path=chunks if case["fw"].endswith("np_chunks") else None,
        delete_chunks_after_training=True,
        crop_hw=(32, 32) if case["model"] == "centered_instance" else None,
        min_crop_size=None,
    )
    m = get_model_config(
        backbone_config={"unet": {"filters": 4, "filters_rate": 2, "max_stride": 8, "output_stride": 2}},
        head_configs=head_cfg(case["model"]),
    )
    t = get_trainer_config(
        batch_size=1,
        num_workers=0,
        trainer_num_devices=1,
        trainer_accelerator="cpu",
        steps_per_epoch=1,
        max_epochs=1,
        seed=7,
        use_wandb=case["wandb"],
        wandb_api_key=KEY,
        wandb_mode="offline",
        wandb_project="verif",
        wandb_name="run",
        save_ckpt=case["ckpt"],
        save_ckpt_path=out,
        lr_scheduler="reduce_lr_on_plateau",
        early_stopping=True,
        early_stopping_patience=2,
    )
    cfg = TrainingJobConfig(data_config=d, model_config=m, trainer_config=t).to_sleap_nn_cfg()
    if case.get("val_bs"):  # a validation batch size larger than the validation set (2 labelled frames)
        cfg.trainer_config.val_data_loader.batch_size = int(case["val_bs"])
    if case["kind"].startswith("plain"):
        y = os.path.join(tmp, "user_config.yaml")
        OmegaConf.save(cfg, y)
        cfg = OmegaConf.load(y)  # plain YAML-loaded DictConfig (no schema attached)
        if case["kind"] == "plain-null":
            # a hand-written YAML leaves optional values unset (as the shipped sample configs and the repo's own test
            # fixture do): the trainer fills them in later, the INITIAL file must still show what was supplied
            cfg.data_config.preprocessing.scale = None
    return cfg, out, chunks


def blank(container, key=KEY):
    """Copy of a plain container with the api key blanked (both '' and None count as blank)."""
    import copy

    c = copy.deepcopy(container)
    try:
        w = c["trainer_config"]["wandb"]
        if w.get("api_key") in ("", None, key):
            w["api_key"] = ""
    except Exception:
        pass
    return c


def walk_has_key(o, depth=0):
    if depth > 12:
        return False
    if isinstance(o, (str, bytes)):
        return (KEY in o) if isinstance(o, str) else (KEYB in o)
    if isinstance(o, dict):
        return any(walk_has_key(k, depth + 1) or walk_has_key(v, depth + 1) for k, v in o.items())
    if isinstance(o, (list, tuple, set)):
        return any(walk_has_key(v, depth + 1) for v in o)
    try:
        from omegaconf import DictConfig, ListConfig, OmegaConf

        if isinstance(o, (DictConfig, ListConfig)):
            return walk_has_key(OmegaConf.to_container(o, resolve=False), depth + 1)
    except Exception:
        pass
    return False


def run_case(case):
    """Execute one configuration. Returns dict(errors=[...], events=[...], n_crash_points, leaks)."""
    import torch
    from omegaconf import OmegaConf

    from sleap_nn.config.training_job_config import verify_training_cfg
    from sleap_nn.training.model_trainer import ModelTrainer

    os.environ["WANDB_MODE"] = "offline"
    os.environ["WANDB_SILENT"] = "true"
    os.environ.pop("WANDB_API_KEY", None)
    tmp = tempfile.mkdtemp(prefix="verif_c19_")
    os.environ["WANDB_DIR"] = tmp
    os.environ["WANDB_CACHE_DIR"] = os.path.join(tmp, "wcache")
    os.environ["WANDB_CONFIG_DIR"] = os.path.join(tmp, "wconfig")
    os.environ["WANDB_DATA_DIR"] = os.path.join(tmp, "wdata")
    errors = []
    res = {"errors": errors, "events": [], "leaks": [], "crash_points": 0, "files": []}
    try:
        slp = make_data(tmp, 1 if case["model"] == "single_instance" else 2)  # single-instance labels hold one animal
        cfg, out, chunks = build_config(case, tmp, slp)
        supplied = OmegaConf.to_container(verify_training_cfg(cfg.copy()), resolve=True)
        os.makedirs(out, exist_ok=True)
        # environment answer "available memory": with too little RAM the trainer silently falls back from the
        # in-memory cache to .npz chunk files written under the CURRENT directory (./train_chunks, ./val_chunks)
        cwd_chunks = os.path.join(tmp, "cwd")
        os.makedirs(cwd_chunks, exist_ok=True)
        old_cwd = os.getcwd()
        os.chdir(cwd_chunks)
        import types

        import sleap_nn.training.model_trainer as MT

        real_vm = MT.psutil.virtual_memory
        if case.get("mem") == "low":
            MT.psutil.virtual_memory = lambda: types.SimpleNamespace(available=0)
        observer_start([out, chunks, os.path.join(tmp, "wandb"), cwd_chunks])
        trainer = None
        try:
            try:
                trainer = ModelTrainer(cfg)
            except Exception as e:
                errors.append(f"ModelTrainer(config) raised {type(e).__name__}: {str(e)[:300]}")
            if trainer is not None:
                scan("after-construction")
                # initial_config.yaml = the supplied configuration (normalised), key blanked
                p = os.path.join(out, "initial_config.yaml")
                if not os.path.exists(p):
                    errors.append("initial_config.yaml missing after construction")
                else:
                    init = OmegaConf.to_container(OmegaConf.load(p), resolve=True)
                    if init.get("trainer_config", {}).get("wandb", {}).get("api_key") not in ("", None):
                        errors.append("initial_config.yaml: api_key is not blanked")
                    if blank(init) != blank(supplied):
                        diff = [k for k in ("data_config", "model_config", "trainer_config") if blank(init).get(k) != blank(supplied).get(k)]
                        errors.append(f"initial_config.yaml differs from the supplied configuration in {diff}")
                # history: "runs": 2 calls train() a second time on the same trainer object (continuing a run); every
                # call is a training run of the property and has to complete and leave the same artifacts
                for run_no in range(case.get("runs", 1)):
                    try:
                        trainer.train()
                    except BaseException as e:
                        errors.append(f"train() call {run_no + 1} raised {type(e).__name__}: {str(e)[:300]}")
                        break
                    scan(f"after-train-{run_no + 1}")
                try:
                    import wandb

                    if wandb.run is not None:
                        wandb.finish()
                except Exception:
                    pass
        finally:
            scan("final")
            observer_stop()
            MT.psutil.virtual_memory = real_vm
            os.chdir(old_cwd)
        res["events"] = list(_OBS["events"])
        res["leaks"] = list(_OBS["leaks"])
        res["crash_points"] = _OBS["scans"]
        for l in _OBS["leaks"][:1]:
            errors.append(
                f"API key on disk at crash point {l['crash_point']} (state before {l['before_event']}): files {l['files']}"
                f" [{len(_OBS['leaks'])} of {_OBS['scans']} crash points expose it]"
            )
        if trainer is not None and not any("raised" in e for e in errors):
            files = []
            for dp, dn, fn in os.walk(out):
                for f in fn:
                    files.append(os.path.relpath(os.path.join(dp, f), out))
            res["files"] = sorted(files)
            p = os.path.join(out, "training_config.yaml")
            if not os.path.exists(p):
                errors.append("training_config.yaml missing at exit")
            else:
                final = OmegaConf.to_container(OmegaConf.load(p), resolve=True)
                used = OmegaConf.to_container(trainer.config, resolve=True)
                if final.get("trainer_config", {}).get("wandb", {}).get("api_key") not in ("", None):
                    errors.append("training_config.yaml: api_key is not blanked")
                if blank(final) != blank(used):
                    errors.append("final training_config.yaml differs from the configuration actually used (trainer.config)")
            ckpts = [f for f in files if f.endswith(".ckpt")]
            if case["ckpt"] and not ckpts:
                errors.append("checkpointing on but no .ckpt file was written")
            if not case["ckpt"] and ckpts:
                errors.append(f"checkpointing off but checkpoint files exist: {ckpts}")
            for c in ckpts:
                try:
                    ck = torch.load(os.path.join(out, c), map_location="cpu", weights_only=False)
                    if walk_has_key(ck.get("config")) or walk_has_key({k: v for k, v in ck.items() if k in ("hyper_parameters", "hparams_name")}):
                        errors.append(f"checkpoint {c} carries the API key in its stored config")
                except Exception as e:
                    errors.append(f"checkpoint {c} cannot be loaded: {type(e).__name__}: {str(e)[:200]}")
            if case["fw"].endswith("np_chunks") or case.get("mem") == "low":
                left = []
                for root in (chunks, cwd_chunks):
                    for dp, dn, fn in os.walk(root):
                        left += [os.path.join(dp, f) for f in fn if f.endswith(".npz")]
                if left:
                    errors.append(f"chunk deletion was requested but {len(left)} .npz chunk files remain")
                for root in (chunks, cwd_chunks):
                    for sub in ("train_chunks", "val_chunks"):
                        if os.path.isdir(os.path.join(root, sub)) and (case["fw"].endswith("np_chunks") or root == cwd_chunks):
                            errors.append(f"chunk deletion was requested but directory {sub} remains")
                if case.get("mem") == "low" and not any("npz" in e or "chunks" in e for e in _OBS["events"]):
                    errors.append("HARNESS: the low-memory answer did not make the trainer write chunk files (seam lost?)")
        if case.get("second") and trainer is not None and not errors:
            # history: a SECOND trainer is constructed for the same output folder with a different configuration (what a
            # resumed / continued run does: resume_ckpt_path set, more epochs); its initial_config.yaml must describe the
            # configuration supplied NOW, and the key must still be on no file
            cfg2 = cfg.copy()
            cfg2.trainer_config.resume_ckpt_path = os.path.join(out, "last.ckpt")
            cfg2.trainer_config.max_epochs = 2
            supplied2 = OmegaConf.to_container(verify_training_cfg(cfg2.copy()), resolve=True)
            os.chdir(cwd_chunks)
            try:
                ModelTrainer(cfg2)
            except Exception as e:
                errors.append(f"second ModelTrainer(config) for the same folder raised {type(e).__name__}: {str(e)[:200]}")
            finally:
                os.chdir(old_cwd)
            if not errors:
                init2 = OmegaConf.to_container(OmegaConf.load(os.path.join(out, "initial_config.yaml")), resolve=True)
                if blank(init2) != blank(supplied2):
                    d2 = [k for k in ("data_config", "model_config", "trainer_config") if blank(init2).get(k) != blank(supplied2).get(k)]
                    errors.append(f"second trainer in the same folder: initial_config.yaml differs from the configuration supplied to it in {d2} (resume_ckpt_path recorded: {init2.get('trainer_config', {}).get('resume_ckpt_path')!r})")
                for dp, dn, fn in os.walk(out):
                    for f in fn:
                        try:
                            if KEY.encode() in open(os.path.join(dp, f), "rb").read():
                                errors.append(f"second trainer in the same folder: API key found in {os.path.relpath(os.path.join(dp, f), out)}")
                        except OSError:
                            pass
    finally:
        observer_stop()
        shutil.rmtree(tmp, ignore_errors=True)
    return res


def grid(tier):
    cases = []
    for mi, mt in enumerate(MODEL_TYPES):
        for fw in ("torch_dataset", "torch_dataset_np_chunks"):
            for wb in (False, True):
                for ck in (True, False):
                    for kind in ("plain", "structured"):
                        cases.append({"model": mt, "fw": fw, "wandb": wb, "ckpt": ck, "kind": kind})
    # environment answer "insufficient memory" (in-memory framework falls back to chunk files)
    lowmem = [{"model": MODEL_TYPES[i % 4], "fw": "torch_dataset", "wandb": wb, "ckpt": ck, "kind": kind, "mem": "low"}
              for i, (wb, ck, kind) in enumerate([(False, True, "plain"), (True, False, "structured"), (False, False, "structured"), (True, True, "plain")])]
    if tier != "quick":
        lowmem = [{"model": mt, "fw": "torch_dataset", "wandb": wb, "ckpt": True, "kind": kind, "mem": "low"} for mt in MODEL_TYPES for wb in (False, True) for kind in ("plain", "structured")]
    # history: two training runs on one trainer object (state kept on the trainer between runs)
    twice = [{"model": MODEL_TYPES[i % 4], "fw": fw, "wandb": wb, "ckpt": True, "kind": kind, "runs": 2}
             for i, (fw, wb, kind) in enumerate([("torch_dataset_np_chunks", False, "plain"), ("torch_dataset", True, "structured")])]
    if tier != "quick":
        twice = [{"model": mt, "fw": fw, "wandb": wb, "ckpt": True, "kind": "plain", "runs": 2} for mt in MODEL_TYPES for fw in ("torch_dataset", "torch_dataset_np_chunks") for wb in (False, True)]
    lowmem = lowmem + twice
    # plain configurations that leave optional values null
    sparse = [{"model": MODEL_TYPES[(i + 1) % 4], "fw": fw, "wandb": wb, "ckpt": True, "kind": "plain-null"} for i, (fw, wb) in enumerate([("torch_dataset", True), ("torch_dataset_np_chunks", False)])]
    if tier != "quick":
        sparse = [{"model": mt, "fw": fw, "wandb": wb, "ckpt": True, "kind": "plain-null"} for mt in MODEL_TYPES for fw in ("torch_dataset", "torch_dataset_np_chunks") for wb in (False, True)]
    lowmem = lowmem + sparse
    # history: a second trainer constructed for the same output folder (continued / resumed run)
    again = [{"model": MODEL_TYPES[(i + 2) % 4], "fw": "torch_dataset", "wandb": wb, "ckpt": True, "kind": kind, "second": True} for i, (wb, kind) in enumerate([(False, "plain"), (True, "structured")])]
    if tier != "quick":
        again = [{"model": mt, "fw": fw, "wandb": wb, "ckpt": True, "kind": "plain", "second": True} for mt in MODEL_TYPES for fw in ("torch_dataset", "torch_dataset_np_chunks") for wb in (False, True)]
    lowmem = lowmem + again
    # a validation set smaller than the validation batch size (checkpointing monitors the validation loss)
    smallval = [{"model": MODEL_TYPES[(i + 3) % 4], "fw": fw, "wandb": False, "ckpt": True, "kind": kind, "val_bs": 4} for i, (fw, kind) in enumerate([("torch_dataset", "structured"), ("torch_dataset_np_chunks", "plain")])]
    if tier != "quick":
        smallval = [{"model": mt, "fw": fw, "wandb": False, "ckpt": True, "kind": "plain", "val_bs": 4} for mt in MODEL_TYPES for fw in ("torch_dataset", "torch_dataset_np_chunks")]
    lowmem = lowmem + smallval
    if tier == "quick":
        # pairwise-complete 16-run sub-grid: all fw x wandb x ckpt x kind combinations, model types alternating
        out = []
        combos = [(fw, wb, ck, kind) for fw in ("torch_dataset", "torch_dataset_np_chunks") for wb in (False, True) for ck in (True, False) for kind in ("plain", "structured")]
        for i, (fw, wb, ck, kind) in enumerate(combos):
            out.append({"model": MODEL_TYPES[(i + i // 4) % 4], "fw": fw, "wandb": wb, "ckpt": ck, "kind": kind})
        return out + lowmem
    return cases + lowmem


def work(part, shard):
    import logging

    logging.getLogger("lightning.pytorch").setLevel(logging.ERROR)
    logging.getLogger("lightning").setLevel(logging.ERROR)
    from loguru import logger

    logger.remove()
    for case in shard:
        # Lightning / rich / wandb print progress tables: silence fds 1 and 2 for the duration of the run
        sys.stdout.flush()
        sys.stderr.flush()
        saved = os.dup(1), os.dup(2)
        devnull = os.open(os.devnull, os.O_WRONLY)
        os.dup2(devnull, 1)
        os.dup2(devnull, 2)
        try:
            res = run_case(case)
        except Exception as e:
            os.dup2(saved[0], 1)
            os.dup2(saved[1], 2)
            import traceback

            part.violation(case, f"harness/run raised {type(e).__name__}: {e}\n{traceback.format_exc()[-800:]}")
            continue
        finally:
            sys.stdout.flush()
            sys.stderr.flush()
            os.dup2(saved[0], 1)
            os.dup2(saved[1], 2)
            for fd in (saved[0], saved[1], devnull):
                os.close(fd)
        part.count()
        part.transition(len(res["events"]))
        ck = core.digest(case)
        for i in range(res["crash_points"]):
            part.state(f"{ck}:{i}")
        nwrites = sum(1 for e in res["events"] if "config.yaml" in e)
        if nwrites >= 3:
            part.nontriv(ck)
        part.add("crash_points_examined", res["crash_points"])
        part.add("fs_events", len(res["events"]))
        part.outcome(repr((sorted(set(os.path.basename(f) for f in res["files"] if not f.startswith("wandb"))), bool(res["errors"]))))
        part.sample({"case": case, "events": res["events"][:40], "files": res["files"][:20]}, nwrites >= 3)
        if res["errors"]:
            part.violation(case, " | ".join(res["errors"]))


def run(ctx):
    core.setup_torch()
    cases = grid(ctx.tier)
    ctx.bounds = {"runs": len(cases), "grid": "model type x framework x tracking x checkpointing x config kind" + (" (16-run sub-grid covering every framework x tracking x checkpointing x kind combination)" if ctx.tier == "quick" else " (full 64)")}
    cases = core.rotate(cases, ctx.seed)
    core.pmap(ctx, work, [[c] for c in cases], procs=8)


def replay(case):
    core.setup_torch()
    from loguru import logger

    logger.remove()
    res = run_case(case)
    return {"violates": bool(res["errors"]), "errors": res["errors"], "events": res["events"], "leaks": res["leaks"][:5], "files": res["files"]}
