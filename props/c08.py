"""C08 -- PAF peak grouping is total and yields a partition.

E1, staged.  Every stage drives the real code of sleap_nn/inference/paf_grouping.py on a
completely enumerated input space and compares against reference models written in plain
Python (brute-force one-to-one assignment, union-find components):

  stage 1  match_candidates_sample   score matrices x candidate orderings x index layouts
  stage 2  group_instances_sample    trees x edge listings x peak counts x match sets x thresholds
  stage 3  PAFScorer.predict         peaks (coincident, outside the PAF extent, none) x PAF fields
                                     x batch layouts x scorer parameters, end to end

Edge order (parent before child) is property C17; here trees are listed in arbitrary edge order
and the real `PAFScorer.sorted_edge_inds` is relied upon.
"""
from __future__ import annotations

import itertools
import math

import numpy as np

from mc import core

LEVEL = "model_checking"
RULE = (
    "stage 1: every score matrix n_src x n_dst (n<=3) over the score alphabet incl. NaN, every ordering/index layout "
    "get_connection_candidates can emit, 1-2 edge types -> match_candidates_sample; non-trivial when the matrix has a NaN "
    "cell or at least two complete assignments with different totals.  stage 2: every rooted labelled tree (n<=4) x every "
    "edge listing x 0..2 peaks per node x every one-to-one match set x scores x min_line_scores x min_instance_peaks -> "
    "group_instances_sample; non-trivial when an instance spans >=2 accepted matches or a match/instance is rejected.  "
    "stage 3: peaks per node (0..2 of a position alphabet, coincident across node types, outside the PAF extent) x 8 PAF "
    "fields x batch layouts (alone, with the next case, behind an empty frame) x scorer parameters -> PAFScorer.predict; "
    "non-trivial when the frame yields an instance or a NaN line score.  distinct = distinct enumerated input."
)
ASSUMPTIONS = [
    "skeletons are trees written parent->child with <= 4 node types, <= 2 peaks per node type (<= 3 for single-edge score matrices); larger inputs are outside the bound",
    "'arbitrary PAF tensors' are 8 structured 8x8 fields (zero, constant +-x, +-y, ideal field of the identity / crossed pairing, checkerboard of signs) and 4 of them again on non-square 6x10 / 10x6 grids (peak positions then lie beyond the shorter axis); scores reach match_candidates_sample / group_instances_sample directly from finite alphabets in stages 1-2",
    "'maximise the total line score among one-to-one assignments' is read as: among complete one-to-one assignments (min(n_src,n_dst) pairs) that avoid NaN-scored pairs; when every complete assignment contains a NaN-scored pair only the structural clauses are required (one-to-one, valid indices, no NaN-scored pair, reported score = candidate score)",
    "line scores returned by PAFScorer.predict are taken as given in stage 3 (the line integral itself is not part of C08)",
    "parent-before-child edge order is C17: the real PAFScorer.sorted_edge_inds is passed to group_instances_sample",
    "stage 2 with n = 4 uses two score patterns (all 1.0 / cyclic 0.25, 1.0, -0.5) and 4 (min_line_scores, min_instance_peaks) pairs instead of the full score x threshold product, which is completed for n <= 3",
]
KNOWN_PREDICATES = {}
MIN_OUTCOMES = 50

NAN = float("nan")
TOL = 1e-5


def f32(x):
    return float(np.float32(x))


# ---------------------------------------------------------------------------
# reference models (plain Python, no torch, nothing taken from paf_grouping.py)


def complete_assignments(ns, nd):
    """All complete one-to-one assignments of an ns x nd grid as tuples of (i, j)."""
    if ns == 0 or nd == 0:
        return [()]
    if ns <= nd:
        return [tuple((i, p[i]) for i in range(ns)) for p in itertools.permutations(range(nd), ns)]
    return [tuple(sorted((p[j], j) for j in range(nd))) for p in itertools.permutations(range(ns), nd)]


def partial_assignments(ns, nd, usable):
    """All one-to-one pair sets (any size) over the usable cells."""
    cells = [(i, j) for i in range(ns) for j in range(nd) if usable(i, j)]
    out = []
    for r in range(0, min(ns, nd) + 1):
        for sub in itertools.combinations(cells, r):
            if len({i for i, _ in sub}) == r and len({j for _, j in sub}) == r:
                out.append(tuple(sub))
    return out


def ref_best(S):
    """Reference for one edge type.

    Returns (has_complete, optimum, admissible) where `admissible` is the list of pair sets the
    property allows: the optimal NaN-free complete assignments when one exists, otherwise every
    one-to-one set of non-NaN pairs.
    """
    ns = len(S)
    nd = len(S[0]) if ns else 0
    clean = []
    for a in complete_assignments(ns, nd):
        if all(not math.isnan(S[i][j]) for i, j in a):
            clean.append((sum(S[i][j] for i, j in a), a))
    if clean:
        opt = max(t for t, _ in clean)
        return True, opt, [a for t, a in clean if abs(t - opt) <= 1e-9], len({round(t, 9) for t, _ in clean})
    return False, None, partial_assignments(ns, nd, lambda i, j: not math.isnan(S[i][j])), 0


def ref_group(n_nodes, edges, matches, mls, mip):
    """Union-find reference: instances = connected components of the accepted matches.

    matches: list of (edge index, src rank, dst rank, score).  Returns a sorted list of
    (tuple(sorted((node, rank))), instance score).
    """
    parent = {}

    def find(x):
        while parent[x] != x:
            parent[x] = parent[parent[x]]
            x = parent[x]
        return x

    acc = [(e, i, j, s) for e, i, j, s in matches if (not math.isnan(s)) and s >= mls]
    for e, i, j, s in acc:
        for p in ((edges[e][0], i), (edges[e][1], j)):
            parent.setdefault(p, p)
    for e, i, j, s in acc:
        a, b = find((edges[e][0], i)), find((edges[e][1], j))
        if a != b:
            parent[a] = b
    comps = {}
    for p in parent:
        comps.setdefault(find(p), [set(), 0.0])[0].add(p)
    for e, i, j, s in acc:
        comps[find((edges[e][0], i))][1] += s
    if isinstance(mip, float):
        thr = mip * n_nodes
    else:
        thr = mip
    out = []
    for peaks, score in comps.values():
        nodes = [k for k, _ in peaks]
        if len(set(nodes)) != len(nodes):
            raise AssertionError("reference: component with two peaks of one node type (input is not a tree matching)")
        if thr > 0 and len(peaks) < thr:
            continue
        out.append((tuple(sorted(peaks)), score))
    return sorted(out)


def decode_instances(n_nodes, table, inst, pscore, iscore):
    """Map the arrays returned by sleap-nn back to input peaks.  Returns (error, instances)."""
    inst = np.asarray(inst)
    pscore = np.asarray(pscore)
    iscore = np.asarray(iscore)
    if inst.ndim != 3 or inst.shape[1:] != (n_nodes, 2):
        return f"instances have shape {inst.shape}, expected (n_instances, {n_nodes}, 2)", None
    m = inst.shape[0]
    if pscore.shape != (m, n_nodes) or iscore.shape != (m,):
        return f"peak scores {pscore.shape} / instance scores {iscore.shape} do not match {m} instances x {n_nodes} nodes", None
    out = []
    used = {}
    for a in range(m):
        peaks = []
        for k in range(n_nodes):
            x, y, v = float(inst[a, k, 0]), float(inst[a, k, 1]), float(pscore[a, k])
            if math.isnan(x) and math.isnan(y) and math.isnan(v):
                continue
            hit = [r for r, (px, py, pv) in enumerate(table[k]) if px == x and py == y and pv == v]
            if len(hit) != 1:
                return (
                    f"instance {a} node {k}: keypoint ({x}, {y}) score {v} is not an input peak of that node type carrying its score "
                    f"(peaks of node {k}: {table[k]})",
                    None,
                )
            p = (k, hit[0])
            if p in used:
                return f"peak {p} appears in instances {used[p]} and {a}", None
            used[p] = a
            peaks.append(p)
        if not peaks:
            return f"instance {a} has no keypoint at all", None
        out.append((tuple(sorted(peaks)), float(iscore[a])))
    return None, sorted(out)


def same_instances(actual, expected):
    if [p for p, _ in actual] != [p for p, _ in expected]:
        return False
    return all(abs(a - e) <= TOL + TOL * abs(e) for (_, a), (_, e) in zip(actual, expected))


def fmt_inst(lst):
    return "[" + "; ".join(f"{list(p)} score={s:.6g}" for p, s in lst) + "]"


# ---------------------------------------------------------------------------
# small recorder: coverage bookkeeping without paying jsonable() for every case


class Rec:
    def __init__(self, part):
        self.part = part
        self.first = True
        self.had_nt = False
        self.last = None

    def case(self, key, nontrivial, mk_case):
        p = self.part
        p.count()
        p.state(key)
        if nontrivial:
            p.nontriv(key)
        if self.first:
            p.sample(mk_case(), nontrivial)
            self.first = False
            self.had_nt = self.had_nt or nontrivial
        elif nontrivial and not self.had_nt:
            p.sample(mk_case(), True)
            self.had_nt = True
        self.last = (mk_case, nontrivial)

    def close(self):
        if self.last is not None:
            mk, nt = self.last
            self.part.sample(mk(), False)


_VIOL_PER_ITEM = 3
_viol_count = [0]


def new_item():
    _viol_count[0] = 0


def viol(part, case, msg):
    """Store at most _VIOL_PER_ITEM replayable records per work item (so that the reported replays come from
    different stages / items); every further violating case is still counted."""
    if _viol_count[0] < _VIOL_PER_ITEM or getattr(core, "_KNOWN", None):
        part.violation(case, msg)
    else:
        part.n_viol += 1
    _viol_count[0] += 1


def okey(*a):
    return hash(a) & 0xFFFFFFFFFFFFFFF


def _nn(x):
    return None if isinstance(x, float) and math.isnan(x) else x


# ---------------------------------------------------------------------------
# stage 1: match_candidates_sample

S1_ALPHA = (-0.5, 0.0, f32(0.3), f32(0.7), NAN)
S1_ALPHA_33_QUICK = (-0.5, f32(0.7), NAN)
S1_ALPHA_33_THOROUGH = (-0.5, f32(0.3), f32(0.7), NAN)
S1_ALPHA_2E_QUICK = (f32(0.3), f32(0.7), NAN)
S1_ALPHA_2E_THOROUGH = (-0.5, f32(0.3), f32(0.7), NAN)

S1B_SKELETONS = {
    1: [[(0, 1)], [(1, 0)]],
    2: [[(0, 1), (1, 2)], [(1, 2), (0, 1)], [(0, 1), (0, 2)], [(2, 1), (1, 0)], [(1, 0), (1, 2)]],
}


def s1_pattern(pat, k, ns, nd):
    S = [[0.0] * nd for _ in range(ns)]
    for i in range(ns):
        for j in range(nd):
            if pat in (0, 2):
                hi = i == j
            else:
                hi = j == (i + 1) % nd if nd > 1 else True
            S[i][j] = 0.75 - 0.0625 * (i + 2 * j) + 0.015625 * k if hi else 0.125 + 0.03125 * (3 * i + j) + 0.015625 * k
    if pat == 2 and ns and nd:
        S[0][0] = NAN
    return S


def s1_tensors(case):
    import torch

    edges = [tuple(e) for e in case["edges"]]
    channels = case["channels"]
    order = case["order"]  # per node: the order in which its global peak indices are emitted
    rank = {}
    for k in range(len(order)):
        for r, g in enumerate(sorted(order[k])):
            rank[g] = r
    ei, epi, ls = [], [], []
    for k, (u, v) in enumerate(edges):
        S = case["S"][k]
        for gs in order[u]:
            for gd in order[v]:
                ei.append(k)
                epi.append((gs, gd))
                ls.append(S[rank[gs]][rank[gd]])
    return (
        torch.tensor(ei, dtype=torch.int32),
        torch.tensor(epi, dtype=torch.int64).reshape(-1, 2),
        torch.tensor(ls, dtype=torch.float32),
        len(edges),
    )


def s1_oracle(Ss, out):
    """Returns (error or None, outcome key)."""
    try:
        me, ms, md, msc = [np.asarray(t.detach().cpu().numpy() if hasattr(t, "detach") else t) for t in out]
    except Exception as e:
        return f"result is not four arrays: {type(e).__name__}: {e}", None
    if not (me.shape == ms.shape == md.shape == msc.shape and me.ndim == 1):
        return f"result arrays have shapes {me.shape} {ms.shape} {md.shape} {msc.shape}", None
    if len(me) and (me.min() < 0 or me.max() >= len(Ss)):
        return f"match_edge_inds {me.tolist()} outside 0..{len(Ss) - 1}", None
    key = []
    for k, S in enumerate(Ss):
        ns = len(S)
        nd = len(S[0]) if ns else 0
        sel = np.nonzero(me == k)[0]
        pairs = [(int(ms[a]), int(md[a])) for a in sel]
        scores = [float(msc[a]) for a in sel]
        key.append((tuple(pairs), tuple(_nn(s) for s in scores)))
        for (i, j), s in zip(pairs, scores):
            if not (0 <= i < ns and 0 <= j < nd):
                return f"edge {k}: match ({i},{j}) does not index the edge-grouped peaks ({ns} src, {nd} dst)", key
            if math.isnan(S[i][j]):
                return f"edge {k}: NaN-scored candidate ({i},{j}) was matched (reported score {s})", key
            if s != f32(S[i][j]):
                return f"edge {k}: match ({i},{j}) reports score {s}, candidate score is {S[i][j]}", key
        if len({i for i, _ in pairs}) != len(pairs) or len({j for _, j in pairs}) != len(pairs):
            return f"edge {k}: matches {pairs} are not one-to-one", key
        has, opt, _, _ = ref_best(S)
        if has:
            if len(pairs) != min(ns, nd):
                return f"edge {k}: {len(pairs)} matches {pairs}, a NaN-free complete assignment of {min(ns, nd)} pairs exists (scores {S})", key
            tot = sum(S[i][j] for i, j in pairs)
            if abs(tot - opt) > 1e-6:
                return f"edge {k}: matches {pairs} total {tot:.6g}, brute-force optimum over complete one-to-one assignments is {opt:.6g} (scores {S})", key
    return None, tuple(key)


def s1_nontrivial(Ss):
    for S in Ss:
        if not S or not S[0]:
            continue
        if any(math.isnan(x) for row in S for x in row):
            return True
        if ref_best(S)[3] >= 2:
            return True
    return False


def s1_run(case):
    from sleap_nn.inference.paf_grouping import match_candidates_sample

    ei, epi, ls, ne = s1_tensors(case)
    try:
        out = match_candidates_sample(ei, epi, ls, ne)
    except Exception as e:
        return f"match_candidates_sample raised {type(e).__name__}: {e}", None
    return s1_oracle(case["S"], out)


def s1_exec(part, rec, case, key, nt=None):
    part.transition()
    if nt is None:
        nt = s1_nontrivial(case["S"])
    rec.case(key, nt, lambda c=case: dict(c))
    err, ok = s1_run(case)
    if err:
        viol(part, case, "stage 1 (match_candidates_sample): " + err)
        part.outcome(okey("s1err", err[:40]))
    else:
        part.outcome(okey("s1", ok))
    part.add("stage1_executions")


def work_s1a(part, item):
    """All matrices of one shape (optionally with a fixed prefix of cells), canonical ordering, one edge."""
    _, ns, nd, alpha_id, prefix = item
    alpha = {0: S1_ALPHA, 1: S1_ALPHA_33_QUICK, 2: S1_ALPHA_33_THOROUGH}[alpha_id]
    rec = Rec(part)
    rest = ns * nd - len(prefix)
    channels = [0] * ns + [1] * nd
    order = [list(range(ns)), list(range(ns, ns + nd))]
    for tail in itertools.product(range(len(alpha)), repeat=rest):
        cells = tuple(prefix) + tail
        S = [[alpha[cells[i * nd + j]] for j in range(nd)] for i in range(ns)]
        case = {"stage": 1, "family": "A", "edges": [[0, 1]], "channels": channels, "order": order, "S": [S]}
        s1_exec(part, rec, case, okey("1A", ns, nd, alpha_id, cells))
    rec.close()


def multiset_perms(counts):
    labels = [k for k, c in enumerate(counts) for _ in range(c)]
    return sorted(set(itertools.permutations(labels)))


def work_s1b(part, item):
    """Every index layout x every emitted ordering x 3 score patterns, 1-2 edge types; plus the ordering that the
    real get_connection_candidates emits for that layout."""
    import torch
    from sleap_nn.inference.paf_grouping import get_connection_candidates

    _, edges, counts = item
    n_nodes = len(counts)
    rec = Rec(part)
    for channels in multiset_perms(counts):
        glob = [[g for g, c in enumerate(channels) if c == k] for k in range(n_nodes)]
        # ordering emitted by the real candidate generator for this layout
        real_order = None
        try:
            rei, repi = get_connection_candidates(torch.tensor(channels, dtype=torch.int32), list(edges), n_nodes)
            part.transition()
            got = sorted((int(k), int(a), int(b)) for k, (a, b) in zip(rei.tolist(), repi.tolist()))
            exp = sorted((k, a, b) for k, (u, v) in enumerate(edges) for a in glob[u] for b in glob[v])
            if got != exp:
                viol(part, 
                    {"stage": 1, "family": "cand", "edges": [list(e) for e in edges], "channels": list(channels)},
                    f"stage 1 (get_connection_candidates): candidates {got} are not all src x dst pairs per edge {exp}",
                )
            else:
                real_order = []
                ok = True
                for k in range(n_nodes):
                    seqs = set()
                    for e, (u, v) in enumerate(edges):
                        rows = [(int(a), int(b)) for kk, (a, b) in zip(rei.tolist(), repi.tolist()) if kk == e]
                        if u == k and rows:
                            seq = []
                            for a, _ in rows:
                                if a not in seq:
                                    seq.append(a)
                            seqs.add(tuple(seq))
                        if v == k and rows:
                            seq = []
                            for _, b in rows:
                                if b not in seq:
                                    seq.append(b)
                            seqs.add(tuple(seq))
                    if len(seqs) > 1:
                        ok = False
                    real_order.append(list(seqs.pop()) if seqs else list(glob[k]))
                if not ok:
                    real_order = None
        except Exception as e:
            viol(part, 
                {"stage": 1, "family": "cand", "edges": [list(e) for e in edges], "channels": list(channels)},
                f"stage 1 (get_connection_candidates) raised {type(e).__name__}: {e}",
            )
        orders = [list(o) for o in itertools.product(*[list(itertools.permutations(g)) for g in glob])]
        todo = [("perm", [list(x) for x in o]) for o in orders]
        if real_order is not None:
            todo.append(("real", real_order))
        for tag, order in todo:
            for pat in (0, 1, 2):
                Ss = [s1_pattern(pat, k, counts[u], counts[v]) for k, (u, v) in enumerate(edges)]
                case = {
                    "stage": 1,
                    "family": "B",
                    "edges": [list(e) for e in edges],
                    "channels": list(channels),
                    "order": order,
                    "S": Ss,
                }
                key = okey("1B", tuple(edges), tuple(channels), tag, tuple(tuple(o) for o in order), pat)
                s1_exec(part, rec, case, key)
    rec.close()


def work_s1c(part, item):
    """Two edge types sharing node 1 (chain) or node 0 (fork): full product of both score matrices."""
    _, edges, counts, alpha_id = item
    alpha = {0: S1_ALPHA_2E_QUICK, 1: S1_ALPHA_2E_THOROUGH}[alpha_id]
    rec = Rec(part)
    shapes = [(counts[u], counts[v]) for u, v in edges]
    ncell = sum(a * b for a, b in shapes)
    start = [0]
    for c in counts:
        start.append(start[-1] + c)
    channels = [k for k, c in enumerate(counts) for _ in range(c)]
    order = [list(range(start[k], start[k + 1])) for k in range(len(counts))]
    for cells in itertools.product(range(len(alpha)), repeat=ncell):
        Ss, pos = [], 0
        for a, b in shapes:
            Ss.append([[alpha[cells[pos + i * b + j]] for j in range(b)] for i in range(a)])
            pos += a * b
        case = {"stage": 1, "family": "C", "edges": [list(e) for e in edges], "channels": channels, "order": order, "S": Ss}
        s1_exec(part, rec, case, okey("1C", tuple(edges), tuple(counts), alpha_id, cells))
    rec.close()


# ---------------------------------------------------------------------------
# stage 2: group_instances_sample

S2_MLS = (-1.0, 0.25, 0.9)
S2_MIP = (0, 2, 3, 0.5, 1.0)
S2_ALPHA = (-0.5, 0.25, 1.0)
S2B_PARAMS = {0: [(0.25, 3), (-1.0, 0)], 1: [(0.25, 1.0), (0.9, 0.5)]}  # score pattern -> (mls, mip) pairs
S2B_PATTERN = {0: (1.0,), 1: (0.25, 1.0, -0.5)}
S2B_QUICK_TREES = [
    [(2, 0), (0, 3), (3, 1)],  # chain
    [(1, 0), (1, 2), (1, 3)],  # star
    [(3, 1), (1, 0), (1, 2)],  # root - child - two grandchildren
    [(0, 2), (0, 3), (3, 1)],  # root with a leaf and a 2-chain
]


def prufer_trees(n):
    if n == 2:
        yield [(0, 1)]
        return
    for seq in itertools.product(range(n), repeat=n - 2):
        deg = [1] * n
        for s in seq:
            deg[s] += 1
        edges = []
        for s in seq:
            for leaf in range(n):
                if deg[leaf] == 1:
                    edges.append((leaf, s))
                    deg[leaf] -= 1
                    deg[s] -= 1
                    break
        u, v = [i for i in range(n) if deg[i] == 1]
        edges.append((u, v))
        yield edges


def rooted(edges, n, root):
    adj = {i: [] for i in range(n)}
    for a, b in edges:
        adj[a].append(b)
        adj[b].append(a)
    out, seen, stack = [], {root}, [root]
    while stack:
        u = stack.pop()
        for v in sorted(adj[u]):
            if v not in seen:
                seen.add(v)
                out.append((u, v))
                stack.append(v)
    return out


def all_rooted_trees(n):
    for t in prufer_trees(n):
        for r in range(n):
            yield rooted(t, n, r)


def edge_matchings(a, b):
    return partial_assignments(a, b, lambda i, j: True)


def peak_xy(node, rank):
    return (10.0 * node + 3.0 * rank + 1.5, 7.0 * rank + 2.0 * node + 0.25)


def peak_val(node, rank):
    return (1 + 2 * node + rank) / 16.0


def global_order(counts, layout):
    pk = [(k, r) for k, c in enumerate(counts) for r in range(c)]
    if layout == 1:
        pk.sort(key=lambda p: (p[1], -p[0]))
    return pk


_SCORER_CACHE = {}


def get_scorer(n_nodes, edges, **kw):
    from sleap_nn.inference.paf_grouping import PAFScorer

    key = (n_nodes, tuple(edges), tuple(sorted(kw.items())))
    sc = _SCORER_CACHE.get(key)
    if sc is None:
        names = [f"p{(5 * i + 2) % 11}" for i in range(n_nodes)]
        sc = PAFScorer(part_names=names, edges=[(names[u], names[v]) for u, v in edges], pafs_stride=2, **kw)
        if len(_SCORER_CACHE) > 256:
            _SCORER_CACHE.clear()
        _SCORER_CACHE[key] = sc
    return sc


def s2_static(n, edges, counts, layout, xy=None):
    """Tensors that do not depend on the matches: peaks, scores, channel indices, lookup table."""
    import torch

    order = global_order(counts, layout)
    xs = [(xy[k][r] if xy is not None else peak_xy(k, r)) for k, r in order]
    peaks = torch.tensor(xs, dtype=torch.float32).reshape(-1, 2)
    vals = torch.tensor([peak_val(k, r) for k, r in order], dtype=torch.float32)
    ch = torch.tensor([k for k, _ in order], dtype=torch.int32)
    table = [
        [(f32((xy[k][r] if xy is not None else peak_xy(k, r))[0]), f32((xy[k][r] if xy is not None else peak_xy(k, r))[1]), f32(peak_val(k, r))) for r in range(counts[k])]
        for k in range(n)
    ]
    return peaks, vals, ch, table


S2_REGROUP_MLS = -1.0


def s2_call(n, edges, static, matches, mls, mip):
    """Run the real group_instances_sample; returns (error, decoded instances)."""
    import torch
    from sleap_nn.inference.paf_grouping import group_instances_sample

    peaks, vals, ch, table = static
    sc = get_scorer(n, edges)
    me = torch.tensor([m[0] for m in matches], dtype=torch.int32)
    ms = torch.tensor([m[1] for m in matches], dtype=torch.int32)
    md = torch.tensor([m[2] for m in matches], dtype=torch.int32)
    sco = torch.tensor([m[3] for m in matches], dtype=torch.float32)
    try:
        inst, ps, isc = group_instances_sample(
            peaks, vals, ch, me, ms, md, sco, n, sc.sorted_edge_inds, sc.edge_types, mip, mls
        )
    except Exception as e:
        return f"group_instances_sample raised {type(e).__name__}: {e}", None
    first = decode_instances(n, table, inst, ps, isc)
    if first[0] is None and mls > S2_REGROUP_MLS and matches:
        # history of length 2 on the SAME match tensors: regroup with a more lenient threshold (a threshold sweep);
        # the second result must be the partition for that threshold, whatever was grouped before
        try:
            inst2, ps2, isc2 = group_instances_sample(
                peaks, vals, ch, me, ms, md, sco, n, sc.sorted_edge_inds, sc.edge_types, mip, S2_REGROUP_MLS
            )
        except Exception as e:
            return f"regrouping the same matches with min_line_scores={S2_REGROUP_MLS} after min_line_scores={mls} raised {type(e).__name__}: {e}", None
        err2, got2 = decode_instances(n, table, inst2, ps2, isc2)
        exp2 = ref_group(n, edges, matches, S2_REGROUP_MLS, mip)
        if err2 or not same_instances(got2, exp2):
            return (
                f"regrouping the SAME match tensors with min_line_scores={S2_REGROUP_MLS} after a call with min_line_scores={mls} gives "
                f"{err2 or fmt_inst(got2)} != connected components of the accepted matches {fmt_inst(exp2)} (state left in the inputs by the first call)",
                None,
            )
    return first


def s2_check(n, edges, static, matches, mls, mip):
    err, got = s2_call(n, edges, static, matches, mls, mip)
    exp = ref_group(n, edges, matches, mls, mip)
    if err:
        return err, None, exp
    if not same_instances(got, exp):
        return f"instances {fmt_inst(got)} != connected components of the accepted matches {fmt_inst(exp)}", got, exp
    return None, got, exp


def s2_nontrivial(matches, mls, exp):
    n_acc = sum(1 for m in matches if m[3] >= mls)
    rejected = n_acc < len(matches)
    spans = any(len(p) >= 3 for p, _ in exp)
    dropped = n_acc > 0 and sum(len(p) - 1 for p, _ in exp) < n_acc
    return bool(matches) and (spans or rejected or dropped)


def s2_case(n, edges, counts, layout, matches, mls, mip):
    return {
        "stage": 2,
        "n": n,
        "edges": [list(e) for e in edges],
        "counts": list(counts),
        "layout": layout,
        "matches": [list(m) for m in matches],
        "min_line_scores": mls,
        "min_instance_peaks": mip,
        "mip_is_float": isinstance(mip, float),
    }


def s2_exec(part, rec, n, edges, counts, layout, static, matches, mls, mip, key):
    part.transition()
    err, got, exp = s2_check(n, edges, static, matches, mls, mip)
    nt = s2_nontrivial(matches, mls, exp)
    mk = lambda: s2_case(n, edges, counts, layout, matches, mls, mip)
    rec.case(key, nt, mk)
    if err:
        viol(part, mk(), "stage 2 (group_instances_sample): " + err)
        part.outcome(okey("s2err", err[:40]))
    else:
        part.outcome(okey("s2", tuple(got)))
    part.add("stage2_executions")


def work_s2a(part, item):
    """n <= 3: full product of match sets x scores x thresholds."""
    _, n, edges, counts, layouts, alpha = item
    rec = Rec(part)
    per_edge = [edge_matchings(counts[u], counts[v]) for u, v in edges]
    for layout in layouts:
        static = s2_static(n, edges, counts, layout)
        for combo in itertools.product(*per_edge):
            pairs = [(e, i, j) for e, m in enumerate(combo) for i, j in m]
            for sc_idx in itertools.product(alpha, repeat=len(pairs)):
                matches = [(e, i, j, S2_ALPHA[a]) for (e, i, j), a in zip(pairs, sc_idx)]
                for a, mls in enumerate(S2_MLS):
                    for b, mip in enumerate(S2_MIP):
                        key = okey("2A", tuple(edges), tuple(counts), layout, tuple(pairs), sc_idx, a, b)
                        s2_exec(part, rec, n, edges, counts, layout, static, matches, mls, mip, key)
    rec.close()


def work_s2b(part, item):
    """n = 4: every match set, two score patterns, four threshold pairs, interleaved layout."""
    _, edges, npar = item
    n = 4
    rec = Rec(part)
    layout = 1
    for counts in itertools.product(range(3), repeat=n):
        static = s2_static(n, edges, counts, layout)
        per_edge = [edge_matchings(counts[u], counts[v]) for u, v in edges]
        for combo in itertools.product(*per_edge):
            pairs = [(e, i, j) for e, m in enumerate(combo) for i, j in m]
            for pat, cyc in S2B_PATTERN.items():
                if pat == 1 and not pairs:
                    continue
                matches = [(e, i, j, cyc[q % len(cyc)]) for q, (e, i, j) in enumerate(pairs)]
                for a, (mls, mip) in enumerate(S2B_PARAMS[pat][:npar]):
                    key = okey("2B", tuple(edges), counts, tuple(pairs), pat, a)
                    s2_exec(part, rec, n, edges, counts, layout, static, matches, mls, mip, key)
    rec.close()


# ---------------------------------------------------------------------------
# stage 3: PAFScorer.predict end to end

POS = [(3.0, 3.0), (11.0, 3.0), (3.0, 11.0), (12.5, 11.5), (19.0, -3.0)]  # last one lies outside the 16x16 image
FIELDS = ("zero", "+x", "-x", "+y", "-y", "ideal_id", "ideal_cross", "checker", "+x@6x10", "ideal_id@6x10", "checker@10x6", "-y@10x6")
PAF_H = PAF_W = 8
STRIDE = 2
S3_NPTS = (1, 3, 10)
S3_MELR = (0.25, 2.0)
S3_THR = ((0.25, 0), (-1.0, 1.0))
S3_LAYOUTS = ("single", "pair_next", "empty_first")
S3_SKELETONS = {
    2: [[(0, 1)], [(1, 0)]],
    3: [[(0, 1), (1, 2)], [(1, 2), (0, 1)], [(1, 0), (1, 2)]],
}


def node_choices(pos_ids, kmax):
    out = [()]
    for r in range(1, kmax + 1):
        out.extend(itertools.combinations(pos_ids, r))
    return out


def make_field(kind, edges, cfg):
    """(H, W, 2*n_edges) float32 PAF for one sample.  cfg: per node a tuple of position ids."""
    PAF_H, PAF_W = globals()["PAF_H"], globals()["PAF_W"]
    if "@" in kind:  # "<field>@<H>x<W>": the same field on a non-square PAF grid (positions beyond the shorter axis exist)
        kind, hw = kind.split("@")
        PAF_H, PAF_W = (int(v) for v in hw.split("x"))
    F = np.zeros((PAF_H, PAF_W, 2 * len(edges)), dtype=np.float32)
    if kind == "zero":
        return F
    if kind in ("+x", "-x", "+y", "-y"):
        ch = 0 if kind[1] == "x" else 1
        F[:, :, ch::2] = 1.0 if kind[0] == "+" else -1.0
        return F
    if kind == "checker":
        for r in range(PAF_H):
            for c in range(PAF_W):
                for ch in range(2 * len(edges)):
                    F[r, c, ch] = 1.0 if (r + c + ch) % 2 == 0 else -1.0
        return F
    for k, (u, v) in enumerate(edges):
        nu, nv = len(cfg[u]), len(cfg[v])
        for i in range(min(nu, nv)):
            j = i if kind == "ideal_id" else nv - 1 - i
            if not (0 <= j < nv):
                continue
            ax, ay = POS[cfg[u][i]]
            bx, by = POS[cfg[v][j]]
            dx, dy = bx - ax, by - ay
            L = math.hypot(dx, dy)
            if L == 0:
                continue
            for r in range(PAF_H):
                for c in range(PAF_W):
                    px, py = c * STRIDE, r * STRIDE
                    t = max(0.0, min(1.0, ((px - ax) * dx + (py - ay) * dy) / (L * L)))
                    d = math.hypot(px - (ax + t * dx), py - (ay + t * dy))
                    if d <= 0.75 * STRIDE:
                        F[r, c, 2 * k] += dx / L
                        F[r, c, 2 * k + 1] += dy / L
    return F


def s3_sample(n, edges, cfg, field):
    counts = [len(c) for c in cfg]
    xy = [[POS[p] for p in c] for c in cfg]
    peaks, vals, ch, table = s2_static(n, edges, counts, 1, xy=xy)
    return {"counts": counts, "peaks": peaks, "vals": vals, "ch": ch, "table": table, "paf": make_field(field, edges, cfg)}


def s3_check_sample(n, edges, smp, mls, mip, out, b):
    """Oracle for sample b of a predict() result.  Returns (error, decoded, has_nan, n_alternatives)."""
    inst, ps, isc, ei, epi, ls = out
    try:
        inst_b, ps_b, isc_b = inst[b].numpy(), ps[b].numpy(), isc[b].numpy()
        ei_b, epi_b, ls_b = ei[b].tolist(), epi[b].tolist(), ls[b].tolist()
    except Exception as e:
        return f"cannot read sample {b} of the result: {type(e).__name__}: {e}", None, False, 0
    order = global_order(smp["counts"], 1)
    glob = [[g for g, (k, _) in enumerate(order) if k == node] for node in range(n)]
    rank = {g: order[g][1] for g in range(len(order))}
    exp_c = sorted((k, a, b2) for k, (u, v) in enumerate(edges) for a in glob[u] for b2 in glob[v])
    got_c = sorted((int(k), int(p[0]), int(p[1])) for k, p in zip(ei_b, epi_b))
    if got_c != exp_c or len(ls_b) != len(ei_b):
        return f"candidates (edge, src, dst) {got_c} are not exactly all src x dst pairs per edge {exp_c}", None, False, 0
    Ss = [[[None] * smp["counts"][v] for _ in range(smp["counts"][u])] for (u, v) in edges]
    for k, p, s in zip(ei_b, epi_b, ls_b):
        Ss[int(k)][rank[int(p[0])]][rank[int(p[1])]] = float(s)
    has_nan = any(math.isnan(s) for s in ls_b)
    alts = [ref_best(S)[2] for S in Ss]
    err, got = decode_instances(n, smp["table"], inst_b, ps_b, isc_b)
    if err:
        return err, None, has_nan, 0
    n_alt = 1
    for a in alts:
        n_alt *= len(a)
    if n_alt > 20000:
        return "HARNESS: too many tied optimal assignments to enumerate", got, has_nan, n_alt
    seen = []
    for combo in itertools.product(*alts):
        matches = [(e, i, j, Ss[e][i][j]) for e, m in enumerate(combo) for i, j in m]
        exp = ref_group(n, edges, matches, mls, mip)
        if same_instances(got, exp):
            return None, got, has_nan, n_alt
        if len(seen) < 3 and exp not in seen:
            seen.append(exp)
    return (
        f"sample {b}: instances {fmt_inst(got)} are not the components of any optimal per-edge matching of the returned line scores "
        f"{[[[_nn(x) for x in r] for r in S] for S in Ss]} (min_line_scores={mls}, min_instance_peaks={mip!r}); expected e.g. "
        + " or ".join(fmt_inst(e) for e in seen),
        got,
        has_nan,
        n_alt,
    )


def s3_predict(n, edges, samples, npts, melr, mls, mip):
    import torch

    sc = get_scorer(n, edges, n_points=npts, max_edge_length_ratio=melr, min_line_scores=mls, min_instance_peaks=mip)
    pafs = torch.tensor(np.stack([s["paf"] for s in samples]))
    nt = torch.nested.nested_tensor
    return sc.predict(
        pafs,
        nt([s["peaks"] for s in samples]),
        nt([s["vals"] for s in samples]),
        nt([s["ch"] for s in samples]),
    )


def s3_case(n, edges, cfgs, fields, npts, melr, mls, mip):
    return {
        "stage": 3,
        "n": n,
        "edges": [list(e) for e in edges],
        "batch": [{"cfg": [list(c) for c in cfg], "field": f} for cfg, f in zip(cfgs, fields)],
        "n_points": npts,
        "max_edge_length_ratio": melr,
        "min_line_scores": mls,
        "min_instance_peaks": mip,
        "mip_is_float": isinstance(mip, float),
    }


def s3_run_batch(n, edges, cfgs, fields, npts, melr, mls, mip, cache=None):
    """Returns list of per-sample (error, decoded, has_nan) or a single batch-level error string."""
    samples = []
    for cfg, f in zip(cfgs, fields):
        k = (cfg, f)
        if cache is not None and k in cache:
            samples.append(cache[k])
        else:
            s = s3_sample(n, edges, cfg, f)
            if cache is not None:
                cache[k] = s
            samples.append(s)
    try:
        out = s3_predict(n, edges, samples, npts, melr, mls, mip)
    except Exception as e:
        return f"PAFScorer.predict raised {type(e).__name__}: {e}"
    if not isinstance(out, tuple) or len(out) != 6:
        return f"PAFScorer.predict returned {type(out).__name__} of length {len(out) if hasattr(out, '__len__') else '?'}"
    res = []
    for b, smp in enumerate(samples):
        res.append(s3_check_sample(n, edges, smp, mls, mip, out, b))
    return res


def work_s3(part, item):
    _, n, edges, field, npts, melr, thr, cfgs = item
    mls, mip = S3_THR[thr]
    rec = Rec(part)
    empty = tuple(() for _ in range(n))
    cache = {}
    N = len(cfgs)
    for idx, cfg in enumerate(cfgs):
        for lay in S3_LAYOUTS:
            if lay == "single":
                batch, fields = [cfg], [field]
            elif lay == "pair_next":
                batch, fields = [cfg, cfgs[(idx + 1) % N]], [field, field]
            else:
                batch, fields = [empty, cfg], ["zero" + (("@" + field.split("@")[1]) if "@" in field else ""), field]
            part.transition()
            res = s3_run_batch(n, edges, batch, fields, npts, melr, mls, mip, cache)
            mk = lambda b=batch, f=fields: s3_case(n, edges, b, f, npts, melr, mls, mip)
            key = okey("3", tuple(edges), field, npts, melr, thr, lay, tuple(batch))
            part.add("stage3_predict_calls")
            if isinstance(res, str):
                rec.case(key, True, mk)
                viol(part, mk(), "stage 3 (PAFScorer.predict): " + res)
                part.outcome(okey("s3err", res[:40]))
                continue
            nt_any = False
            bad = None
            for b, (err, got, has_nan, n_alt) in enumerate(res):
                part.add("stage3_sample_checks")
                if has_nan:
                    part.add("stage3_samples_with_nan_score")
                if n_alt > 1:
                    part.add("stage3_samples_with_tied_optima")
                part.maxi("max_stage3_tied_alternatives", n_alt)
                nt_any = nt_any or has_nan or bool(got)
                if err and bad is None:
                    bad = err
                if got is not None:
                    part.outcome(okey("s3", tuple(got and [(p, round(s, 4)) for p, s in got])))
            rec.case(key, nt_any, mk)
            if bad:
                if bad.startswith("HARNESS"):
                    part.add("harness_errors")
                viol(part, mk(), "stage 3 (PAFScorer.predict): " + bad)
        if len(cache) > 64:
            cache.clear()
    rec.close()


# ---------------------------------------------------------------------------
# driver


def work(part, shard):
    for item in shard:
        new_item()
        kind = item[0]
        if kind == "1A":
            work_s1a(part, item)
        elif kind == "1B":
            work_s1b(part, item)
        elif kind == "1C":
            work_s1c(part, item)
        elif kind == "2A":
            work_s2a(part, item)
        elif kind == "2B":
            work_s2b(part, item)
        elif kind == "3":
            work_s3(part, item)
        else:
            raise ValueError(kind)


def build_items(tier):
    quick = tier == "quick"
    items = []
    bounds = {}
    # ---- stage 1A
    for ns in (1, 2, 3):
        for nd in (1, 2, 3):
            if (ns, nd) == (3, 3):
                aid = 1 if quick else 2
                alpha = S1_ALPHA_33_QUICK if quick else S1_ALPHA_33_THOROUGH
                for pre in itertools.product(range(len(alpha)), repeat=2):
                    items.append(("1A", 3, 3, aid, pre))
            elif ns * nd == 6:
                for pre in itertools.product(range(len(S1_ALPHA)), repeat=1):
                    items.append(("1A", ns, nd, 0, pre))
            else:
                items.append(("1A", ns, nd, 0, ()))
    bounds["stage1A"] = {
        "shapes": "n_src x n_dst, 1..3 each, one edge type, all matrices",
        "alphabet": [_nn(x) for x in S1_ALPHA],
        "alphabet_3x3": [_nn(x) for x in (S1_ALPHA_33_QUICK if quick else S1_ALPHA_33_THOROUGH)],
    }
    # ---- stage 1B
    for edges in S1B_SKELETONS[1]:
        for counts in itertools.product(range(4), repeat=2):
            if sum(counts) <= (5 if quick else 6):
                items.append(("1B", tuple(edges), counts))
    for edges in S1B_SKELETONS[2]:
        for counts in itertools.product(range(3), repeat=3):
            if sum(counts) <= (5 if quick else 6):
                items.append(("1B", tuple(edges), counts))
    bounds["stage1B"] = {
        "skeletons": S1B_SKELETONS,
        "peaks_per_node": "0..3 (one edge) / 0..2 (two edges)",
        "max_total_peaks": 5 if quick else 6,
        "layouts": "every arrangement of the channel labels over the global peak indices",
        "orderings": "every per-node emission order (product of permutations) + the order the real get_connection_candidates emits",
        "score_patterns": 3,
    }
    # ---- stage 1C
    for edges in ([(0, 1), (1, 2)], [(0, 1), (0, 2)]):
        for counts in itertools.product(range(3), repeat=3):
            shapes = [(counts[u], counts[v]) for u, v in edges]
            if sum(a * b for a, b in shapes) == 0:
                continue
            items.append(("1C", tuple(edges), counts, 0 if quick else 1))
    bounds["stage1C"] = {
        "skeletons": [[(0, 1), (1, 2)], [(0, 1), (0, 2)]],
        "peaks_per_node": "0..2",
        "alphabet": [_nn(x) for x in (S1_ALPHA_2E_QUICK if quick else S1_ALPHA_2E_THOROUGH)],
    }
    # ---- stage 2A
    layouts = (1,) if quick else (0, 1)
    alpha2 = (1, 2) if quick else (0, 1, 2)  # indices into S2_ALPHA
    for n in (2, 3):
        for tree in all_rooted_trees(n):
            for listing in itertools.permutations(tree):
                for counts in itertools.product(range(3), repeat=n):
                    items.append(("2A", n, tuple(listing), counts, layouts, alpha2))
    bounds["stage2A"] = {
        "trees": "all rooted labelled trees on 2..3 nodes x all edge listings",
        "peaks_per_node": "0..2",
        "matches": "every one-to-one match set per edge",
        "score_alphabet": [S2_ALPHA[a] for a in alpha2],
        "min_line_scores": list(S2_MLS),
        "min_instance_peaks": [repr(x) for x in S2_MIP],
        "peak_layouts": list(layouts),
    }
    # ---- stage 2B
    if quick:
        trees4 = S2B_QUICK_TREES
    else:
        trees4 = list(all_rooted_trees(4))
    for tree in trees4:
        for listing in itertools.permutations(tree):
            items.append(("2B", tuple(listing), 1 if quick else 2))
    bounds["stage2B"] = {
        "trees": ("4 tree shapes on 4 nodes (chain, star, Y, T; fixed non-monotone labelling)" if quick else "all 64 rooted labelled trees on 4 nodes")
        + " x all 6 edge listings",
        "peaks_per_node": "0..2",
        "matches": "every one-to-one match set per edge",
        "score_patterns": {str(k): list(v) for k, v in S2B_PATTERN.items()},
        "threshold_pairs(mls,mip)": {str(k): [[a, repr(b)] for a, b in v[: (1 if quick else 2)]] for k, v in S2B_PARAMS.items()},
    }
    # ---- stage 3
    grid_coupled = [(a, b, c) for a in S3_NPTS for b, c in zip(S3_MELR, range(len(S3_THR)))]
    grid_full = [(a, b, c) for a in S3_NPTS for b in S3_MELR for c in range(len(S3_THR))]
    if quick:
        grids = {2: grid_coupled, 3: grid_coupled}
        skel = {2: S3_SKELETONS[2][1:], 3: S3_SKELETONS[3][1:2]}
        cfg3 = [c for c in itertools.product(node_choices((0, 1, 4), 1), repeat=3)]
    else:
        grids = {2: grid_full, 3: grid_coupled}
        skel = S3_SKELETONS
        cfg3 = [c for c in itertools.product(node_choices((0, 1, 4), 2), repeat=3)]
    cfg2 = [c for c in itertools.product(node_choices((0, 1, 3, 4) if quick else range(5), 2), repeat=2)]
    for n, cfgs in ((2, cfg2), (3, cfg3)):
        for edges in skel[n]:
            for field in FIELDS:
                for a, b, c in grids[n]:
                    items.append(("3", n, tuple(edges), field, a, b, c, tuple(cfgs)))
    bounds["stage3"] = {
        "positions": POS,
        "paf": f"{PAF_H}x{PAF_W}, stride {STRIDE}",
        "fields": list(FIELDS),
        "skeletons": skel,
        "frames_n2": "0..2 peaks per node of positions {0,1,3,4} (121 frames)" if quick else "0..2 peaks per node of 5 positions (256 frames)",
        "frames_n3": "0..1 peaks per node of positions {0,1,4} (64 frames)" if quick else "0..2 peaks per node of positions {0,1,4} (343 frames)",
        "(n_points, max_edge_length_ratio, (min_line_scores, min_instance_peaks))": {
            str(n): [[a, b, [S3_THR[c][0], repr(S3_THR[c][1])]] for a, b, c in g] for n, g in grids.items()
        },
        "batch_layouts": list(S3_LAYOUTS),
    }
    return items, bounds


def item_weight(item):
    k = item[0]
    if k == "3":
        return 3 * len(item[-1]) * 12
    if k == "2B":
        return 6000
    if k == "2A":
        c = item[3]
        return 30 * (4 ** sum(c))
    if k == "1A":
        return 5000
    return 500


def determinism_probe():
    """R3: the first execution of each stage is run twice; differing observations are a harness error, not a violation."""
    c1 = {"stage": 1, "family": "A", "edges": [[0, 1]], "channels": [0, 0, 1, 1], "order": [[0, 1], [2, 3]],
          "S": [[[f32(0.3), f32(0.7)], [f32(0.7), -0.5]]]}
    edges = [(1, 2), (0, 1)]
    st = s2_static(3, edges, [2, 2, 2], 1)
    m2 = [(0, 0, 1, 1.0), (0, 1, 0, 0.25), (1, 1, 0, 1.0)]
    cfgs = [((0, 1), (0,), (1, 4)), ((), (), ())]
    obs = []
    for _ in range(2):
        obs.append(
            repr((s1_run(c1), s2_call(3, edges, st, m2, 0.25, 2), s3_run_batch(3, edges, cfgs, ["ideal_id", "zero"], 3, 2.0, -1.0, 0)))
        )
    if obs[0] != obs[1]:
        raise RuntimeError("nondeterministic observation on identical input:\n" + obs[0] + "\n" + obs[1])


def run(ctx):
    core.setup_torch()
    determinism_probe()
    items, bounds = build_items(ctx.tier)
    ctx.bounds = bounds
    items = core.rotate(items, ctx.seed)
    # heavy items first (stable), light ones bundled
    heavy = sorted((it for it in items if item_weight(it) >= 3000), key=lambda it: -item_weight(it))
    light = [it for it in items if item_weight(it) < 3000]
    # one item of every stage at the very front, end-to-end first: the replays that get written out then span the stages
    front = []
    for kind in ("3", "2B", "2A", "1A"):
        for it in heavy:
            if it[0] == kind:
                front.append(it)
                heavy.remove(it)
                break
    shards = [[it] for it in front + heavy] + core.shard_list(light, 48)
    core.pmap(ctx, work, shards)
    ctx.extra["work_items"] = len(items)


# ---------------------------------------------------------------------------
# replay


def _mip(case):
    m = case["min_instance_peaks"]
    return float(m) if case.get("mip_is_float") else int(m)


def replay(case):
    core.setup_torch()
    st = case.get("stage")
    if st == 1 and case.get("family") == "cand":
        import torch
        from sleap_nn.inference.paf_grouping import get_connection_candidates

        edges = [tuple(e) for e in case["edges"]]
        ch = case["channels"]
        n_nodes = max(max(e) for e in edges) + 1
        glob = [[g for g, c in enumerate(ch) if c == k] for k in range(n_nodes)]
        exp = sorted((k, a, b) for k, (u, v) in enumerate(edges) for a in glob[u] for b in glob[v])
        try:
            rei, repi = get_connection_candidates(torch.tensor(ch, dtype=torch.int32), edges, n_nodes)
            got = sorted((int(k), int(a), int(b)) for k, (a, b) in zip(rei.tolist(), repi.tolist()))
            err = None if got == exp else f"candidates {got} != {exp}"
        except Exception as e:
            err = f"raised {type(e).__name__}: {e}"
        return {"error": err, "violates": err is not None}
    if st == 1:
        err, key = s1_run(case)
        return {"error": err, "matches_per_edge": key, "violates": err is not None}
    if st == 2:
        n = case["n"]
        edges = [tuple(e) for e in case["edges"]]
        matches = [(int(m[0]), int(m[1]), int(m[2]), float(m[3])) for m in case["matches"]]
        static = s2_static(n, edges, case["counts"], case["layout"])
        err, got, exp = s2_check(n, edges, static, matches, case["min_line_scores"], _mip(case))
        return {"error": err, "observed": got, "expected": exp, "violates": err is not None}
    if st == 3:
        n = case["n"]
        edges = [tuple(e) for e in case["edges"]]
        cfgs = [tuple(tuple(c) for c in s["cfg"]) for s in case["batch"]]
        fields = [s["field"] for s in case["batch"]]
        res = s3_run_batch(
            n, edges, cfgs, fields, case["n_points"], case["max_edge_length_ratio"], case["min_line_scores"], _mip(case)
        )
        if isinstance(res, str):
            return {"error": res, "violates": True}
        errs = [r[0] for r in res]
        return {"errors": errs, "observed": [r[1] for r in res], "violates": any(e for e in errs)}
    if case.get("harness_exception"):
        return {"error": "harness exception record, nothing to replay", "violates": False}
    raise ValueError(f"unknown case {case}")
