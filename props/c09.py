"""C09 — tracking never drops, duplicates or double-assigns detections, never crashes.

E2: breadth-first search over frame histories on the REAL Tracker (one per tracker
configuration).  A state is the event history that reaches it, deduplicated by a
canonical hash of the tracker's property-relevant fields; the conservation
invariants are evaluated on every transition.
"""
from __future__ import annotations

from mc import core
from props import _tracking as T

LEVEL = "model_checking"
RULE = (
    "BFS over frame histories: event alphabet = every ordered list of distinct animals from {A,B,C} (incl. the empty "
    "frame; thorough also marks one detection low-score), transitions executed on a deepcopy of the parent's real "
    "Tracker; state = canonical (current_tracks, queue entries as (track id, animal)); a transition is non-trivial when "
    "the frame is fed to a tracker that already holds at least one track (so matching runs); distinct = distinct (config, canonical state, event)"
)
ASSUMPTIONS = [
    "detections may have one node or every node missing (NaN) in the dedicated jobs (quick: K=2 depth 3; thorough: K=2 depth 4)",
    "two-trackers-alive jobs: two Tracker objects of one configuration fed every pair of 2-frame (thorough: 3-frame) histories over K=2 in alternation; each must return what it returns alone",
    "animals sit at fixed, well separated positions (no drift) so that the canonical state is small; identity questions are C10's",
    "canonical-state merging assumes the next track() reads only tracker_queue, current_tracks and the new detections; validated in-run on a 1-in-53 subset of merged pairs (both representatives extended by every event must agree) and by replaying a 1-in-11 subset of histories on fresh trackers",
    "bounds: quick depth 4, K=3, window 2, threshold 0, 12 method x matcher x feature configurations; thorough depth 5 (K=3; depth 4 with low-score marks against threshold 0.5) and depth 6 (K=2) over 72 configurations x reductions {mean,max}",
    "FlowShiftTracker (use_flow) and image features are outside the property's configuration list",
]


def explore(part, cfg, k, depth, low, nan=False):
    events = T.frame_events(k, low_score=low, nan_marks=nan)
    cfgkey = core.digest(cfg)
    root = T.new_tracker(cfg)
    seen = {T.canon(root, with_nan=nan, history=[]): ([], root)}
    frontier = [([], root)]
    if not T.INTERNALS_OK["canon"]:
        # tracker internals are not laid out as the harness expects: states are histories (a tree); keep it affordable
        depth = min(depth, 3)
        part.add("fallback_tree_search_depth_capped_at_3")
    merged = 0
    nstates = 1
    for d in range(depth):
        nxt = []
        for hist, trk in frontier:
            for ev in events:
                t2 = T.clone(trk)
                had_tracks = bool(t2.candidate.current_tracks)
                inputs, out, err = T.step(t2, ev, frame_idx=len(hist))
                part.count()
                part.transition()
                h2 = hist + [ev]
                case = {"cfg": cfg, "history": h2, "k": k}
                if err:
                    part.violation(case, f"{err}; history={h2}")
                    continue
                obs = T.observe(ev, out)
                part.outcome(repr((obs, len(ev))))
                c = T.canon(t2, with_nan=nan, history=h2)
                key = f"{cfgkey}:{c}"
                if had_tracks and ev:
                    part.nontriv(f"{cfgkey}:{T.canon(trk, with_nan=nan)}:{ev}")
                part.sample(case, had_tracks and len(ev) > 1)
                if c in seen:
                    merged += 1
                    if merged % 53 == 0:
                        # merge validation: the representative and this state must have identical futures
                        rep_hist, rep = seen[c]
                        for ev2 in events:
                            a, b = T.clone(rep), T.clone(t2)
                            _, oa, ea = T.step(a, ev2, frame_idx=len(h2))
                            _, ob, eb = T.step(b, ev2, frame_idx=len(h2))
                            part.add("merge_validations")
                            if (ea is None) != (eb is None) or T.observe(ev2, oa) != T.observe(ev2, ob) or T.canon(a, with_nan=nan) != T.canon(b, with_nan=nan):
                                part.violation(
                                    {"harness": "merge", "cfg": cfg, "h1": rep_hist, "h2": h2, "ev": ev2},
                                    f"HARNESS: canonical-state merge is unsound: histories {rep_hist} and {h2} share a canonical state but diverge on {ev2}",
                                )
                    continue
                seen[c] = (h2, t2)
                part.state(key)
                nstates += 1
                if nstates % 11 == 0:
                    # replay cross-check: the deepcopy chain shares no state with its ancestors
                    fresh = T.new_tracker(cfg)
                    for i, e in enumerate(h2):
                        T.step(fresh, e, frame_idx=i)
                    part.add("replay_crosschecks")
                    if T.canon(fresh, with_nan=nan, history=h2) != c:
                        part.violation(
                            {"harness": "replay", "cfg": cfg, "history": h2},
                            f"HARNESS: state reached through deepcopy chain differs from replay on a fresh tracker for {h2}",
                        )
                nxt.append((h2, t2))
        frontier = nxt
    part.maxi("max_depth", depth)
    part.add("merged_transitions", merged)
    if not all(T.INTERNALS_OK.values()):
        part.add("fallback_history_states_or_deepcopy")


def explore_interleaved(part, cfg, k, depth):
    """Two Tracker objects of the same configuration alive at once (two videos), fed different histories in
    alternation: each must behave exactly as when it runs alone (state shared between tracker objects)."""
    import itertools

    events = T.frame_events(k)
    cfgkey = core.digest(cfg)
    hists = list(itertools.product(range(len(events)), repeat=depth))

    def alone(h):
        trk = T.new_tracker(cfg)
        obs = []
        for i, e in enumerate(h):
            _, out, err = T.step(trk, events[e], frame_idx=i)
            obs.append((T.observe(events[e], out), err))
        return obs

    ref = {h: alone(h) for h in hists}
    for ha in hists:
        for hb in hists:
            a, b = T.new_tracker(cfg), T.new_tracker(cfg)
            part.count()
            part.transition(2 * depth)
            key = f"il:{cfgkey}:{ha}:{hb}"
            part.state(key)
            if ha != hb:
                part.nontriv(key)
            got = []
            for i in range(depth):
                _, out, err = T.step(a, events[ha[i]], frame_idx=i)
                got.append((T.observe(events[ha[i]], out), err))
                T.step(b, events[hb[i]], frame_idx=i)
            part.outcome(repr(got))
            if got != ref[ha]:
                case = {"cfg": cfg, "interleaved": True, "k": k, "history": [events[e] for e in ha], "other": [events[e] for e in hb]}
                part.violation(case, f"tracker fed {[events[e] for e in ha]} returns {got} while a second tracker object is fed {[events[e] for e in hb]} in alternation, but {ref[ha]} when it runs alone")
    part.sample({"cfg": cfg, "interleaved": True, "pairs": len(hists) ** 2}, True)


def work(part, shard):
    for job in shard:
        if job[0] == "interleaved":
            explore_interleaved(part, *job[1:])
        else:
            explore(part, *job)


def run(ctx):
    core.setup_torch()
    if ctx.tier == "quick":
        cfgs = T.all_configs(windows=[2], thresholds=[0.0])
        jobs = [(c, 3, 4, False) for c in cfgs]
        jobs += [(c, 2, 3, False, True) for c in cfgs]  # + detections with one / all nodes missing
        jobs += [("interleaved", c, 2, 2) for c in cfgs]  # two tracker objects alive, all pairs of 2-frame histories
        # options otherwise only varied in the thorough tier, at a small depth: score threshold 0.5 with low-score
        # detections in the alphabet, reduction 'max', windows 1 and 3
        jobs += [(c, 2, 3, True) for c in T.all_configs(windows=[2], thresholds=[0.5])]
        jobs += [(c, 2, 3, False) for c in T.all_configs(windows=[1, 3], thresholds=[0.0], reductions=("max",))]
        ctx.bounds = {"depth": 4, "K": 3, "configs": len(cfgs), "events_per_frame": 16}
    else:
        cfgs = T.all_configs(windows=[1, 2, 3], thresholds=[0.0, 0.5], reductions=("mean", "max"))
        # K=3: depth 5 for the default 'mean' reduction, depth 4 for 'max' (the depth-5 frontier dominates the cost)
        jobs = [(c, 3, 5 if c["scoring_reduction"] == "mean" else 4, False) for c in cfgs]
        # low-score marks triple the event alphabet (49 events per frame): depth 4 for K=3, depth 6 for K=2
        jobs += [(c, 3, 4, True) for c in cfgs if c["instance_score_threshold"] > 0]
        jobs += [(c, 2, 6, c["instance_score_threshold"] > 0) for c in cfgs]
        # detections with missing nodes: one node NaN ('p') or every node NaN ('n')
        jobs += [(c, 2, 4, False, True) for c in cfgs if c["instance_score_threshold"] == 0]
        jobs += [("interleaved", c, 2, 3) for c in cfgs if c["scoring_reduction"] == "mean" and c["window_size"] == 2]
        ctx.bounds = {"depth_K3": "5 (reduction mean) / 4 (reduction max)", "depth_K3_with_low_score_marks": 4, "depth_K2": 6, "depth_K2_with_missing_nodes": 4, "configs": len(cfgs), "events_per_frame": "16 (49 with low-score marks when threshold 0.5)"}
    jobs = core.rotate(jobs, ctx.seed)
    core.pmap(ctx, work, [[j] for j in jobs])


def replay(case):
    if case.get("interleaved"):
        cfg = case["cfg"]
        ha = [[tuple(x) for x in ev] for ev in case["history"]]
        hb = [[tuple(x) for x in ev] for ev in case["other"]]
        solo = T.new_tracker(cfg)
        ref = []
        for i, ev in enumerate(ha):
            _, out, err = T.step(solo, ev, frame_idx=i)
            ref.append((T.observe(ev, out), err))
        a, b = T.new_tracker(cfg), T.new_tracker(cfg)
        got = []
        for i, ev in enumerate(ha):
            _, out, err = T.step(a, ev, frame_idx=i)
            got.append((T.observe(ev, out), err))
            T.step(b, hb[i], frame_idx=i)
        return {"violates": got != ref, "alone": ref, "interleaved": got}
    if case.get("harness"):
        return {"violates": True, "note": "harness self-check failure", "case": case}
    trk = T.new_tracker(case["cfg"])
    log = []
    for i, ev in enumerate(case["history"]):
        ev = [tuple(x) for x in ev]
        _, out, err = T.step(trk, ev, frame_idx=i)
        log.append({"frame": i, "event": ev, "tracks": T.observe(ev, out), "error": err})
        if err:
            return {"violates": True, "log": log}
    return {"violates": False, "log": log}
