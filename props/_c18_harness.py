"""Helpers for C18: label-set alphabet, the three framework drivers, DataPipe/function pairs, comparisons.

Everything here drives the real sleap-nn classes/functions; nothing is re-implemented.  The only seam is the
hand-over between the chunk functions and the `*StreamingDataset`s (litdata's `optimize()` does not complete in
this sandbox): see `handover_bin` / `handover_stub`.
"""
from __future__ import annotations

import contextlib
import os

import numpy as np

from props import _scenes as S

# ---------------------------------------------------------------------------------------------------------------
# scene / label-set alphabet

H, W = 48, 64  # non-square on purpose (an H/W swap in one framework changes shapes)
K = 3
EDGES = [(0, 1), (1, 2)]
BIG_HW = (80, 96)  # size-matcher target: hratio 1.667, wratio 1.5 -> eff_scale 1.5, target 72x96, 8 rows of padding
SMALL_HW = (44, 56)  # frame size of every second video in the "sizes" multi-video label sets
RGB_TINT = (1.0, 0.8, 0.6)  # distinct channels (sleap-io collapses an R=G=B source to one channel)

_A0 = np.array([[14.3, 11.7], [22.1, 18.4], [30.6, 13.2]])
_B0 = np.array([[40.2, 29.3], [47.7, 35.9], [37.1, 39.5]])
_SLOT = np.array([1.7, 1.3])  # frame f is shifted by f * _SLOT so that frames differ

# frame type -> list of (animal, NaN pattern, kind); order = order of the instances in the LabeledFrame
FRAME_TYPES = {
    "A": [("A", "full", "user")],
    "An0": [("A", "n0", "user")],  # missing anchor (node 0)
    "An2": [("A", "n2", "user")],
    "AB": [("A", "full", "user"), ("B", "full", "user")],
    "ABn0": [("A", "full", "user"), ("B", "n0", "user")],
    "AE": [("A", "full", "user"), ("B", "empty", "user")],  # an all-NaN instance after a real one
    "EB": [("A", "empty", "user"), ("B", "full", "user")],  # ... and before one (instance index alignment)
    "AP": [("A", "full", "user"), ("B", "full", "pred")],  # predicted instance next to a user instance
    "P": [("A", "full", "pred")],  # only a predicted instance
}
QUICK_TYPES = ["A", "An0", "An2", "AB", "ABn0", "AE", "EB", "AP"]
THOROUGH_TYPES = QUICK_TYPES + ["P"]


def animal(who, pattern, slot):
    pts = (_A0 if who == "A" else _B0) + slot * _SLOT
    pts = pts.copy()
    if pattern == "n0":
        pts[0] = np.nan
    elif pattern == "n2":
        pts[2] = np.nan
    elif pattern == "empty":
        pts[:] = np.nan
    return pts


def n_labelled(ftype, user_only=True):
    """Number of non-empty instances a frame of this type contributes after the user-instance filter."""
    spec = FRAME_TYPES[ftype]
    users = [s for s in spec if s[2] == "user"]
    insts = users if (user_only and users) else spec
    return sum(1 for s in insts if s[1] != "empty")


def labelset_nontrivial(labelset):
    """NT: a label set with >= 2 animals in some frame or a NaN somewhere."""
    for t in labelset:
        spec = FRAME_TYPES[t]
        if len(spec) >= 2 or any(s[1] != "full" for s in spec):
            return True
    return False


def build_frames(labelset, src_rgb, slots=None, multi_video=False):
    frames, predicted = [], []
    for f, t in enumerate(labelset):
        users, preds, drawn = [], [], []
        slot = f if slots is None else slots[f]
        for who, pattern, kind in FRAME_TYPES[t]:
            pts = animal(who, pattern, slot)
            drawn.append(pts)
            if kind == "user":
                users.append(pts)
            else:
                preds.append((pts, 0.9))
        img = S.render(H, W, drawn, rgb=src_rgb)
        if src_rgb:
            img = np.round(img.astype(np.float64) * np.array(RGB_TINT)).astype(np.uint8)
        fr = {"image": img, "instances": users}
        if multi_video:  # every labelled frame is frame 0 of its own video (frame indices collide across videos)
            fr["video"] = f
            if (multi_video == "sizes" and f % 2 == 1) or (multi_video == "sizes-rev" and f % 2 == 0):
                # ... and the videos have different frame sizes (all points stay inside); "sizes-rev": the small video comes first
                fr["image"] = np.ascontiguousarray(img[:SMALL_HW[0], :SMALL_HW[1]])
        frames.append(fr)
        predicted.append(preds)
    return frames, predicted


def write_labelset(tmpdir, labelset, src_rgb, name, slots=None, multi_video=False):
    frames, predicted = build_frames(labelset, src_rgb, slots, multi_video)
    sk = S.make_skeleton(K, EDGES)
    return S.write_labels(tmpdir, frames, sk, name=name, embed=True, predicted=predicted, stale_invisible=True)


def write_catalogue(tmpdir, types, src_rgb, name):
    """One label file holding every frame type once (frame f at slot f % 3): the examples of the DataPipe-block part."""
    return write_labelset(tmpdir, list(types), src_rgb, name, slots=[f % 3 for f in range(len(types))])


# ---------------------------------------------------------------------------------------------------------------
# what is compared for which model (property text: network inputs, the keypoints / centroids the targets are drawn
# from, the targets)

SPEC = {
    "bottomup": {"image": "image", "pts": "instances", "maps": ["confidence_maps", "part_affinity_fields"]},
    "single_instance": {"image": "image", "pts": "instances", "maps": ["confidence_maps"]},
    "centroid": {"image": "image", "pts": "centroids", "maps": ["centroids_confidence_maps"]},
    "centered_instance": {"image": "instance_image", "pts": "instance", "maps": ["confidence_maps"]},
}
IMG_TOL = 1.0 / 255.0 + 1e-6  # "up to 8-bit image quantisation"
MAP_TOL = 1e-4
PTS_ATOL, PTS_RTOL = 1e-5, 1e-5  # R2


def _np(t):
    import torch

    if isinstance(t, torch.Tensor):
        return t.detach().cpu().numpy().astype(np.float64)
    return np.asarray(t, dtype=np.float64)


def cmp_image(a, b, tol, what):
    a, b = _np(a), _np(b)
    if a.shape != b.shape:
        return [f"{what}: shape {a.shape} vs {b.shape}"]
    if not (np.isfinite(a).all() and np.isfinite(b).all()):
        return [f"{what}: non-finite pixel values"]
    d = float(np.abs(a - b).max()) if a.size else 0.0
    if d > tol:
        i = np.unravel_index(int(np.abs(a - b).argmax()), a.shape)
        return [f"{what}: max |diff| {d:.6g} > {tol:.6g} at {tuple(int(x) for x in i)} ({a[i]:.6g} vs {b[i]:.6g})"]
    return []


def cmp_points(a, b, what):
    """Keypoints / centroids as flattened (N,2) lists (a singleton axis is shape, not content)."""
    a, b = _np(a).reshape(-1, 2), _np(b).reshape(-1, 2)
    if a.shape != b.shape:
        return [f"{what}: {a.shape[0]} points vs {b.shape[0]} points"]
    na, nb = np.isnan(a), np.isnan(b)
    if not np.array_equal(na, nb):
        return [f"{what}: NaN pattern differs: {a.tolist()} vs {b.tolist()}"]
    ok = np.isclose(np.nan_to_num(a), np.nan_to_num(b), atol=PTS_ATOL, rtol=PTS_RTOL)
    if not ok.all():
        i = int(np.argwhere(~ok)[0][0])
        return [f"{what}: point {i} {a[i].tolist()} vs {b[i].tolist()}"]
    return []


def compare_samples(model, ref, other, names):
    """ref = in-memory sample (unquantised image), other = npz / streaming sample."""
    spec = SPEC[model]
    tag = f"{names[0]} vs {names[1]}"
    errs = []
    for k in [spec["image"], spec["pts"]] + spec["maps"]:
        if k not in ref or k not in other:
            errs.append(f"{tag}: key '{k}' missing ({k in ref}, {k in other})")
    if errs:
        return errs
    errs += cmp_image(ref[spec["image"]], other[spec["image"]], IMG_TOL, f"{tag}: {spec['image']}")
    errs += cmp_points(ref[spec["pts"]], other[spec["pts"]], f"{tag}: {spec['pts']}")
    for k in spec["maps"]:
        errs += cmp_image(ref[k], other[k], MAP_TOL, f"{tag}: {k}")
    fa, fb = int(_np(ref["frame_idx"]).reshape(-1)[0]), int(_np(other["frame_idx"]).reshape(-1)[0])
    if fa != fb:
        errs.append(f"{tag}: sample is from frame {fa} vs frame {fb}")
    return errs


def sample_digest(model, s):
    """Compact fingerprint of one observed sample (for the outcome census)."""
    import hashlib

    spec = SPEC[model]
    h = hashlib.sha1()
    for k in [spec["image"], spec["pts"]] + spec["maps"]:
        a = _np(s[k])
        h.update(str(a.shape).encode())
        h.update(np.round(np.nan_to_num(a, nan=-1.0), 3).tobytes())
    return h.hexdigest()[:16]


# ---------------------------------------------------------------------------------------------------------------
# configuration objects


def data_config(case, max_hw=None):
    from omegaconf import DictConfig

    # cfg_dim: the user states ONE of preprocessing.max_height / max_width, with exactly the value both frameworks
    # are given through max_hw anyway (so the documented target is the same for both); the other stays None
    mh = int(max_hw[0]) if case.get("cfg_dim") == "height" else None
    mw = int(max_hw[1]) if case.get("cfg_dim") == "width" else None
    return DictConfig(
        {
            "user_instances_only": bool(case.get("user_only", True)),
            "preprocessing": {
                "is_rgb": bool(case["is_rgb"]),
                # both frameworks are told the size-matcher target through `max_hw` (ModelTrainer passes it to both)
                "max_height": mh,
                "max_width": mw,
                "scale": float(case["scale"]),
            },
        }
    )


def head_config(case):
    from omegaconf import DictConfig

    return DictConfig({"sigma": float(case["sigma"]), "output_stride": int(case["output_stride"]), "anchor_part": case.get("anchor")})


def resolved_max_hw(case, labels):
    from sleap_nn.data.providers import get_max_height_width

    if case.get("max_hw") is None:
        return tuple(get_max_height_width(labels))  # what ModelTrainer computes
    return tuple(int(v) for v in case["max_hw"])


# ---------------------------------------------------------------------------------------------------------------
# framework 1 + 2: *Dataset in memory / with np_chunks=True


def _two_epochs(ds, n):
    """Every index is read twice - a second pass after the whole first pass - and BOTH reads are handed to the
    comparison: the frameworks must also agree on a re-read (a cache entry corrupted by the first read shows only then)."""
    first = [ds[i] for i in range(n)]
    second = [ds[i] for i in range(n)]
    return first + second


def run_dataset(case, slp, np_chunks, scratch):
    import sleap_io as sio
    from sleap_nn.data import custom_datasets as cd

    labels = sio.load_slp(slp)
    dc, head = data_config(case, resolved_max_hw(case, labels)), head_config(case)
    common = dict(
        labels=labels,
        data_config=dc,
        max_stride=int(case["max_stride"]),
        scale=float(case["scale"]),
        apply_aug=False,
        max_hw=resolved_max_hw(case, labels),
        np_chunks=np_chunks,
        np_chunks_path=scratch if np_chunks else None,
    )
    if not np_chunks:
        common.pop("np_chunks_path")
    m = case["model"]
    if m == "bottomup":
        ds = cd.BottomUpDataset(confmap_head_config=head, pafs_head_config=head, **common)
    elif m == "single_instance":
        ds = cd.SingleInstanceDataset(confmap_head_config=head, **common)
    elif m == "centroid":
        ds = cd.CentroidDataset(confmap_head_config=head, **common)
    elif m == "centered_instance":
        ds = cd.CenteredInstanceDataset(confmap_head_config=head, crop_hw=tuple(case["crop_hw"]), **common)
    else:
        raise ValueError(m)
    return _two_epochs(ds, len(ds))


# ---------------------------------------------------------------------------------------------------------------
# framework 3: chunk function -> hand-over -> *StreamingDataset.__getitem__


def chunk_items(case, slp):
    """Exactly what sleap_nn/training/get_bin_files.py hands to litdata.optimize(): fn((lf, video_idx)) per frame."""
    import functools

    import sleap_io as sio
    from sleap_nn.data import get_data_chunks as gc
    from sleap_nn.data.providers import get_max_instances

    labels = sio.load_slp(slp)
    max_hw = resolved_max_hw(case, labels)
    dc = data_config(case, max_hw)
    max_instances = get_max_instances(labels)
    uio = bool(case.get("user_only", True))
    scale = float(case["scale"])
    m = case["model"]
    if m == "single_instance":
        fn = functools.partial(gc.single_instance_data_chunks, data_config=dc, user_instances_only=uio, max_hw=max_hw, scale=scale)
    elif m == "centered_instance":
        fn = functools.partial(
            gc.centered_instance_data_chunks,
            data_config=dc,
            max_instances=max_instances,
            crop_size=tuple(case["crop_hw"]),
            anchor_ind=case.get("anchor"),
            user_instances_only=uio,
            max_hw=max_hw,
            scale=scale,
        )
    elif m == "centroid":
        fn = functools.partial(
            gc.centroid_data_chunks, data_config=dc, max_instances=max_instances, anchor_ind=case.get("anchor"), user_instances_only=uio, max_hw=max_hw, scale=scale
        )
    elif m == "bottomup":
        fn = functools.partial(gc.bottomup_data_chunks, data_config=dc, max_instances=max_instances, user_instances_only=uio, max_hw=max_hw, scale=scale)
    else:
        raise ValueError(m)
    items = []
    for lf in labels:
        out = fn((lf, labels.videos.index(lf.video)))
        if isinstance(out, dict):
            items.append(out)
        else:  # generator (centred instance: one item per instance)
            items.extend(list(out))
    return items, labels.skeletons[0].edge_inds


def make_streaming(case, edge_inds, **ld_kwargs):
    from sleap_nn.data import streaming_datasets as sd

    head = head_config(case)
    m = case["model"]
    ms = int(case["max_stride"])
    if m == "bottomup":
        return sd.BottomUpStreamingDataset(confmap_head=head, pafs_head=head, edge_inds=edge_inds, max_stride=ms, apply_aug=False, **ld_kwargs)
    if m == "single_instance":
        return sd.SingleInstanceStreamingDataset(confmap_head=head, max_stride=ms, apply_aug=False, **ld_kwargs)
    if m == "centroid":
        return sd.CentroidStreamingDataset(confmap_head=head, max_stride=ms, apply_aug=False, **ld_kwargs)
    if m == "centered_instance":
        return sd.CenteredInstanceStreamingDataset(
            confmap_head=head, crop_hw=tuple(case["crop_hw"]), max_stride=ms, apply_aug=False, input_scale=float(case["scale"]), **ld_kwargs
        )
    raise ValueError(m)


def handover_bin(case, items, edge_inds, scratch):
    """Real litdata serialisation: the BinaryWriter that optimize()'s workers use, driven in-process, writes real
    `.bin` chunks + index.json; the real (unpatched) litdata.StreamingDataset reads them back."""
    from litdata.streaming.writer import BinaryWriter

    w = BinaryWriter(scratch, chunk_size=4)
    for i, it in enumerate(items):
        w[i] = it
    w.done()
    w.merge()
    ds = make_streaming(case, edge_inds, input_dir=scratch)
    if len(ds) != len(items):
        raise RuntimeError(f"litdata round trip returned {len(ds)} items for {len(items)} written")
    return _two_epochs(ds, len(items))


@contextlib.contextmanager
def _stubbed_litdata():
    import litdata as ld

    cls = ld.StreamingDataset
    o_init, o_get = cls.__init__, cls.__getitem__

    def s_init(self, *a, input_dir=None, **k):
        self._c18_items = input_dir

    def s_get(self, index):
        import torch

        return {k: (v.clone() if isinstance(v, torch.Tensor) else (v.copy() if hasattr(v, "copy") else v)) for k, v in self._c18_items[index].items()}

    cls.__init__, cls.__getitem__ = s_init, s_get
    try:
        yield
    finally:
        cls.__init__, cls.__getitem__ = o_init, o_get


def handover_stub(case, items, edge_inds, scratch):
    """litdata.StreamingDataset.__init__/__getitem__ replaced by a stub that hands the chunk function's dict back
    (PIL image, tensors, ints: value types litdata round-trips unchanged -- an assumption in this mode)."""
    with _stubbed_litdata():
        ds = make_streaming(case, edge_inds, input_dir=items)
        return _two_epochs(ds, len(items))


def run_streaming(case, slp, scratch):
    items, edge_inds = chunk_items(case, slp)
    if case.get("handover", "bin") == "stub":
        return handover_stub(case, items, edge_inds, scratch)
    return handover_bin(case, items, edge_inds, scratch)


def bin_handover_works(scratch):
    """Self-test of the in-process litdata writer/reader (no sleap-nn code involved)."""
    try:
        import litdata as ld
        import torch
        from litdata.streaming.writer import BinaryWriter
        from PIL import Image

        d = os.path.join(scratch, "selftest")
        w = BinaryWriter(d, chunk_size=2)
        arr = (np.arange(6 * 8) % 251).astype(np.uint8).reshape(6, 8)
        for i in range(3):
            w[i] = {"image": Image.fromarray(arr + i), "t": torch.tensor([[float("nan"), 1.5 + i]]), "z": torch.tensor(i, dtype=torch.int32), "n": 2 + i}
        w.done()
        w.merge()
        ds = ld.StreamingDataset(input_dir=d)
        if len(ds) != 3:
            return False
        for i in (2, 0, 1):
            ex = ds[i]
            ok = (
                np.array_equal(np.asarray(ex["image"]), arr + i)
                and ex["n"] == 2 + i
                and int(ex["z"]) == i
                and ex["z"].dtype == torch.int32
                and bool(torch.isnan(ex["t"][0, 0]))
                and float(ex["t"][0, 1]) == 1.5 + i
            )
            if not ok:
                return False
        return True
    except Exception:
        return False


# ---------------------------------------------------------------------------------------------------------------
# one framework case


def run_framework_case(case, slp, scratch):
    """Returns (errors, info).  errors: list of strings (empty = the three frameworks agree on every sample)."""
    import traceback

    model = case["model"]
    out, errs = {}, []
    runners = {
        "in_memory": lambda: run_dataset(case, slp, False, None),
        "np_chunks": lambda: run_dataset(case, slp, True, os.path.join(scratch, "npz")),
        "chunks+streaming": lambda: run_streaming(case, slp, os.path.join(scratch, "bin")),
    }
    for name, fn in runners.items():
        try:
            out[name] = fn()
        except Exception as e:
            tb = traceback.format_exc().strip().splitlines()
            where = next((ln.strip() for ln in reversed(tb) if "sleap_nn" in ln), "")
            errs.append(f"{name}: raised {type(e).__name__}: {e} [{where}]")
    info = {"n_samples": {k: len(v) for k, v in out.items()}, "digests": []}
    if errs:
        return errs, info
    ref = out["in_memory"]
    for name in ("np_chunks", "chunks+streaming"):
        if len(out[name]) != len(ref):
            errs.append(f"in_memory has {len(ref)} samples, {name} has {len(out[name])}")
    if errs:
        return errs, info
    for i, s in enumerate(ref):
        info["digests"].append(sample_digest(model, s))
        for name in ("np_chunks", "chunks+streaming"):
            for e in compare_samples(model, s, out[name][i], ("in_memory", name)):
                errs.append(f"sample {i}: {e}")
    # vacuity guards on the reference sample: a real image and a real target were compared
    spec = SPEC[model]
    if ref:
        info["img_max"] = max(float(_np(s[spec["image"]]).max()) for s in ref)
        info["map_max"] = max(float(np.abs(_np(s[spec["maps"][0]])).max()) for s in ref)
    return errs, info


# ---------------------------------------------------------------------------------------------------------------
# DataPipe blocks vs functional counterparts

BLOCK_PARAMS = {
    "Normalizer": [{"is_rgb": False, "float_in": False}, {"is_rgb": True, "float_in": False}, {"is_rgb": False, "float_in": True}, {"is_rgb": True, "float_in": True}],
    "Resizer": [{"scale": 1.0, "on": "image"}, {"scale": 0.5, "on": "image"}, {"scale": 0.75, "on": "image"}, {"scale": 0.5, "on": "crop"}, {"scale": 0.75, "on": "crop"}],
    "PadToStride": [{"max_stride": 1, "on": "image"}, {"max_stride": 16, "on": "image"}, {"max_stride": 32, "on": "image"}, {"max_stride": 5, "on": "image"}, {"max_stride": 16, "on": "crop"}],
    "InstanceCentroidFinder": [{"anchor": None}, {"anchor": 0}, {"anchor": 1}, {"anchor": 2}],
    "InstanceCropper": [{"crop_hw": [32, 32], "anchor": 0}, {"crop_hw": [24, 40], "anchor": 0}, {"crop_hw": [32, 32], "anchor": None}],
    "ConfidenceMapGenerator": [
        {"sigma": 1.5, "output_stride": 2, "on": "image"},
        {"sigma": 2.5, "output_stride": 4, "on": "image"},
        {"sigma": 1.5, "output_stride": 1, "on": "image"},
        {"sigma": 1.5, "output_stride": 2, "on": "crop"},
        {"sigma": 2.5, "output_stride": 4, "on": "crop"},
    ],
    "MultiConfidenceMapGenerator": [
        {"sigma": 1.5, "output_stride": 2, "centroids": False},
        {"sigma": 2.5, "output_stride": 4, "centroids": False},
        {"sigma": 1.5, "output_stride": 1, "centroids": False},
        {"sigma": 1.5, "output_stride": 2, "centroids": True},
        {"sigma": 2.5, "output_stride": 4, "centroids": True},
    ],
    "PartAffinityFieldsGenerator": [
        {"sigma": 1.5, "output_stride": 2, "flatten": True},
        {"sigma": 2.5, "output_stride": 4, "flatten": True},
        {"sigma": 1.5, "output_stride": 1, "flatten": False},
        {"sigma": 4.0, "output_stride": 4, "flatten": False},
    ],
}
BLOCKS = list(BLOCK_PARAMS)
CROP_FOR_BLOCKS = (32, 40)  # crop used to make the "crop" stage example (non-square)


def base_example(slp, frame):
    """The example the legacy pipeline starts from: process_lf on one labelled frame (uint8 image, NaN-padded instances)."""
    import sleap_io as sio
    from sleap_nn.data.providers import get_max_instances, process_lf

    labels = sio.load_slp(slp)
    return process_lf(labels[frame], 0, get_max_instances(labels), True), labels.skeletons[0].edge_inds


def _clone(ex):
    import torch

    return {k: (v.clone() if isinstance(v, torch.Tensor) else v) for k, v in ex.items()}


def _float_example(ex):
    from sleap_nn.data.normalization import apply_normalization

    e = _clone(ex)
    e["image"] = apply_normalization(e["image"])
    return e


def _crop_example(ex):
    """A cropped example (first instance) made with the *functions*; input of the blocks that run after cropping."""
    from sleap_nn.data.instance_centroids import generate_centroids
    from sleap_nn.data.instance_cropping import generate_crops

    e = _float_example(ex)
    cen = generate_centroids(e["instances"], anchor_ind=0)
    c = generate_crops(e["image"], e["instances"][0, 0], cen[0, 0], CROP_FOR_BLOCKS)
    c["num_instances"] = e["num_instances"]
    return c


def run_block_pair(block, p, ex, edge_inds):
    """Returns (block_out, func_out): lists of dicts name -> tensor (one per yielded example)."""
    import torch
    from sleap_nn.data import confidence_maps as cm
    from sleap_nn.data import edge_maps as em
    from sleap_nn.data import instance_centroids as ic
    from sleap_nn.data import instance_cropping as icr
    from sleap_nn.data import normalization as nm
    from sleap_nn.data import resizing as rs

    if block == "Normalizer":
        src = _float_example(ex) if p["float_in"] else _clone(ex)
        img = src["image"].clone()
        b = [{"image": o["image"]} for o in nm.Normalizer([src], is_rgb=p["is_rgb"])]
        f = nm.apply_normalization(img)
        f = nm.convert_to_rgb(f) if p["is_rgb"] else nm.convert_to_grayscale(f)
        return b, [{"image": f}]
    if block == "Resizer":
        if p["on"] == "image":
            src, ik, pk = _float_example(ex), "image", "instances"
        else:
            src, ik, pk = _crop_example(ex), "instance_image", "instance"
        img, pts = src[ik].clone(), src[pk].clone()
        b = [{"image": o[ik], "pts": o[pk]} for o in rs.Resizer([src], scale=p["scale"], image_key=ik, instances_key=pk)]
        fi, fp = rs.apply_resizer(img, pts, scale=p["scale"])
        return b, [{"image": fi, "pts": fp}]
    if block == "PadToStride":
        if p["on"] == "image":
            src, ik = _float_example(ex), "image"
        else:
            src, ik = _crop_example(ex), "instance_image"
        img = src[ik].clone()
        b = [{"image": o[ik]} for o in rs.PadToStride([src], max_stride=p["max_stride"], image_key=ik)]
        return b, [{"image": rs.apply_pad_to_stride(img, max_stride=p["max_stride"])}]
    if block == "InstanceCentroidFinder":
        src = _float_example(ex)
        pts = src["instances"].clone()
        b = [{"pts": o["centroids"], "instances_after": o["instances"]} for o in ic.InstanceCentroidFinder([src], anchor_ind=p["anchor"])]
        return b, [{"pts": ic.generate_centroids(pts, anchor_ind=p["anchor"]), "instances_after": pts}]
    if block == "InstanceCropper":
        src = _float_example(ex)
        src["centroids"] = ic.generate_centroids(src["instances"], anchor_ind=p["anchor"])
        img, pts, cen, n = src["image"].clone(), src["instances"].clone(), src["centroids"].clone(), int(src["num_instances"])
        hw = tuple(p["crop_hw"])
        b = []
        for o in icr.InstanceCropper([src], crop_hw=hw):  # the block re-yields one dict: snapshot it
            b.append({"image": o["instance_image"].clone(), "bbox": o["instance_bbox"].clone(), "pts": o["instance"].clone(), "centroid": o["centroid"].clone()})
        f = []
        for i in range(n):
            c = icr.generate_crops(img, pts[0, i], cen[0, i], hw)
            f.append({"image": c["instance_image"], "bbox": c["instance_bbox"], "pts": c["instance"], "centroid": c["centroid"]})
        return b, f
    if block == "ConfidenceMapGenerator":
        if p["on"] == "image":
            src, ik, pk = _float_example(ex), "image", "instances"
        else:
            src, ik, pk = _crop_example(ex), "instance_image", "instance"
        img_hw, pts = tuple(src[ik].shape[-2:]), src[pk].clone()
        b = [{"maps": o["confidence_maps"]} for o in cm.ConfidenceMapGenerator([src], sigma=p["sigma"], output_stride=p["output_stride"], image_key=ik, instance_key=pk)]
        return b, [{"maps": cm.generate_confmaps(pts, img_hw=img_hw, sigma=p["sigma"], output_stride=p["output_stride"])}]
    if block == "MultiConfidenceMapGenerator":
        src = _float_example(ex)
        img_hw, n = tuple(src["image"].shape[-2:]), src["num_instances"]
        if p["centroids"]:
            src["centroids"] = ic.generate_centroids(src["instances"], anchor_ind=0)
            pts, key = src["centroids"].clone(), "centroids_confidence_maps"
        else:
            pts, key = src["instances"].clone(), "confidence_maps"
        b = [{"maps": o[key]} for o in cm.MultiConfidenceMapGenerator([src], sigma=p["sigma"], output_stride=p["output_stride"], centroids=p["centroids"])]
        f = cm.generate_multiconfmaps(pts, img_hw=img_hw, num_instances=n, sigma=p["sigma"], output_stride=p["output_stride"], is_centroids=p["centroids"])
        return b, [{"maps": f}]
    if block == "PartAffinityFieldsGenerator":
        src = _float_example(ex)
        img_hw, pts = tuple(src["image"].shape[-2:]), src["instances"].clone()
        b = [
            {"maps": o["part_affinity_fields"]}
            for o in em.PartAffinityFieldsGenerator([src], sigma=p["sigma"], output_stride=p["output_stride"], edge_inds=torch.Tensor(edge_inds), flatten_channels=p["flatten"])
        ]
        f = em.generate_pafs(pts, img_hw=img_hw, sigma=p["sigma"], output_stride=p["output_stride"], edge_inds=torch.Tensor(edge_inds), flatten_channels=p["flatten"])
        return b, [{"maps": f}]
    raise ValueError(block)


def compare_block_outputs(b, f):
    """Block and function run the same float32 arithmetic: images 1e-6, points R2, maps 1e-4 (DESIGN C18)."""
    if len(b) != len(f):
        return [f"block yields {len(b)} examples, functional counterpart gives {len(f)}"]
    errs = []
    for i, (x, y) in enumerate(zip(b, f)):
        for k in x:
            if k in ("image",):
                errs += cmp_image(x[k], y[k], 1e-6, f"example {i}: image")
            elif k == "maps":
                errs += cmp_image(x[k], y[k], MAP_TOL, f"example {i}: maps")
            elif k == "bbox":
                errs += cmp_image(x[k], y[k], 1e-5, f"example {i}: bbox")
            else:
                errs += cmp_points(x[k], y[k], f"example {i}: {k}")
    return errs


def block_digest(b):
    import hashlib

    h = hashlib.sha1()
    for x in b:
        for k in sorted(x):
            a = _np(x[k])
            h.update(str(a.shape).encode())
            h.update(np.round(np.nan_to_num(a, nan=-1.0), 3).tobytes())
    return h.hexdigest()[:16]
