"""C07 -- global peak detection reports a true maximum; refinement is bounded and helps.

E1, exhaustive small-scope enumeration.  Every map of size h x w (h, w <= 3, strips up to 5;
thorough adds 3x4, 4x3, 4x4) over a small ordered value alphabet -- which contains every tie
pattern, border/corner maxima and all-below-threshold maps -- is pushed through the real
`find_global_peaks_rough` / `find_global_peaks` of sleap_nn.inference.peak_finding, packed
into (samples, channels) batches in two layouts (so valid and invalid channels are mixed),
for every threshold of the threshold alphabet.  The oracle is the argmax *set* of the map.
Refinement clauses: displacement bound on the enumerated maps, improvement toward the true
centre on Gaussian bumps whose centres run over a sub-pixel lattice of a 9x9 map, zero offset
on symmetric bumps centred on a cell.
"""
from __future__ import annotations

import itertools

import numpy as np

from mc import core

LEVEL = "model_checking"
RULE = (
    "every h x w map over the value alphabet x every threshold x two (samples,channels) packings, through the real "
    "find_global_peaks_rough and find_global_peaks (refinement None and 'integral', patch 3, 4, 5 (and 6 on the Gaussian / symmetric families)); plus Gaussian bumps on "
    "9x9 maps for every centre of the sub-pixel lattice x sigma x amplitude (valid/invalid) and all mirror-symmetric 3x3 "
    "bumps at every interior cell; one evaluation = one (map, threshold, packing, function variant) comparison with the "
    "oracle; states = distinct input maps; transitions = calls of the real functions (batched); a map is non-trivial "
    "when it is not constant and for some threshold its maximum is not below the threshold (the detector has to pick a "
    "cell); maps whose maximum is attained in >= 2 cells are counted separately (tied_map_threshold_pairs)"
)
ASSUMPTIONS = [
    "huge family: one 4200x4100 float32 map (> 2**24 cells) with its single maximum at 10 cells of the last rows / columns, rough detector",
    "dtype family: float16 / bfloat16 / float64 single-peak maps with the maximum at each of the last 80 positions of a 320-long axis, rough detector only (integral refinement is not defined for half precision in this code base)",
    "history part: all ordered pairs (thorough: triples) of a small call alphabet chosen to collide in every shape-like cache key, each history in a forked child, compared with a fresh-process result",
    "bounded scope: 'all float maps' = all maps with h,w <= 3 (plus 1xN/Nx1 strips N<=5; thorough: 3x4, 4x3 over 3 levels, 4x4 over 2 levels) over <= 4 value levels {-1,0,0.5,1}; refinement on those maps raw and embedded in 7x7 zero maps, on 9x9 Gaussian bumps (centres on the 1/4-px lattice quick, 1/8-px thorough; sigma 1, 1.5, 2.5; amplitudes 1 and 0.15) and on mirror-symmetric 3x3 bumps",
    "thresholds {-2, 0, 0.2, 0.5, 0.75, 2} are passed as the float64 value of their float32 rounding; 'below the threshold' is read strictly (a maximum equal to the threshold is a valid peak)",
    "refinement displacement bound is asserted where it exists mathematically: non-negative map and positive peak value (convex regression weights); 'half the patch size' is read as the half-extent (patch-1)/2 of the patch's cell-centre grid, +1e-5 slack; outside that domain only values / NaN pattern are asserted and the cases are counted (refine_outside_domain)",
    "'moves toward the true centre' is asserted for Gaussian bumps whose true centre lies at least (patch-1)/2 cells inside the map (full patch inside: at the border the zero-padded patch biases integral regression by construction): distance to the true centre must not grow (1e-6) and must strictly shrink when the grid peak is >= 0.25 px off; elsewhere only the displacement bound",
    "symmetric bump = pattern invariant under left-right and up-down mirroring about a cell whose patch lies inside the map; offset must be 0 within 1e-6",
    "packing independence is checked between layout A (N,1), layout B (ceil(N/3),3) with the map order rotated (rotation depends on VERIF_SEED) and layout C (= B stored channels-last: a dense non-contiguous tensor)",
]
MIN_OUTCOMES = 20

ALPHA3 = [0.0, 0.5, 1.0]
ALPHA4 = [-1.0, 0.0, 0.5, 1.0]
ALPHA2 = [0.0, 1.0]
THRESHOLDS = [-2.0, 0.0, 0.2, 0.5, 0.75, 2.0]
BATCH = 16384
TOL = 1e-5
TOL_SYM = 1e-6
TOL_IMPROVE = 1e-6
MAX_VIOL_PER_BATCH = 3
SYM_LEVELS = [0.0, 0.25, 0.5, 0.75]


def f32(v):
    return float(np.float32(v))


# ---------------------------------------------------------------------------
# map generators: spec (small JSON dict) -> (N, H, W) float32 array (+ per-map meta)


def gauss_params(H, W, q):
    """All (cx, cy, sigma, amp): centres on the 1/q lattice of the whole map."""
    out = []
    for sigma in (1.0, 1.5, 2.5):
        for amp in (1.0, 0.15):
            for cyq in range(0, q * (H - 1) + 1):
                for cxq in range(0, q * (W - 1) + 1):
                    out.append((cxq / q, cyq / q, sigma, amp))
    return out


def sym_params(H, W):
    """Mirror-symmetric 3x3 bumps [[c,v,c],[u,1,u],[c,v,c]] centred on every cell at least 2 inside the map."""
    out = []
    for u, v, c in itertools.product(SYM_LEVELS, repeat=3):
        for cy in range(2, H - 2):
            for cx in range(2, W - 2):
                out.append((cx, cy, u, v, c))
    return out


def n_maps(spec):
    if spec["gen"] == "enum":
        return len(spec["alphabet"]) ** (spec["h"] * spec["w"])
    if spec["gen"] == "gauss":
        return len(gauss_params(spec["H"], spec["W"], spec["q"]))
    return len(sym_params(spec["H"], spec["W"]))


def build(spec):
    """-> maps (N,H,W) float32, meta (N,k) float64 or None (gauss: cx,cy,sigma,amp; sym: cx,cy)."""
    lo, n = spec["lo"], spec["n"]
    if spec["gen"] == "enum":
        h, w, alph = spec["h"], spec["w"], np.asarray(spec["alphabet"], dtype=np.float32)
        A, hw = len(alph), h * w
        idx = np.arange(lo, lo + n, dtype=np.int64)
        pw = A ** np.arange(hw - 1, -1, -1, dtype=np.int64)
        digits = (idx[:, None] // pw[None, :]) % A
        maps = alph[digits].reshape(n, h, w)
        emb = spec.get("embed")
        if emb:
            H, W, oy, ox = emb
            big = np.zeros((n, H, W), dtype=np.float32)
            big[:, oy : oy + h, ox : ox + w] = maps
            maps = big
        return np.ascontiguousarray(maps), None
    H, W = spec["H"], spec["W"]
    if spec["gen"] == "gauss":
        P = np.asarray(gauss_params(H, W, spec["q"])[lo : lo + n], dtype=np.float64)
        yy, xx = np.mgrid[0:H, 0:W].astype(np.float64)
        d2 = (xx[None] - P[:, 0, None, None]) ** 2 + (yy[None] - P[:, 1, None, None]) ** 2
        maps = P[:, 3, None, None] * np.exp(-d2 / (2 * P[:, 2, None, None] ** 2))
        return np.ascontiguousarray(maps.astype(np.float32)), P
    if spec["gen"] == "sym":
        P = sym_params(H, W)[lo : lo + n]
        maps = np.zeros((len(P), H, W), dtype=np.float32)
        for i, (cx, cy, u, v, c) in enumerate(P):
            maps[i, cy - 1 : cy + 2, cx - 1 : cx + 2] = np.array([[c, v, c], [u, 1.0, u], [c, v, c]], dtype=np.float32)
        return maps, np.asarray([p[:2] for p in P], dtype=np.float64)
    raise ValueError(spec)


def packing(N, layout, rot):
    if layout == "A":
        return np.arange(N), N, 1
    C = 3
    S = (N + C - 1) // C
    order = (np.arange(S * C) + rot) % N
    return order, S, C


# ---------------------------------------------------------------------------
# oracle, from the property text


def oracle_single(m, thr):
    """Plain Python: (valid, max, sorted argmax set [(y,x)]) of one map."""
    cells = [(float(v), y, x) for y, row in enumerate(m) for x, v in enumerate(row)]
    mx = max(c[0] for c in cells)
    return (not mx < thr), mx, sorted((y, x) for v, y, x in cells if v == mx)


def judge(arr, thr, pts, vals):
    """arr (S,C,H,W) f32; pts (S,C,2), vals (S,C) as returned. -> bool (S,C) 'bad', plus reason codes."""
    S, C, H, W = arr.shape
    a = arr.astype(np.float64)
    mx = a.max(axis=(2, 3))
    valid = ~(mx < thr)
    px, py = pts[..., 0].astype(np.float64), pts[..., 1].astype(np.float64)
    v = vals.astype(np.float64)
    nanpt = np.isnan(px) & np.isnan(py)
    bad_invalid = ~valid & ~(nanpt & (v == 0))
    with np.errstate(invalid="ignore"):
        incell = np.isfinite(px) & np.isfinite(py) & (px == np.round(px)) & (py == np.round(py)) & (px >= 0) & (px < W) & (py >= 0) & (py < H)
    xi = np.where(incell, px, 0).astype(np.int64)
    yi = np.where(incell, py, 0).astype(np.int64)
    at = a[np.arange(S)[:, None], np.arange(C)[None, :], yi, xi]
    bad_valid = valid & ~(incell & (at == mx) & (v == mx))
    return bad_invalid | bad_valid, valid, mx


def _unpack(out, S, C):
    if not isinstance(out, (tuple, list)) or len(out) != 2:
        return f"return value is not a 2-tuple: {type(out).__name__}"
    try:
        pts, vals = [o.detach().cpu().numpy() for o in out]
    except Exception as e:
        return f"return tuple members are not tensors: {e}"
    if pts.shape != (S, C, 2) or vals.shape != (S, C):
        return f"shapes points{pts.shape} vals{vals.shape}, expected ({S},{C},2) and ({S},{C})"
    return pts, vals


def examine(spec, thr, rot, patch, layouts=("A", "B", "C")):
    import torch
    from sleap_nn.inference import peak_finding as pf

    maps, meta = build(spec)
    N, H, W = maps.shape
    viol, calls, evals = [], 0, 0
    nt = np.zeros(N, dtype=bool)
    codes = set()
    st = {"refine_outside_domain": 0, "refine_in_domain": 0, "tied_map_threshold_pairs": 0, "invalid_map_threshold_pairs": 0,
          "improve_checked": 0, "symmetric_checked": 0, "max_refine_displacement": 0.0, "max_symmetric_offset": 0.0,
          "min_improvement": None}
    refined_by_layout = {}

    def cap(rows, layout, mk):
        for r in rows[:MAX_VIOL_PER_BATCH]:
            viol.append(mk(r))
        if len(rows) > MAX_VIOL_PER_BATCH:
            viol.append(("more", layout, len(rows) - MAX_VIOL_PER_BATCH))

    for layout in layouts:
        order, S, C = packing(N, layout, rot)
        arr = np.ascontiguousarray(maps[order].reshape(S, C, H, W))
        t = torch.from_numpy(arr.copy())
        if layout == "C":  # same packing as B, but a dense NON-contiguous tensor: an NHWC buffer viewed as NCHW (channels-last)
            t = torch.from_numpy(np.ascontiguousarray(arr.transpose(0, 2, 3, 1))).permute(0, 3, 1, 2)
        flat_order = order.reshape(S, C)
        a64 = arr.astype(np.float64)
        mx = a64.max(axis=(2, 3))
        if layout == layouts[0]:
            f = a64.reshape(S * C, H * W)[:N]
            fm = f.max(axis=1)
            ntie = (f == fm[:, None]).sum(axis=1)
            validf = ~(fm < thr)
            nt[order[:N]] = validf & (f.min(axis=1) < fm)
            st["tied_map_threshold_pairs"] += int((validf & (ntie >= 2) & (ntie < H * W)).sum())
            st["invalid_map_threshold_pairs"] += int((~validf).sum())

        rough = None
        for vname, fn in (
            ("rough", lambda: pf.find_global_peaks_rough(t, threshold=thr)),
            ("global_none", lambda: pf.find_global_peaks(t, threshold=thr, refinement=None)),
        ):
            calls += 1
            evals += S * C
            try:
                out = _unpack(fn(), S, C)
            except Exception as e:
                viol.append((None, layout, f"{vname}: raised {type(e).__name__}: {e}"))
                continue
            if isinstance(out, str):
                viol.append((None, layout, f"{vname}: {out}"))
                continue
            pts, vals = out
            bad, valid, _ = judge(arr, thr, pts, vals)
            if bad.any():
                rows = list(zip(*[v.tolist() for v in np.nonzero(bad)]))

                def mk(sc, vname=vname, pts=pts, vals=vals, valid=valid):
                    s, c = sc
                    ok, m, am = oracle_single(arr[s, c].tolist(), thr)
                    exp = f"a cell of the argmax set (y,x) {am} with value {m}" if ok else "(NaN, NaN) with value 0 (maximum is below the threshold)"
                    return (
                        int(flat_order[s, c]),
                        layout,
                        f"{vname}: map {arr[s, c].tolist()} threshold {thr:g} at (sample {s}, channel {c}) of a ({S},{C},{H},{W}) batch: "
                        f"returned (x,y)={pts[s, c].tolist()} value {float(vals[s, c])}; expected {exp}",
                    )

                cap(rows, layout, mk)
            if vname == "rough":
                rough = (pts, vals)
                if layout == layouts[0]:
                    with np.errstate(invalid="ignore"):
                        cell = np.where(np.isnan(pts[..., 0]), -1, pts[..., 1] * W + pts[..., 0])
                    u = np.unique(np.stack([cell.ravel(), vals.ravel().astype(np.float64)], axis=1), axis=0)
                    codes.update(f"{H}x{W}:t{thr:g}:{r[0]:g}:{r[1]:.3g}" for r in u[:200])

        if patch is None:
            continue
        # ---- integral refinement ------------------------------------------------------------------------------------------
        calls += 1
        evals += S * C
        try:
            out = _unpack(pf.find_global_peaks(t, threshold=thr, refinement="integral", integral_patch_size=patch), S, C)
        except Exception as e:
            viol.append((None, layout, f"integral(patch={patch}): raised {type(e).__name__}: {e}"))
            continue
        if isinstance(out, str):
            viol.append((None, layout, f"integral(patch={patch}): {out}"))
            continue
        if rough is None:
            continue
        rpts, rvals = rough
        pts, vals = out
        rpts64, pts64 = rpts.astype(np.float64), pts.astype(np.float64)
        valid = ~(mx < thr)
        # values and the NaN pattern: invalid channels stay (NaN, NaN)/0, valid ones keep the maximum as value
        v64 = vals.astype(np.float64)
        bad = np.where(valid, v64 != mx, ~(np.isnan(pts64).all(axis=-1) & (v64 == 0)))
        dom = valid & (a64.min(axis=(2, 3)) >= 0) & (mx > 0) & np.isfinite(rpts64).all(axis=-1)
        st["refine_outside_domain"] += int((valid & ~dom).sum())
        st["refine_in_domain"] += int(dom.sum())
        disp = np.abs(pts64 - rpts64)
        lim = (patch - 1) / 2 + TOL
        with np.errstate(invalid="ignore"):
            too_far = dom & ~((disp[..., 0] <= lim) & (disp[..., 1] <= lim))
        if dom.any():
            d = disp[dom]
            d = d[np.isfinite(d).all(axis=1)]
            if len(d):
                st["max_refine_displacement"] = max(st["max_refine_displacement"], float(d.max()))
        if bad.any():
            rows = list(zip(*[v.tolist() for v in np.nonzero(bad)]))
            cap(
                rows,
                layout,
                lambda sc: (
                    int(flat_order[sc]),
                    layout,
                    f"integral(patch={patch}): map {arr[sc].tolist()} threshold {thr:g} at (sample {sc[0]}, channel {sc[1]}) of a ({S},{C},{H},{W}) batch: returned {pts[sc].tolist()} value {float(vals[sc])}; "
                    + (f"value must be the maximum {mx[sc]}" if valid[sc] else "maximum is below the threshold: expected (NaN, NaN), value 0"),
                ),
            )
        if too_far.any():
            rows = list(zip(*[v.tolist() for v in np.nonzero(too_far)]))
            cap(
                rows,
                layout,
                lambda sc: (
                    int(flat_order[sc]),
                    layout,
                    f"integral(patch={patch}): map {arr[sc].tolist()} threshold {thr:g} at (sample {sc[0]}, channel {sc[1]}) of a ({S},{C},{H},{W}) batch: "
                    f"grid peak {rpts[sc].tolist()} refined to {pts[sc].tolist()}: moves more than (patch-1)/2={(patch - 1) / 2}",
                ),
            )
        r_half = patch // 2  # cells the patch reaches from the peak cell (even patches reach patch/2 on one side)
        if meta is not None and spec["gen"] == "gauss":
            P = meta[order].reshape(S, C, 4)
            true = P[..., :2]
            inside = (true[..., 0] >= r_half) & (true[..., 0] <= W - 1 - r_half) & (true[..., 1] >= r_half) & (true[..., 1] <= H - 1 - r_half)
            chk = dom & inside
            d_r = np.sqrt(((rpts64 - true) ** 2).sum(axis=-1))
            d_f = np.sqrt(((pts64 - true) ** 2).sum(axis=-1))
            with np.errstate(invalid="ignore"):
                worse = chk & ~((d_f <= d_r + TOL_IMPROVE) & ((d_r < 0.25 - 1e-9) | (d_f < d_r)))
            st["improve_checked"] += int(chk.sum())
            far = chk & (d_r >= 0.25 - 1e-9)
            if far.any():
                mi_ = float((d_r - d_f)[far].min())
                st["min_improvement"] = mi_ if st["min_improvement"] is None else min(st["min_improvement"], mi_)
            if worse.any():
                rows = list(zip(*[v.tolist() for v in np.nonzero(worse)]))
                cap(
                    rows,
                    layout,
                    lambda sc: (
                        int(flat_order[sc]),
                        layout,
                        f"integral(patch={patch}): Gaussian bump centre (x,y)={true[sc].tolist()} sigma {P[sc][2]} amplitude {P[sc][3]} on a {H}x{W} map, threshold {thr:g}, (sample {sc[0]}, channel {sc[1]}) of a ({S},{C},{H},{W}) batch: "
                        f"grid peak {rpts[sc].tolist()} is {d_r[sc]:.6f} from the centre, refined {pts[sc].tolist()} is {d_f[sc]:.6f} from it: refinement does not move toward the true centre",
                    ),
                )
        if meta is not None and spec["gen"] == "sym":
            cen = meta[order].reshape(S, C, 2)
            chk = dom
            st["symmetric_checked"] += int(chk.sum())
            off = np.abs(pts64 - cen)
            with np.errstate(invalid="ignore"):
                moved = chk & ~((off[..., 0] <= TOL_SYM) & (off[..., 1] <= TOL_SYM))
            fin = off[chk & np.isfinite(off).all(axis=-1)]
            if len(fin):
                st["max_symmetric_offset"] = max(st["max_symmetric_offset"], float(fin.max()))
            if moved.any():
                rows = list(zip(*[v.tolist() for v in np.nonzero(moved)]))
                cap(
                    rows,
                    layout,
                    lambda sc: (
                        int(flat_order[sc]),
                        layout,
                        f"integral(patch={patch}): mirror-symmetric bump centred on cell (x,y)={cen[sc].tolist()}, 3x3 block {arr[sc][int(cen[sc][1]) - 1 : int(cen[sc][1]) + 2, int(cen[sc][0]) - 1 : int(cen[sc][0]) + 2].tolist()} on a {H}x{W} zero map, threshold {thr:g}, "
                        f"(sample {sc[0]}, channel {sc[1]}) of a ({S},{C},{H},{W}) batch: refined to {pts[sc].tolist()} (grid peak {rpts[sc].tolist()}): a symmetric bump must stay unmoved",
                    ),
                )
        refined_by_layout[layout] = (order[:N], pts64.reshape(S * C, 2)[:N], v64.reshape(S * C)[:N])
        with np.errstate(invalid="ignore"):
            codes.update(f"r{patch}:{v:g}" for v in np.unique(np.round((pts64 - rpts64)[dom], 2))[:60].tolist())

    for other in [l for l in layouts[1:] if l in refined_by_layout and layouts[0] in refined_by_layout and patch is not None]:
        (oa, pa, va), (ob, pb, vb) = refined_by_layout[layouts[0]], refined_by_layout[other]
        ia, ib = np.argsort(oa), np.argsort(ob)
        pa, pb, va, vb = pa[ia], pb[ib], va[ia], vb[ib]
        evals += N
        diff = ~(np.isclose(pa, pb, rtol=0.0, atol=TOL, equal_nan=True).all(axis=1) & (va == vb))
        if diff.any():
            rows = np.nonzero(diff)[0].tolist()
            tag = "AB" if other == "B" else "A" + other
            cap(
                rows,
                tag,
                lambda i, pa=pa, pb=pb, va=va, vb=vb, tag=tag, other=other: (
                    int(i),
                    tag,
                    f"integral(patch={patch}): map {maps[i].tolist()} threshold {thr:g}: refined to {pa[i].tolist()} value {va[i]} in packing A (N,1) but {pb[i].tolist()} value {vb[i]} in packing {other} (N/3,3 rotated by {rot}" + (", channels-last memory" if other == "C" else "") + "): "
                    "one channel's result depends on the others",
                ),
            )
    return {"viol": viol, "calls": calls, "evals": evals, "nt": nt, "codes": codes, "st": st, "maps": maps}


# ---------------------------------------------------------------------------
# explorer


def state_base(spec):
    if spec["gen"] == "enum":
        emb = spec.get("embed") or [0, 0, 0, 0]
        tag = ((spec["h"] * 8 + spec["w"]) * 8 + len(spec["alphabet"])) * 64 + emb[0] * 8 + emb[2]
    elif spec["gen"] == "gauss":
        tag = 100000 + (spec["H"] * 16 + spec["W"]) * 16 + spec["q"]
    else:
        tag = 200000 + spec["H"] * 16 + spec["W"]
    return tag << 40


def work(part, shard):
    for spec, thrs, patches, rot in shard:
        base = state_base(spec)
        lo, n = spec["lo"], spec["n"]
        part.states.update(range(base + lo, base + lo + n))
        for thr in thrs:
            for patch in patches:
                r = examine(spec, thr, rot, patch)
                part.count(r["evals"])
                part.transition(r["calls"])
                part.add("map_threshold_pairs", n)
                for k, v in r["st"].items():
                    if k.startswith("max_"):
                        part.maxi(k, v)
                    elif k == "min_improvement":
                        if v is not None:
                            part.extra["max_negated_min_improvement_off_grid_px"] = max(part.extra.get("max_negated_min_improvement_off_grid_px", -v), -v)
                    else:
                        part.add(k, v)
                nt = r["nt"]
                part.nontrivial.update((base + lo + np.nonzero(nt)[0]).tolist())
                for c in r["codes"]:
                    part.outcome(c)
                maps = r["maps"]

                def mk(i, layout="A"):
                    return {
                        "spec": spec,
                        "threshold": thr,
                        "rot": rot,
                        "patch": patch,
                        "layout": layout,
                        "map_index": i,
                        "map": None if i is None else maps[i].tolist(),
                    }

                part.sample(mk(0), bool(nt[0]))
                if nt.any():
                    part.sample(mk(int(np.nonzero(nt)[0][0])), True)
                part.sample(mk(n - 1), bool(nt[n - 1]))
                for mi, layout, msg in r["viol"]:
                    if mi == "more":
                        part.n_viol += int(msg)
                        continue
                    part.violation(dict(mk(mi, layout), variant=str(msg).split(":")[0]), msg)


def self_check():
    """judge() must agree with the plain-Python oracle on hand-made outputs (harness self-test)."""
    spec = {"gen": "enum", "h": 2, "w": 2, "alphabet": [f32(a) for a in ALPHA4], "lo": 0, "n": 4**4}
    maps, _ = build(spec)
    arr = maps[:, None]
    for thr in (f32(0.0), f32(0.75)):
        for cell in range(4):
            y, x = divmod(cell, 2)
            pts = np.zeros((len(maps), 1, 2), dtype=np.float32)
            pts[..., 0], pts[..., 1] = x, y
            vals = arr[:, :, y, x].copy()
            bad, valid, mx = judge(arr, thr, pts, vals)
            for i in range(len(maps)):
                ok, m, am = oracle_single(maps[i].tolist(), thr)
                exp_bad = (not ok) or ((y, x) not in am)
                if bool(bad[i, 0]) != exp_bad or bool(valid[i, 0]) != ok:
                    raise AssertionError(f"oracle self-check failed on {maps[i].tolist()} thr={thr} cell={(y, x)}")


def plan(tier):
    thr = [f32(t) for t in THRESHOLDS]
    items = []

    def enum(h, w, alph, patches=(None,), embed=None, thrs=thr):
        s = {"gen": "enum", "h": h, "w": w, "alphabet": [f32(a) for a in alph]}
        if embed:
            s["embed"] = list(embed)
        items.append((s, list(thrs), list(patches)))

    small = [(1, 1), (1, 2), (2, 1), (1, 3), (3, 1), (2, 2), (1, 4), (4, 1), (1, 5), (5, 1), (2, 3), (3, 2)]
    for h, w in small:
        enum(h, w, ALPHA4, patches=(None, 3, 4, 5))
    if tier == "quick":
        enum(3, 3, ALPHA3, patches=(None, 3, 4, 5))
        enum(3, 3, ALPHA3, patches=(5,), embed=(7, 7, 2, 2), thrs=[thr[2], thr[4]])
        q = 4
    else:
        enum(3, 3, ALPHA4, patches=(None, 3, 4, 5))
        enum(3, 4, ALPHA3)
        enum(4, 3, ALPHA3)
        enum(4, 4, ALPHA2, patches=(None, 3, 4, 5))
        enum(3, 3, ALPHA3, patches=(3, 5), embed=(7, 7, 2, 2))
        enum(3, 3, ALPHA3, patches=(3, 5), embed=(5, 5, 0, 2))
        q = 8
    items.append(({"gen": "gauss", "H": 9, "W": 9, "q": q}, [f32(0.05), f32(0.2)], [3, 4, 5, 6]))
    if tier != "quick":
        items.append(({"gen": "gauss", "H": 7, "W": 11, "q": 4}, [f32(0.05), f32(0.2)], [3, 4, 5, 6]))
    items.append(({"gen": "sym", "H": 9, "W": 9}, [f32(0.2), f32(2.0)], [3, 4, 5, 6]))
    items.append(({"gen": "sym", "H": 6, "W": 7}, [f32(0.2)], [3, 4, 5, 6]))
    return items


FN_NAME = "find_global_peaks"


def history_calls():
    """Calls that collide in batch shape / patch size / threshold in different combinations."""
    import numpy as np

    out = []
    rng_maps = {}
    for (s, c, h, w) in [(2, 3, 5, 5), (1, 3, 7, 5), (3, 1, 5, 7)]:
        yy, xx = np.mgrid[0:h, 0:w].astype(np.float64)
        m = np.zeros((s, c, h, w), dtype=np.float32)
        for i in range(s):
            for j in range(c):
                cx, cy = 1.3 + 0.9 * j + 0.4 * i, 1.6 + 0.7 * i + 0.3 * j
                m[i, j] = np.exp(-((xx - cx) ** 2 + (yy - cy) ** 2) / 2.0) + 0.6 * np.exp(-((xx - (w - 1.4)) ** 2 + (yy - (h - 1.7 - 0.2 * j)) ** 2) / 1.5)
        rng_maps[(s, c, h, w)] = m
    for shape, m in rng_maps.items():
        for patch in (None, 3, 4, 5):
            for thr in ((0.2, 0.7) if patch == 5 else (0.2,)):
                out.append((f"%s(shape={shape},patch={patch},thr={thr})" % FN_NAME, {"maps": m, "patch": patch, "thr": thr}))
    return out


def history_run(entry):
    import torch

    from sleap_nn.inference import peak_finding as pf

    c = entry[1]
    t = torch.from_numpy(c["maps"].copy())
    fn = getattr(pf, FN_NAME)
    if c["patch"] is None:
        return list(fn(t, threshold=c["thr"], refinement=None))
    return list(fn(t, threshold=c["thr"], refinement="integral", integral_patch_size=c["patch"]))

def dtype_family(part):
    """Reduced / extended precision maps (what a network emits under fp16 / bf16 autocast, or float64): single-peak
    maps whose maximum sits at every one of the last 80 positions of a 320-long axis (indices that half precision
    cannot represent exactly), through find_global_peaks_rough.  Oracle as everywhere: reported cell attains the
    maximum, reported value equals it; an all-below-threshold channel gives NaN / 0."""
    import torch

    from sleap_nn.inference import peak_finding as pf

    for dt in (torch.float16, torch.bfloat16, torch.float64):
        for axis, (H, W) in (("x", (1, 320)), ("y", (320, 1)), ("x", (3, 300))):
            L = W if axis == "x" else H
            pos = list(range(L - 80, L))
            maps = torch.full((len(pos), 2, H, W), 0.25, dtype=dt)
            for i, p_ in enumerate(pos):
                if axis == "x":
                    maps[i, 0, H // 2, p_] = 1.0
                else:
                    maps[i, 0, p_, W // 2] = 1.0
                maps[i, 1] = 0.125  # below the threshold
            case = {"kind": "dtype", "dtype": str(dt), "H": H, "W": W, "axis": axis}
            part.count(len(pos))
            part.transition()
            key = f"dtype:{dt}:{H}x{W}:{axis}"
            part.state(key)
            part.nontriv(key)
            part.sample(case, True)
            try:
                pts, vals = pf.find_global_peaks_rough(maps, threshold=0.2)
            except Exception as e:
                part.violation(case, f"find_global_peaks_rough raised {type(e).__name__} on {dt} maps: {e}")
                continue
            pts64, v64 = pts.to(torch.float64).numpy(), vals.to(torch.float64).numpy()
            part.outcome(f"{key}:{pts.dtype}")
            for i, p_ in enumerate(pos):
                want = (float(p_), float(H // 2)) if axis == "x" else (float(W // 2), float(p_))
                got = (float(pts64[i, 0, 0]), float(pts64[i, 0, 1]))
                if got != want or abs(v64[i, 0] - 1.0) > 1e-3:
                    part.violation(dict(case, peak=p_), f"{dt} map {H}x{W} with its maximum at {axis}={p_}: reported cell (x,y)={got} value {v64[i, 0]}, the maximum is at {want} (value 1.0)")
                    break
                if not (pts64[i, 1] != pts64[i, 1]).all() or v64[i, 1] != 0:
                    part.violation(dict(case, peak=p_), f"{dt} map: channel below the threshold reported {pts64[i, 1].tolist()} value {v64[i, 1]} (expected NaN / 0)")
                    break


def huge_family(part):
    """One float32 map with more than 2**24 cells (4200 x 4100: flat indices beyond what float32 represents exactly);
    the single maximum is placed at cells of the last rows / last column, through find_global_peaks_rough."""
    import torch

    from sleap_nn.inference import peak_finding as pf

    H, W = 4200, 4100
    cells = [(W - 1, 4093), (W - 1, 4094), (W - 1, 4095), (W - 1, 4096), (W - 1, H - 2), (W - 1, H - 1), (0, H - 1), (W - 2, H - 1), (2049, 4097), (1, 4093)]
    maps = torch.zeros((1, 1, H, W), dtype=torch.float32)
    for x, y in cells:
        maps[0, 0, y, x] = 1.0
        case = {"kind": "huge", "H": H, "W": W, "peak": [x, y]}
        part.count()
        part.transition()
        key = f"huge:{x}:{y}"
        part.state(key)
        part.nontriv(key)
        part.sample(case, True)
        try:
            pts, vals = pf.find_global_peaks_rough(maps, threshold=0.2)
            got = (float(pts[0, 0, 0]), float(pts[0, 0, 1]), float(vals[0, 0]))
        except Exception as e:
            part.violation(case, f"find_global_peaks_rough raised {type(e).__name__} on a {H}x{W} map: {e}")
            maps[0, 0, y, x] = 0.0
            continue
        maps[0, 0, y, x] = 0.0
        part.outcome(f"huge:{got[0] == x and got[1] == y}")
        if got != (float(x), float(y), 1.0):
            part.violation(case, f"{H}x{W} map with its maximum 1.0 at (x,y)=({x},{y}): reported cell ({got[0]},{got[1]}) value {got[2]}")


def run(ctx):
    core.setup_torch()
    # E2 part first (the parent has not called the functions yet): every ordered pair / triple of a small call alphabet
    # in forked children, each result compared with the same call in a fresh process (history-dependent state)
    from mc import history as _history

    _history.search(ctx, history_calls(), history_run, depth=2 if ctx.tier == "quick" else 3)
    self_check()
    jobs, bounds = [], []
    for spec, thrs, patches in plan(ctx.tier):
        total = n_maps(spec)
        bounds.append(dict(spec, maps=total, thresholds=thrs, patches=["none" if p is None else p for p in patches]))
        for lo in range(0, total, BATCH):
            n = min(BATCH, total - lo)
            rot = 1 + (ctx.seed * 7 + lo // BATCH) % max(1, n - 1)
            jobs.append((dict(spec, lo=lo, n=n), thrs, patches, rot))
    ctx.bounds = {"generators": bounds, "packings": ["A:(N,1)", "B:(ceil(N/3),3) rotated"], "batch": BATCH}
    jobs = core.rotate(jobs, ctx.seed)
    core.pmap(ctx, work, core.shard_list(jobs, max(16, min(len(jobs), 96))))
    dtype_family(ctx)
    huge_family(ctx)


def replay(case):
    if isinstance(case, dict) and case.get("kind") == "huge":
        core.setup_torch()
        part = core.Part()
        huge_family(part)
        hits = [m for c, m in part.viol if c.get("peak") == case.get("peak")]
        return {"violates": bool(hits), "messages": hits[:2]}
    if isinstance(case, dict) and case.get("kind") == "dtype":
        core.setup_torch()
        part = core.Part()
        dtype_family(part)
        hits = [m for c, m in part.viol if c.get("dtype") == case.get("dtype") and c.get("H") == case.get("H") and c.get("axis") == case.get("axis")]
        return {"violates": bool(hits), "messages": hits[:2]}
    if isinstance(case, dict) and case.get("kind") == "history":
        core.setup_torch()
        from mc import history as _history

        return _history.replay(case, history_calls(), history_run)
    core.setup_torch()
    import torch
    from sleap_nn.inference import peak_finding as pf

    spec, thr, rot, patch = case["spec"], case["threshold"], case["rot"], case.get("patch")
    mi, layout = case.get("map_index"), case.get("layout", "A")
    layouts = ("A", "C") if layout in ("C", "AC") else (("A", "B") if layout == "AB" or patch is not None else (layout,))
    r = examine(spec, thr, rot, patch, layouts=layouts)
    mine = [(m, l, msg) for m, l, msg in r["viol"] if m != "more" and (mi is None or m is None or m == mi)]
    out = {"batch_violations_for_this_map": [f"[{l}] {msg}" for m, l, msg in mine], "violates": bool(mine)}
    if mi is not None:
        m = r["maps"][mi]
        t = torch.from_numpy(m[None, None].copy())
        try:
            pts, vals = pf.find_global_peaks_rough(t, threshold=thr)
            ok, mxv, am = oracle_single(m.tolist(), thr)
            p, v = pts[0, 0].tolist(), float(vals[0, 0])
            out["alone"] = {"map": m.tolist(), "threshold": thr, "returned_xy": p, "returned_value": v,
                            "expected": {"valid": ok, "max": mxv, "argmax_set_yx": am}}
            if ok:
                good = all(np.isfinite(p)) and (int(p[1]), int(p[0])) in am and p[0] == int(p[0]) and p[1] == int(p[1]) and v == mxv
            else:
                good = bool(np.isnan(p[0]) and np.isnan(p[1]) and v == 0)
            if not good:
                out["violates"] = True
            if patch is not None:
                rp = pf.find_global_peaks(t, threshold=thr, refinement="integral", integral_patch_size=patch)[0]
                out["alone"]["refined_xy"] = rp[0, 0].tolist()
        except Exception as e:
            out["alone"] = f"raised {type(e).__name__}: {e}"
            out["violates"] = True
    if not mine and r["viol"] and mi is not None:
        out["other_violations_in_batch"] = sum(1 if m != "more" else int(msg) for m, l, msg in r["viol"])
    return out
