"""C04 — images and keypoints stay registered through all geometric preprocessing.

E1 small-scope enumeration with a *registration oracle*: every synthetic frame carries one Gaussian blob per
labelled keypoint on a non-zero background; after the transform under test a sub-pixel locator (weighted
least-squares quadratic on log-intensity, exact for a Gaussian) must find a blob within 1.0 output pixel of
every returned keypoint that is >= 3 px inside the output, and every blob >= 4 px inside the output must have
a returned keypoint within 1.0 px.  The oracle never knows which transform was applied.  Besides that: exact
output sizes, padding only bottom/right (non-zero content is a solid rectangle anchored at (0,0); stride padding
keeps out[..., :h, :w] bit-equal), non-moving augmentations return the keypoints bit-equal.

Parts (all driven through the real sleap-nn functions / Dataset classes):
  chain   apply_sizematcher -> (instances * eff_scale) -> apply_resizer -> apply_pad_to_stride
  crop    generate_crops (square and non-square crop sizes, centroids at the centre / 2 px from each border / on
          each corner / on a keypoint)
  affine  apply_geometric_augmentation with kornia's AffineGenerator replaced by the enumerated corners
          (angle, tx, ty, scale) in {low, mid, high}^4 of the ranges the function was called with
  nomove  apply_intensity_augmentation (each of the 4 augmentations and all together, p=1), random erasing
          (rectangle forced to the 9 corner/centre positions), mixup; p=0 identity
  cropsize find_instance_crop_size on in-memory labels: multiple of the max stride, covers the largest animal
          (x input scale + padding), >= min_crop_size, minimal; leaves the labels untouched
  ds      BottomUp / SingleInstance / Centroid / CenteredInstance Dataset.__getitem__ on PNG-embedded .pkg.slp
          label files (gray and RGB sources, is_rgb on/off) x (max_h,max_w) x scale x max_stride x crop size x
          anchor, without augmentation, with the 81 forced affine corners, and with intensity augmentation

Known findings carry *predictive* signatures (see k4_halfpixel_resize / k4_under_kornia_affine): a mismatch is only
attributed to them when the measured error VECTOR of every mismatching keypoint is within 0.15 px per axis of what
the finding's arithmetic predicts for that keypoint's source coordinate.  (DESIGN section 3 writes the K4 offset as
|0.5(s_act-1) + x(s_nom-s_act)|; measured on the real code the two terms have opposite relative sign:
keypoint - content = x(s_nom - s_act) + 0.5(1 - s_act) per axis and stage, e.g. 23x23 at scale 1/4, x = 20: +1.04 px.)
"""
from __future__ import annotations

import itertools
import json
import math
import shutil
import tempfile

import numpy as np

from mc import core
from props import _c04_ds as D
from props import _c04_reg as R

LEVEL = "exploration"
RULE = (
    "every point of the grids sizes x (max_h,max_w) x scale x max_stride x gray/RGB (chain), sizes x crop sizes x centroid "
    "positions (crop), sizes x 3 affine range settings x 81 forced parameter corners (affine), intensity/erase/mixup settings "
    "(nomove), labelled extents x padding x stride x input scale x min size (cropsize), and Dataset class x source/is_rgb x (max_h,max_w) x scale x max_stride x crop size x anchor x augmentation corner x "
    "sample index (ds); each is one execution of the real function / __getitem__ judged by the blob-registration oracle "
    "(1.0 output px, both directions), exact-size and bottom/right-padding oracles.  A case is non-trivial when at least one "
    "keypoint was actually localised by the sub-pixel locator AND the geometry changed (resized, padded, cropped, or moved "
    "> 0.5 px by the augmentation; for non-moving augmentations: the pixels changed); distinct = distinct case dict"
)
ASSUMPTIONS = [
    "every Dataset object is read while a companion object of the same class (same labels, another input scale), constructed after it, is alive",
    "Dataset classes are also run on label sets over two videos of different frame sizes (24x36 and 48x72, both orders, size-matched to the larger one as the trainer does): every frame's keypoints must be registered with its own image",
    "blobs are Gaussians with sigma >= 1.5 output px after all scaling (source sigma 2 / 3 / 4.5 chosen from the nominal total scale), "
    "keypoints >= max(4, 1.5 sigma) px inside the source frame, pairwise >= 4.5 sigma apart, at non-dyadic sub-pixel offsets",
    "a keypoint is judged only if it lies >= 3 px inside the output and >= 3 px away from any pixel without source content (exact zeros: "
    "padding, outside of the frame in a crop / after a rotation, erased rectangle); a blob only if >= 4 px inside / away",
    "locator accuracy: measured <= 0.04 px against the analytic half-pixel model on all resize chains (see extra.max_dev_from_k4_model)",
    "kornia's random affine parameters are replaced by the 81 corners {low,mid,high}^4 of the configured ranges (monkeypatch of "
    "kornia.augmentation.random_generator.AffineGenerator.forward in the harness process; ranges still travel through sleap-nn's arguments); "
    "erasing rectangles are forced to the largest configured area at 9 positions; pixel-noise fields and the mixup lambda are drawn after "
    "torch.manual_seed(enumerated seed) — for those only the keypoints (bit-equality) are judged",
    "sizes <= 61x47, scales {0.5,0.75,1,1.5} (thorough: + 0.25, 2), max_stride {1,8,16}, crop sizes {8,16,24} and non-square "
    "(8,16),(16,8),(16,24), 3-node skeleton, <= 2 animals per frame, 2 frames per label file",
    "Dataset np_chunks / litdata paths are C18's subject and are not repeated here",
]
MIN_OUTCOMES = 200

NAN = float("nan")
SCALES = [0.5, 0.75, 1.0, 1.5]
STRIDES = [1, 8, 16]
TAGS_Q = ["none", "sq", "w", "small", "heq_wless"]
TAGS_T = ["none", "eq", "sq", "h", "w", "small", "wnone", "heq_wless", "weq_hless"]
CROPS = [(8, 8), (16, 16), (24, 24), (8, 16), (16, 8), (16, 24)]
CENTROIDS = ["centre", "l", "r", "t", "b", "tl", "tr", "bl", "br", "kp"]
AFFINE_CFGS = [
    {"rotation": 15.0, "translate_width": 0.1, "translate_height": 0.1, "scale": (0.8, 1.25)},
    {"rotation": 90.0, "translate_width": 0.25, "translate_height": 0.25, "scale": (0.75, 1.5)},
    {"rotation": 180.0, "translate_width": 0.0, "translate_height": 0.0, "scale": None},
    {"rotation": 30.0, "translate_width": 0.2, "translate_height": 0.05, "scale": (0.8, 1.0, 1.0, 1.3)},
]
SELS = list(itertools.product((-1, 0, 1), repeat=4))
INTENSITY = {
    "uniform": {"uniform_noise_p": 1.0},
    "gaussian": {"gaussian_noise_p": 1.0},
    "contrast": {"contrast_p": 1.0},
    "brightness": {"brightness": 0.3, "brightness_p": 1.0},
    "all": {"uniform_noise_p": 1.0, "gaussian_noise_p": 1.0, "contrast_p": 1.0, "brightness": 0.3, "brightness_p": 1.0},
}


def maxhw(tag, H, W):
    return {
        "none": (None, None),
        "eq": (H, W),
        "sq": (max(H, W) + 16, max(H, W) + 16),
        "h": (H + 11, W),
        "w": (H, W + 13),
        "small": (int(H * 0.7), int(W * 0.7)),
        "wnone": (None, W + 13),
        # one side exactly at its target, the other LARGER than its target (the frame must be scaled down)
        "heq_wless": (H, int(W * 0.6)),
        "weq_hless": (int(H * 0.6), W),
    }[tag]


def ceil_to(n, m):
    return ((n + m - 1) // m) * m


def total_scale(H, W, tag, scale):
    r, _, _ = R.fit_scale(H, W, *maxhw(tag, H, W))
    return r, r * scale


# ---------------------------------------------------------------------------
# executing one case on the real code


def _tensor(im):
    import torch

    return torch.from_numpy(np.ascontiguousarray(im.transpose(2, 0, 1)[None])).float() / 255.0


def _src_image(H, W, pts, sigma, rgb):
    return _tensor(D.frame_image(H, W, pts, sigma, rgb))


def _same_kps(a, b):
    """bit-equal including the NaN pattern"""
    a = np.asarray(a)
    b = np.asarray(b)
    return a.shape == b.shape and bool(np.array_equal(a, b, equal_nan=True))


def _result(errors, reg, checked, worst, nontrivial, outcome, extra=None):
    d = {"errors": errors, "registration": reg, "checked": checked, "worst": worst, "nontrivial": bool(nontrivial), "outcome": outcome}
    d.update(extra or {})
    return d


def _with_src(res, src):
    for f in res["fails"]:
        if "kp" in f:
            f["src"] = [float(src[f["kp"]][0]), float(src[f["kp"]][1])]
    return res["fails"]


def _okey(shape, kps):
    k = np.round(np.nan_to_num(np.asarray(kps, dtype=np.float64), nan=-999.0), 2)
    return core.digest([list(shape), k.tolist()])


def exec_chain(c):
    import torch

    from sleap_nn.data.resizing import apply_pad_to_stride, apply_resizer, apply_sizematcher

    H, W = c["hw"]
    mh, mw = maxhw(c["maxhw"], H, W)
    s, m = c["scale"], c["stride"]
    r, tot = total_scale(H, W, c["maxhw"], s)
    sigma = D.sigma_for(tot)
    pts = D.points_for(H, W, sigma)
    img = _src_image(H, W, pts, sigma, c["rgb"])
    C = img.shape[1]
    inst = torch.tensor(pts, dtype=torch.float32)[None, None]
    errors = []
    # stage 1: size matching
    i1, eff = apply_sizematcher(img, mh, mw)
    k1 = inst * eff
    eh, ew = (H if mh is None else mh), (W if mw is None else mw)
    if tuple(i1.shape) != (1, C, eh, ew):
        errors.append(f"apply_sizematcher: output shape {tuple(i1.shape)} != requested (1,{C},{eh},{ew})")
    rect = R.content_rect(R.to_gray(i1))
    if isinstance(rect, str):
        errors.append(f"apply_sizematcher: {rect}")
        rect = None
    else:
        th, tw = rect
        if not (abs(th - H * eff) <= 1.0 and abs(tw - W * eff) <= 1.0):
            errors.append(f"apply_sizematcher: content occupies {th}x{tw} but the returned eff_scale {eff:.4f} says {H * eff:.2f}x{W * eff:.2f}")
        if not (th == eh or tw == ew):
            errors.append(f"apply_sizematcher: content {th}x{tw} fills neither side of {eh}x{ew}")
    # stage 2: rescale
    i2, k2 = apply_resizer(i1, k1, scale=s)
    H2, W2 = i2.shape[-2:]
    if not (abs(H2 - i1.shape[-2] * s) < 1.0 and abs(W2 - i1.shape[-1] * s) < 1.0) or i2.shape[1] != C:
        errors.append(f"apply_resizer: output shape {tuple(i2.shape)} is not {i1.shape[-2] * s:.2f}x{i1.shape[-1] * s:.2f} to within a pixel")
    # stage 3: stride padding
    i3 = apply_pad_to_stride(i2, max_stride=m)
    want = (1, C, ceil_to(H2, m), ceil_to(W2, m))
    if tuple(i3.shape) != want:
        errors.append(f"apply_pad_to_stride: output shape {tuple(i3.shape)} != {want}")
    else:
        if not torch.equal(i3[..., :H2, :W2], i2):
            errors.append("apply_pad_to_stride: out[..., :h, :w] differs from the unpadded image (padding not only bottom/right)")
        rest = i3.clone()
        rest[..., :H2, :W2] = 0
        if bool((rest != 0).any()):
            errors.append("apply_pad_to_stride: padding is not zero")
    g = R.to_gray(i3)
    rect3 = R.content_rect(g)
    if isinstance(rect3, str):
        errors.append(f"chain output: {rect3}")
    kps = k2.reshape(-1, 2).numpy().astype(np.float64)
    res = R.registration(g, kps, sigma * tot)
    src = np.array(pts, dtype=np.float64)
    extra = {"shape": list(i3.shape), "eff_scale": float(eff), "sigma_src": sigma}
    if rect is not None and not errors:
        f = R.k4_model(H, W, mh, mw, s, [rect, tuple(i1.shape[-2:]), (H2, W2)])
        dev = 0.0
        for i, ex, ey in res["errs"]:
            if math.isfinite(ex):
                kx, ky, cx, cy = f(*pts[i])
                dev = max(dev, abs(ex - (kx - cx)), abs(ey - (ky - cy)))
        extra["dev_from_k4_model"] = dev
    nt = res["checked"] > 0 and (tuple(i3.shape) != tuple(img.shape))
    return _result(errors, _with_src(res, src), res["checked"], res["worst"], nt, _okey(i3.shape, kps), extra)


def centroid_pos(tag, H, W, pts):
    return {
        "centre": ((W - 1) / 2 + 0.3, (H - 1) / 2 - 0.2),
        "l": (2.0, (H - 1) / 2),
        "r": (W - 3.0, (H - 1) / 2),
        "t": ((W - 1) / 2, 2.0),
        "b": ((W - 1) / 2, H - 3.0),
        "tl": (0.0, 0.0),
        "tr": (W - 1.0, 0.0),
        "bl": (0.0, H - 1.0),
        "br": (W - 1.0, H - 1.0),
        "kp": pts[len(pts) // 2],
    }[tag]


def exec_crop(c):
    import torch

    from sleap_nn.data.instance_cropping import generate_crops

    H, W = c["hw"]
    ch, cw = c["crop"]
    sigma = 2.0
    pts = D.points_for(H, W, sigma)
    img = _src_image(H, W, pts, sigma, c["rgb"])
    C = img.shape[1]
    cen = centroid_pos(c["centroid"], H, W, pts)
    inst = torch.tensor(pts, dtype=torch.float32)
    out = generate_crops(img, inst, torch.tensor(cen, dtype=torch.float32), (ch, cw))
    errors = []
    ci = out["instance_image"]
    if tuple(ci.shape) != (1, C, ch, cw):
        errors.append(f"generate_crops: crop shape {tuple(ci.shape)} != requested (1,{C},{ch},{cw})")
    kps = out["instance"].reshape(-1, 2).numpy().astype(np.float64)
    cc = out["centroid"].reshape(2).numpy().astype(np.float64)
    if not (abs(cc[0] - (cw - 1) / 2) <= 0.5 and abs(cc[1] - (ch - 1) / 2) <= 0.5):
        errors.append(f"generate_crops: returned centroid {cc.round(3).tolist()} is not at the crop centre {((cw - 1) / 2, (ch - 1) / 2)}")
    res = R.registration(R.to_gray(ci), kps, sigma)
    return _result(errors, _with_src(res, np.array(pts)), res["checked"], res["worst"], res["checked"] > 0, _okey(ci.shape, kps), {"shape": list(ci.shape)})


def _affine_sigma(cfg, sel, sigma):
    sc = cfg.get("scale")
    if sc is None:
        return sigma
    pick = lambda lo, hi: lo if sel[3] < 0 else hi if sel[3] > 0 else 0.5 * (lo + hi)
    vals = [pick(sc[0], sc[1])] + ([pick(sc[2], sc[3])] if len(sc) == 4 else [])
    return sigma * min(vals)


def exec_affine(c):
    import torch

    from sleap_nn.data.augmentation import apply_geometric_augmentation

    H, W = c["hw"]
    sigma = 2.0
    pts = R.grid_points(H, W, pitch=8.0, inset=4.0)
    img = _src_image(H, W, pts, sigma, c["rgb"])
    cfg = AFFINE_CFGS[c["cfg"]]
    p = torch.tensor(pts + [(NAN, NAN)], dtype=torch.float32)
    inst = p[None, None] if c["shape"] == 4 else p[None]
    errors = []
    if c["sel"] is None:  # p = 0: nothing may change
        oi, ok = apply_geometric_augmentation(img, inst, affine_p=0.0, **cfg)
        if not _same_kps(ok.numpy(), inst.numpy()):
            errors.append("affine_p=0: keypoints changed")
        if not torch.equal(oi, img):
            errors.append("affine_p=0: image changed")
        sig_out = sigma
    else:
        with R.forced_affine(tuple(c["sel"])):
            oi, ok = apply_geometric_augmentation(img, inst, affine_p=1.0, **cfg)
        sig_out = _affine_sigma(cfg, c["sel"], sigma)
    if tuple(oi.shape) != tuple(img.shape):
        errors.append(f"apply_geometric_augmentation: image shape {tuple(oi.shape)} != input {tuple(img.shape)}")
    if tuple(ok.shape) != tuple(inst.shape):
        errors.append(f"apply_geometric_augmentation: keypoint shape {tuple(ok.shape)} != input {tuple(inst.shape)}")
    kps = ok.reshape(-1, 2).numpy().astype(np.float64)
    if not np.array_equal(np.isnan(kps), np.isnan(inst.reshape(-1, 2).numpy())):
        errors.append("apply_geometric_augmentation: NaN pattern of the keypoints changed")
    res = R.registration(R.to_gray(oi), kps, sig_out)
    moved = float(np.nanmax(np.hypot(*(kps - inst.reshape(-1, 2).numpy().astype(np.float64)).T)))
    src = np.array(pts + [(NAN, NAN)], dtype=np.float64)
    if c["sel"] is not None and not errors:
        # every keypoint - also one the transform carries OUT of the frame - must follow the same affine map as the image:
        # the map of the forced corner, anchored on the keypoints that stay inside (whose registration is judged above)
        M, _ = R.affine_models(H, W, cfg, tuple(c["sel"]))
        exp = np.array([M(q) for q in src[:-1]])
        dev = np.abs(kps[:-1] - exp).max(axis=1)
        inside = (exp[:, 0] >= 0) & (exp[:, 0] <= W - 1) & (exp[:, 1] >= 0) & (exp[:, 1] <= H - 1)
        if inside.any() and dev[inside].max() <= 0.05 and (~inside).any() and dev[~inside].max() > 0.05:
            j = int(np.argmax(np.where(~inside, dev, -1.0)))
            errors.append(f"keypoint {src[j].tolist()} is carried out of the frame by the transform (to {np.round(exp[j], 2).tolist()}) but is returned at {np.round(kps[j], 2).tolist()}: it does not follow the map the in-frame keypoints follow")
    return _result(errors, _with_src(res, src), res["checked"], res["worst"], res["checked"] > 0 and moved > 0.5, _okey(oi.shape, kps), {"moved_px": moved})


def exec_nomove(c):
    import torch

    from sleap_nn.data.augmentation import apply_geometric_augmentation, apply_intensity_augmentation

    H, W = c["hw"]
    sigma = 2.0
    pts = R.grid_points(H, W, pitch=8.0, inset=4.0)
    img = _src_image(H, W, pts, sigma, c["rgb"])
    p = torch.tensor(pts + [(NAN, NAN)], dtype=torch.float32)
    inst = p[None, None] if c["shape"] == 4 else p[None]
    errors, ignore = [], None
    torch.manual_seed(int(c.get("seed", 0)))
    aug = c["aug"]
    if aug in INTENSITY:
        oi, ok = apply_intensity_augmentation(img, inst, **INTENSITY[aug])
    elif aug == "intensity_p0":
        oi, ok = apply_intensity_augmentation(img, inst)
    elif aug == "erase":
        with R.forced_erase(tuple(c["sel"])):
            oi, ok = apply_geometric_augmentation(img, inst, erase_p=1.0, erase_scale_min=0.02, erase_scale_max=0.1, erase_ratio_min=0.5, erase_ratio_max=2.0)
        ignore = (oi != img).any(dim=1)[0].numpy()
    elif aug == "mixup":
        oi, ok = apply_geometric_augmentation(img, inst, mixup_p=1.0, mixup_lambda=None)
        if not torch.allclose(oi, img, atol=1e-5):
            errors.append("mixup of a single image with itself changed the image")
    else:
        raise KeyError(aug)
    if tuple(oi.shape) != tuple(img.shape):
        errors.append(f"{aug}: image shape {tuple(oi.shape)} != input {tuple(img.shape)}")
    if not _same_kps(ok.numpy(), inst.numpy()):
        d = float(np.nanmax(np.abs(ok.numpy() - inst.numpy()))) if ok.shape == inst.shape else NAN
        errors.append(f"{aug}: keypoints are not bit-equal to the input (shape {tuple(ok.shape)} vs {tuple(inst.shape)}, max |d| = {d})")
    reg, checked, worst = [], 0, 0.0
    if aug in ("erase", "mixup", "intensity_p0"):
        res = R.registration(R.to_gray(oi), ok.reshape(-1, 2).numpy().astype(np.float64), sigma, ignore=ignore)
        reg, checked, worst = _with_src(res, np.array(pts + [(NAN, NAN)])), res["checked"], res["worst"]
    changed = bool((oi != img).any()) if oi.shape == img.shape else True
    return _result(errors, reg, checked, worst, changed, core.digest([aug, c.get("sel"), c.get("seed"), int(changed), round(float(oi.sum()), 2)]), {"pixels_changed": changed})


def case_maxhw(c):
    """Size-matcher target of a case: relative tag, or (multi-video label sets) the absolute common target."""
    if c.get("mv"):
        return tuple(c["mv"]["target"])
    return maxhw(c["maxhw"], *c["hw"])


def case_total_scale(c, hw=None):
    H, W = hw or c["hw"]
    r, _, _ = R.fit_scale(H, W, *case_maxhw(c))
    return r, r * c["scale"]


def ds_sigma(c, hw=None):
    return D.sigma_for(case_total_scale(c, hw)[1])


def ds_file_key(c):
    return (tuple(c["hw"]), ds_sigma(c), D.scene_kind(c["cls"], c.get("anchor", 0)), bool(c["src_rgb"]))


def ds_config_key(c):
    return json.dumps({k: v for k, v in c.items() if k not in ("idx", "sel", "seed")}, sort_keys=True)


def ds_aug_config(c):
    a = c.get("aug")
    if a is None:
        return None
    if a == "intensity":
        return {"intensity": dict(INTENSITY["all"])}
    cfg = dict(AFFINE_CFGS[a])
    cfg["affine_p"] = 1.0
    if cfg["scale"] is not None:
        cfg["scale"] = list(cfg["scale"])
    return {"geometric": cfg}


def get_dataset(c, env):
    """Dataset for this case's configuration (built once per consecutive run of cases sharing it)."""
    key = ds_config_key(c)
    if env.get("ds_key") != key:
        H, W = c["hw"]
        sigma = ds_sigma(c)
        kind = D.scene_kind(c["cls"], c.get("anchor", 0))
        if c.get("mv"):
            sizes = c["mv"]["sizes"]
            sigmas = [ds_sigma(c, hw) for hw in sizes]
            path = D.labels_path_mv(env, sizes, sigmas, kind, c["src_rgb"])
        else:
            path = D.labels_path(env, H, W, sigma, kind, c["src_rgb"])
        env["ds"] = None
        env["ds_key"] = None
        env["ds"] = D.build_dataset(
            c["cls"], path, c["is_rgb"], case_maxhw(c), c["scale"], c["stride"], crop=c.get("crop"), anchor=c.get("anchor", 0), aug=ds_aug_config(c)
        )
        # a second dataset object of the same class, built AFTER the one under test from the same labels with another
        # input scale, stays alive while the first is read (the trainer's train / validation pattern): state shared
        # between dataset objects would make the first one hand out the companion's samples
        env["ds_companion"] = None
        env["ds_companion"] = D.build_dataset(
            c["cls"], path, c["is_rgb"], case_maxhw(c), 0.5 if c["scale"] == 1.0 else 1.0, c["stride"], crop=c.get("crop"), anchor=c.get("anchor", 0), aug=None
        )
        env["ds_key"] = key
        env["ds_frames"] = D.mv_frames(sizes, sigmas, kind) if c.get("mv") else D.scene(H, W, sigma, kind)
        env["ds_builds"] = env.get("ds_builds", 0) + 1
    return env["ds"], env["ds_frames"]


def exec_ds(c, env):
    import torch

    H, W = c["hw"]
    mh, mw = case_maxhw(c)
    s, m = c["scale"], c["stride"]
    r, tot = case_total_scale(c)
    sigma = ds_sigma(c)
    ds, frames = get_dataset(c, env)
    index = D.sample_index(c["cls"], frames)
    errors = []
    if len(ds) != len(index):
        errors.append(f"len(dataset) = {len(ds)} but the label file has {len(index)} samples for this class")
        return _result(errors, [], 0, 0.0, False, "len")
    f, i = index[c["idx"]]
    aug = c.get("aug")
    torch.manual_seed(int(c.get("seed", 0)))
    if isinstance(aug, int):
        with R.forced_affine(tuple(c["sel"])):
            sample = ds[c["idx"]]
        sig_out = _affine_sigma(AFFINE_CFGS[aug], c["sel"], sigma * tot)
    else:
        sample = ds[c["idx"]]
        sig_out = sigma * tot
    if c.get("mv"):  # every labelled frame is frame 0 of its own video
        if (int(sample["video_idx"]), int(sample["frame_idx"])) != (f, 0):
            errors.append(f"sample {c['idx']} comes from video {int(sample['video_idx'])} frame {int(sample['frame_idx'])}, expected video {f} frame 0")
    elif int(sample["frame_idx"]) != f:
        errors.append(f"sample {c['idx']} comes from frame {int(sample['frame_idx'])}, expected frame {f}")
    img, kps, src, both = D.observe(c["cls"], sample, frames, f, i, c.get("anchor", 0))
    C = 3 if c["is_rgb"] else 1
    hh, ww = img.shape[-2:]
    if img.shape[0] != 1 or img.shape[1] != C:
        errors.append(f"image shape {tuple(img.shape)}: expected (1,{C},h,w)")
    if c["cls"] == "centered":
        ch, cw = c["crop"]
        if (hh, ww) != (ceil_to(ch, m), ceil_to(cw, m)):
            errors.append(f"crop output {hh}x{ww} != crop size {ch}x{cw} padded to max_stride {m}")
        cc = sample["centroid"].reshape(2).numpy().astype(np.float64)
        if not (abs(cc[0] - (cw - 1) / 2) <= 0.5 and abs(cc[1] - (ch - 1) / 2) <= 0.5):
            errors.append(f"returned centroid {cc.round(3).tolist()} is not at the centre of the {ch}x{cw} crop")
        if aug is None:
            # "crop about the centroid": the animal's own centroid keypoint (its anchor node, or the midpoint of its
            # bounding box when anchor_part is None) must come back at the centre of the crop
            ki = sample["instance"].reshape(-1, 2).numpy().astype(np.float64)
            own = D.centroid_src([tuple(p) for p in ki], c.get("anchor", 0))
            if not (abs(own[0] - (cw - 1) / 2) <= 0.5 and abs(own[1] - (ch - 1) / 2) <= 0.5):
                errors.append(f"the crop is not centred on the animal: its centroid keypoint comes back at {[round(float(v), 3) for v in own]}, crop centre is {((cw - 1) / 2, (ch - 1) / 2)}")
    else:
        ch_, cw_ = (H if mh is None else mh), (W if mw is None else mw)
        for name, got, canvas in (("height", hh, ch_), ("width", ww, cw_)):
            if got % m != 0:
                errors.append(f"output {name} {got} is not a multiple of max_stride {m}")
            if not (math.floor(canvas * s) <= got < math.ceil(canvas * s) + m):
                errors.append(f"output {name} {got} is not {canvas}*{s} padded up to the next multiple of {m}")
        if not isinstance(aug, int):
            rect = R.content_rect(R.to_gray(img))
            if isinstance(rect, str):
                errors.append(f"padding: {rect}")
    g = R.to_gray(img)
    res = R.registration(g, kps, sig_out, both_ways=both)
    if isinstance(aug, int) and res["fails"]:
        # what went INTO the augmentation (the real object's cache entry): keypoints, and how well they sat on their
        # blobs before the affine transform -- observations the K6 signature needs
        entry = ds.cache[c["idx"]]
        pimg, pk = (entry["instance_image"], entry["instance"]) if c["cls"] == "centered" else (entry["image"], entry["centroids" if c["cls"] == "centroid" else "instances"])
        pre = pk.reshape(-1, 2).numpy().astype(np.float64)
        e0 = {j: (ex, ey) for j, ex, ey in R.registration(R.to_gray(pimg), pre, sigma * tot, both_ways=False, margin=1.0)["errs"] if math.isfinite(ex)}
        for fl in res["fails"]:
            if "kp" in fl:
                fl["pre"] = [float(v) for v in pre[fl["kp"]]]
                fl["pre_err"] = [round(float(v), 4) for v in e0[fl["kp"]]] if fl["kp"] in e0 else None
                fl["aug_hw"] = [int(pimg.shape[-2]), int(pimg.shape[-1])]
    # keypoints that are labelled must come back finite and vice versa
    if not np.array_equal(np.isnan(kps).any(axis=1), np.isnan(src).any(axis=1)):
        errors.append(f"NaN pattern of the returned keypoints {np.isnan(kps).any(axis=1).tolist()} != labelled pattern {np.isnan(src).any(axis=1).tolist()}")
    extra = {"shape": list(img.shape), "sigma_src": sigma}
    if aug == "intensity":
        ref_case = dict(c)
        ref_case["aug"] = None
        env2 = {"tmp": env["tmp"], "files": env["files"]}
        ds0, _ = get_dataset(ref_case, env2)
        _, kps0, _, _ = D.observe(c["cls"], ds0[c["idx"]], frames, f, i, c.get("anchor", 0))
        if not _same_kps(kps, kps0):
            errors.append("intensity augmentation moved the keypoints (not bit-equal to the un-augmented sample)")
        res = {"fails": [], "checked": res["checked"], "worst": 0.0, "errs": []}  # noisy image: only the keypoints are judged
    nt = res["checked"] > 0
    return _result(errors, _with_src(res, src), res["checked"], res["worst"], nt, _okey(img.shape, kps), extra)


CROPSIZE_SETS = [
    [[(1.0, 2.0), (11.5, 4.0), (NAN, NAN)]],  # extent 10.5 x 2
    [[(3.0, 1.0), (5.25, 28.25), (4.0, 9.0)], [(1.0, 2.0), (11.5, 4.0), (NAN, NAN)]],  # taller animal: 2.25 x 27.25
    [[(7.0, 7.0), (NAN, NAN), (23.0, 8.5)], [(NAN, NAN), (NAN, NAN), (NAN, NAN)]],  # missing node + an all-missing animal: 16 x 1.5
    [[(9.5, 9.5), (NAN, NAN), (NAN, NAN)]],  # a single visible node: extent 0
    [[(0.0, 0.0), (32.0, 0.0), (0.0, 31.75)]],  # extent exactly 32 (already a multiple of the strides)
]


def exec_cropsize(c):
    import contextlib
    import io

    import sleap_io as sio

    from props import _scenes as S
    from sleap_nn.data.instance_cropping import find_instance_crop_size

    sk = S.make_skeleton(D.K)
    v = sio.Video(filename="c04-not-a-file.mp4", open_backend=False)
    sets = CROPSIZE_SETS[c["set"]]
    lfs = [sio.LabeledFrame(video=v, frame_idx=i, instances=[sio.Instance.from_numpy(np.array(p, dtype=np.float64), skeleton=sk)]) for i, p in enumerate(sets)]
    labels = sio.Labels(labeled_frames=lfs, videos=[v], skeletons=[sk])
    kw = {"padding": c["padding"], "maximum_stride": c["stride"], "input_scaling": c["scaling"], "min_crop_size": c["min"]}
    with contextlib.redirect_stderr(io.StringIO()):
        got = find_instance_crop_size(labels, **kw)
    errors = []
    after = [inst.numpy() for lf in labels for inst in lf.instances]
    if not all(np.array_equal(a, np.array(p, dtype=np.float64), equal_nan=True) for a, p in zip(after, sets)):
        errors.append("find_instance_crop_size changed the labelled keypoints")
    ext = 0.0
    for p in sets:
        a = np.array(p, dtype=np.float64)
        fin = a[~np.isnan(a).any(axis=1)]
        if len(fin):
            ext = max(ext, float(np.ptp(fin[:, 0])), float(np.ptp(fin[:, 1])))
    need = ext * c["scaling"] + c["padding"]
    m, mn = c["stride"], (c["min"] or 0)
    user = mn > 0 and mn % m == 0  # documented: a user-specified size that already fits the stride is returned as is
    if not isinstance(got, int) or got % m != 0:
        errors.append(f"crop size {got!r} is not an integer multiple of max stride {m}")
    elif user:
        if got != mn:
            errors.append(f"user-specified crop size {mn} (a multiple of {m}) came back as {got}")
    else:
        if got < need - 1e-9:
            errors.append(f"crop size {got} does not cover the largest animal: extent {ext} x scale {c['scaling']} + padding {c['padding']} = {need}")
        if got < mn:
            errors.append(f"crop size {got} < min_crop_size {mn}")
        if got - m >= max(need, mn) - 1e-9 and got > 0:
            errors.append(f"crop size {got} is not the smallest multiple of {m} that covers max({need}, {mn})")
    extra = {"crop_size": got, "needed": need, "user_size_smaller_than_animal": bool(user and mn < need)}
    return _result(errors, [], 0, 0.0, need > 0 and not user, core.digest(["cropsize", got]), extra)


def execute(c, env):
    k = c["kind"]
    if k == "cropsize":
        return exec_cropsize(c)
    if k == "chain":
        return exec_chain(c)
    if k == "crop":
        return exec_crop(c)
    if k == "affine":
        return exec_affine(c)
    if k == "nomove":
        return exec_nomove(c)
    if k == "ds":
        return exec_ds(c, env)
    raise KeyError(k)


def message(obs):
    parts = list(obs["errors"])
    if obs["registration"]:
        n = len(obs["registration"])
        parts.append(f"registration: {n} keypoint/blob mismatch(es) > {R.TOL} output px (worst {obs['worst']:.3f})")
    detail = {"errors": obs["errors"], "registration": obs["registration"][:12]}
    return "; ".join(parts) + " DETAIL=" + json.dumps(core.jsonable(detail), sort_keys=True)


# ---------------------------------------------------------------------------
# known finding K4: signature predicate


def _detail(msg):
    if " DETAIL=" not in msg:
        return None
    try:
        return json.loads(msg.split(" DETAIL=", 1)[1])
    except ValueError:
        return None


def _k4_prediction(case):
    """-> f(x, y) = predicted (keypoint - content) vector of the resize stages for a source coordinate, or None if the
    case has no resize stage.  Sizes follow the documented behaviour: round() in apply_sizematcher, int() in resize_image."""
    H, W = case["hw"]
    mh, mw = case_maxhw(case) if case.get("mv") else maxhw(case["maxhw"], H, W)
    s = float(case["scale"])
    r, eh, ew = R.fit_scale(H, W, mh, mw)
    if r == 1.0 and s == 1.0:
        return None
    th, tw = (H, W) if (H, W) == (eh, ew) else (int(round(H * r)), int(round(W * r)))
    H2, W2 = (eh, ew) if s == 1.0 else (int(eh * s), int(ew * s))
    f = R.k4_model(H, W, mh, mw, s, [(th, tw), (eh, ew), (H2, W2)])

    def pred(x, y):
        kx, ky, cx, cy = f(float(x), float(y))
        return kx - cx, ky - cy

    return pred


def _explained(d, predict_for):
    """Every kp_without_blob record is within 0.15 px per axis of predict_for(record); every blob_without_kp record is the
    partner blob of such a keypoint."""
    blobs = []
    for fail in d["registration"]:
        if fail.get("dir") != "kp_without_blob":
            continue
        err, src, at = fail.get("err"), fail.get("src"), fail.get("at")
        if not err or err[0] is None or err[1] is None or not src or not all(isinstance(v, (int, float)) for v in src):
            return False
        p = predict_for(fail)
        if p is None or abs(err[0] - p[0]) > 0.15 or abs(err[1] - p[1]) > 0.15:
            return False
        blobs.append((at[0] - err[0], at[1] - err[1]))
    if not blobs:
        return False
    for fail in d["registration"]:
        if fail.get("dir") == "blob_without_kp":
            b = fail["blob"]
            if not any(math.hypot(b[0] - x, b[1] - y) <= 0.05 for x, y in blobs):
                return False
    return True


def k4_halfpixel_resize(case, msg):
    """K4: the resize stages multiply keypoints by the nominal factor about the centre of pixel (0,0) while
    torchvision resamples about the pixel corner to an integer size (round() in apply_sizematcher, int() in
    resize_image).  Content at source x therefore lands at (x+0.5)*s_act-0.5 per stage, the keypoint at x*s_nom.

    The signature is *predictive*: the case must contain a resize stage and no augmentation, the message must hold
    nothing but registration mismatches, and EVERY mismatching keypoint's measured error vector must be within
    0.15 px (per axis) of the vector this arithmetic predicts for its source coordinate; a blob without a keypoint
    must be the partner of such an explained keypoint.  Anything else stays a violation.
    """
    if case.get("kind") not in ("chain", "ds") or case.get("aug") is not None:
        return False
    d = _detail(msg)
    if not d or d.get("errors") or not d.get("registration"):
        return False
    pred = _k4_prediction(case)
    if pred is None:
        return False
    return _explained(d, lambda fail: pred(*fail["src"]))


def k4_under_kornia_affine(case, msg):
    """K6: a Dataset sample whose preprocessing carries a K4 offset and is then affine-augmented.  The keypoints follow
    kornia's matrix M exactly; the image is resampled with S*M*S^-1 (RandomAffine's default align_corners=False, see
    _c04_reg.affine_models), so content that sat at (pre - e0) before the augmentation ends at M_image(pre - e0) while the
    keypoint ends at M(pre).  Predictive signature: the case has a resize stage AND a forced affine corner; the
    pre-augmentation offset e0 measured on the dataset's cache entry is itself within 0.15 px of the K4 prediction; the
    measured error is within 0.15 px per axis of M(pre) - M_image(pre - e0_K4); and neither ingredient alone explains a
    > 1 px error (|e0_K4| <= 1 and the pure kornia discrepancy M(pre) - M_image(pre) <= 1)."""
    if case.get("kind") != "ds" or not isinstance(case.get("aug"), int):
        return False
    d = _detail(msg)
    if not d or d.get("errors") or not d.get("registration"):
        return False
    k4 = _k4_prediction(case)
    if k4 is None:
        return False
    cfg = AFFINE_CFGS[case["aug"]]

    def predict(fail):
        pre, e0, hw = fail.get("pre"), fail.get("pre_err"), fail.get("aug_hw")
        if not pre or not e0 or not hw:
            return None
        e0k = k4(*fail["src"])
        if abs(e0[0] - e0k[0]) > 0.15 or abs(e0[1] - e0k[1]) > 0.15 or math.hypot(*e0k) > 1.0:
            return None
        M, Mi = R.affine_models(hw[0], hw[1], cfg, case["sel"])
        p = np.array(pre, dtype=np.float64)
        if float(np.hypot(*(M(p) - Mi(p)))) > 1.0:
            return None
        e = M(p) - Mi(p - np.array(e0k))
        return float(e[0]), float(e[1])

    return _explained(d, predict)


KNOWN_PREDICATES = {"k4_halfpixel_resize": k4_halfpixel_resize, "k4_under_kornia_affine": k4_under_kornia_affine}


# ---------------------------------------------------------------------------
# exploration


def plan(tier):
    """-> (list of non-dataset cases, list of dataset cases)."""
    q = tier == "quick"
    sizes = [(24, 36), (37, 23), (48, 32)] if q else [(24, 24), (24, 36), (37, 23), (48, 32), (61, 47)]
    scales = SCALES if q else [0.25] + SCALES + [2.0]
    cases = []
    for hw in sizes:
        for tag in TAGS_T:
            for s in scales:
                for m in STRIDES:
                    for rgb in (False, True):
                        cases.append({"kind": "chain", "hw": list(hw), "maxhw": tag, "scale": s, "stride": m, "rgb": rgb})
        for crop in CROPS:
            for cen in CENTROIDS:
                for rgb in (False, True):
                    cases.append({"kind": "crop", "hw": list(hw), "crop": list(crop), "centroid": cen, "rgb": rgb})
    asizes = [(37, 23), (48, 32)] if q else [(24, 24), (24, 36), (37, 23), (48, 32)]
    for hw in asizes:
        for ci in range(len(AFFINE_CFGS) if not q else 3):
            for rgb, shape in ((False, 4), (True, 3)) if q else ((False, 4), (True, 3), (False, 3), (True, 4)):
                cases.append({"kind": "affine", "hw": list(hw), "cfg": ci, "sel": None, "rgb": rgb, "shape": shape})
                for sel in SELS:
                    cases.append({"kind": "affine", "hw": list(hw), "cfg": ci, "sel": list(sel), "rgb": rgb, "shape": shape})
        for rgb, shape in ((False, 4), (True, 3)):
            for aug in INTENSITY:
                for seed in (0, 1):
                    cases.append({"kind": "nomove", "hw": list(hw), "aug": aug, "seed": seed, "rgb": rgb, "shape": shape})
            cases.append({"kind": "nomove", "hw": list(hw), "aug": "intensity_p0", "seed": 0, "rgb": rgb, "shape": shape})
            for sel in itertools.product((0, 1, 2), repeat=2):
                cases.append({"kind": "nomove", "hw": list(hw), "aug": "erase", "sel": list(sel), "rgb": rgb, "shape": shape})
            for seed in (0, 1):
                cases.append({"kind": "nomove", "hw": list(hw), "aug": "mixup", "seed": seed, "rgb": rgb, "shape": shape})

    for si in range(len(CROPSIZE_SETS)):
        for padding in (0, 5):
            for m in (1, 2, 8, 16, 32):
                for scaling in (1.0, 0.5, 1.5):
                    for mn in (None, 16, 20, 100):
                        cases.append({"kind": "cropsize", "set": si, "padding": padding, "stride": m, "scaling": scaling, "min": mn})

    # ---- datasets
    ds = []
    dsizes = [(24, 36), (37, 23)] if q else [(24, 24), (24, 36), (37, 23), (48, 32)]
    tags = TAGS_Q if q else TAGS_T
    rgbs = [(False, False), (True, True)] if q else [(False, False), (True, True), (False, True), (True, False)]
    crops = [(16, 16), (8, 24)] if q else [(8, 8), (16, 16), (24, 24), (8, 24)]
    variants = [("bottomup", None, 0), ("single", None, 0), ("centroid", None, 0), ("centroid", None, None)]
    variants += [("centered", list(cr), 0) for cr in crops]
    if not q:
        variants += [("centered", list(cr), None) for cr in crops[1:3]]

    def n_samples(cls, hw, tag, s):
        return len(D.sample_index(cls, D.scene(hw[0], hw[1], D.sigma_for(total_scale(hw[0], hw[1], tag, s)[1]), D.scene_kind(cls, 0))))

    for hw in dsizes:
        for src_rgb, is_rgb in rgbs:
            for cls, crop, anchor in variants:
                for tag in tags:
                    for s in SCALES:
                        for m in STRIDES:
                            base = {"kind": "ds", "cls": cls, "hw": list(hw), "src_rgb": src_rgb, "is_rgb": is_rgb, "maxhw": tag, "scale": s, "stride": m, "aug": None}
                            if cls in ("centroid", "centered"):
                                base["anchor"] = anchor
                            if crop is not None:
                                base["crop"] = crop
                            for idx in range(n_samples(cls, hw, tag, s)):
                                ds.append(dict(base, idx=idx))
    # label sets over two videos of DIFFERENT frame sizes, size-matched to the common (larger) size as the trainer does
    # (max_hw = the largest video): the small frame is up-scaled, the large one is not; both orders of the two videos
    small, large = (24, 36), (48, 72)
    for order in ("small-first", "large-first"):
        sizes = [list(small), list(large)] if order == "small-first" else [list(large), list(small)]
        for cls, crop, anchor in [("bottomup", None, 0), ("single", None, 0), ("centroid", None, 0), ("centered", [16, 16], 0)]:
            for s in (1.0, 0.5):
                for m in (1, 16) if q else STRIDES:
                    mv = {"order": order, "sizes": sizes, "target": list(large)}
                    base = {"kind": "ds", "cls": cls, "src_rgb": False, "is_rgb": False, "maxhw": "abs", "scale": s, "stride": m, "aug": None, "mv": mv}
                    if cls in ("centroid", "centered"):
                        base["anchor"] = anchor
                    if crop is not None:
                        base["crop"] = crop
                    kind = D.scene_kind(cls, 0)
                    frs = D.mv_frames(sizes, [ds_sigma(base, hw) for hw in sizes], kind)
                    for idx, (f, _i) in enumerate(D.sample_index(cls, frs)):
                        ds.append(dict(base, hw=sizes[f], idx=idx))
    # augmentation corners end to end.  Only preprocessing without a K4 offset beyond 0.25 px per axis is combined with
    # the affine corners (no resize stage at all, or an exact halving of an even-sized frame): the affine scale would
    # otherwise amplify the K4 offset and kornia's own ~0.3 px resampling error would blur its predictive signature.
    gsizes = [((37, 23), [(False, False)]), ((24, 36), [(True, True)])] if q else [(hw, [(False, False), (True, True)]) for hw in dsizes]
    gvariants = [("bottomup", None, 0), ("single", None, 0), ("centroid", None, 0), ("centered", [16, 16], 0)]
    if not q:
        gvariants += [("centroid", None, None), ("centered", [8, 24], None)]
    for hw, grgbs in gsizes:
        pre = [("none", 1.0, 8), ("w", 1.0, 16)]
        if hw[0] % 2 == 0 and hw[1] % 2 == 0:
            pre.append(("none", 0.5, 16))
        if not q:
            pre.append(("h", 1.0, 1))
        for src_rgb, is_rgb in grgbs:
            for cls, crop, anchor in gvariants:
                for tag, s, m in pre:
                    base = {"kind": "ds", "cls": cls, "hw": list(hw), "src_rgb": src_rgb, "is_rgb": is_rgb, "maxhw": tag, "scale": s, "stride": m}
                    if cls in ("centroid", "centered"):
                        base["anchor"] = anchor
                    if crop is not None:
                        base["crop"] = crop
                    n = n_samples(cls, hw, tag, s)
                    for ai in (0, 1) if q else (0, 1, 3):
                        for sel in SELS:
                            for idx in range(n):
                                ds.append(dict(base, aug=ai, sel=list(sel), idx=idx))
                    for seed in (0, 1):
                        for idx in range(n):
                            ds.append(dict(base, aug="intensity", seed=seed, idx=idx))
    return cases, ds


def run_case(part, c, env):
    part.count()
    part.transition()
    key = json.dumps(c, sort_keys=True)
    part.state(key)
    try:
        obs = execute(c, env)
    except Exception as e:  # the real code raised
        import traceback

        tb = traceback.format_exc().strip().splitlines()
        part.sample(c, False)
        part.violation(c, f"raised {type(e).__name__}: {e} [{tb[-3].strip() if len(tb) >= 3 else ''}] DETAIL=" + json.dumps({"errors": [f"raised {type(e).__name__}"], "registration": []}))
        part.add(f"raised::{c['kind']}", 1)
        return None
    if obs["nontrivial"]:
        part.nontriv(key)
    part.sample(c, obs["nontrivial"])
    part.outcome(obs["outcome"])
    part.add(f"cases::{c['kind']}", 1)
    part.add("keypoints_localised", obs["checked"])
    if obs.get("user_size_smaller_than_animal"):
        part.add("observation::user_crop_size_smaller_than_largest_animal", 1)
    if not obs["registration"]:
        part.maxi(f"max_err_px::{c['kind']}", round(float(obs["worst"]), 4))
    if "dev_from_k4_model" in obs:
        part.maxi("max_dev_from_k4_model", round(float(obs["dev_from_k4_model"]), 4))
    if obs["errors"] or obs["registration"]:
        part.violation(c, message(obs))
    return obs


def new_env():
    return {"tmp": tempfile.mkdtemp(prefix="verif-c04-"), "files": {}}


def drop_env(env):
    env.pop("ds", None)
    shutil.rmtree(env["tmp"], ignore_errors=True)


def work(part, shard):
    env = new_env()
    try:
        for c in shard:
            run_case(part, c, env)
        part.add("dataset_builds", env.get("ds_builds", 0))
        part.add("label_files_written", len(env["files"]))
    finally:
        drop_env(env)


def determinism_probe(cases):
    """R3: the first case of every kind is executed twice; observations must be identical."""
    seen = set()
    env = new_env()
    try:
        for c in cases:
            k = (c["kind"], c.get("cls"), isinstance(c.get("aug"), int))
            if k in seen:
                continue
            seen.add(k)
            a = execute(c, env)
            env.pop("ds_key", None)
            b = execute(c, env)
            if json.dumps(core.jsonable(a), sort_keys=True) != json.dumps(core.jsonable(b), sort_keys=True):
                raise RuntimeError(f"non-deterministic observation for {c}")
    finally:
        drop_env(env)


def run(ctx):
    core.setup_torch()
    import sleap_nn.data.augmentation  # noqa: F401  (an ImportError here is reported by main as a harness error with traceback)
    import sleap_nn.data.custom_datasets  # noqa: F401

    cases, ds = plan(ctx.tier)
    ctx.bounds = {
        "tier": ctx.tier,
        "functional_cases": len(cases),
        "dataset_cases": len(ds),
        "affine_corners": len(SELS),
        "scales": SCALES if ctx.tier == "quick" else [0.25] + SCALES + [2.0],
        "max_strides": STRIDES,
        "maxhw_tags_functional": TAGS_T,
        "maxhw_tags_datasets": TAGS_Q if ctx.tier == "quick" else TAGS_T,
        "crop_sizes": CROPS,
        "tolerance_px": R.TOL,
    }
    determinism_probe(cases + ds)
    # dataset cases: keep cases that share a label file / a dataset configuration together
    groups = {}
    for c in ds:
        groups.setdefault((ds_file_key(c), c["cls"], isinstance(c.get("aug"), int)), []).append(c)
    shards = []
    for k in sorted(groups, key=lambda k: (-len(groups[k]), repr(k))):
        g = sorted(groups[k], key=lambda c: (ds_config_key(c), json.dumps(c.get("sel")), c.get("seed", 0), c["idx"]))
        step = 600
        shards.extend(g[i : i + step] for i in range(0, len(g), step))
    shards = core.rotate(shards, ctx.seed)
    cases = core.rotate(cases, ctx.seed)
    shards.extend(core.shard_list(cases, max(1, len(cases) // 150)))
    core.pmap(ctx, work, shards)


def replay(case):
    core.setup_torch()
    env = new_env()
    try:
        obs = execute(case, env)
    except Exception as e:  # the code under test raised: that is the violation
        import traceback

        return {"raised": f"{type(e).__name__}: {e}", "traceback_tail": traceback.format_exc().strip().splitlines()[-4:], "known_signatures": {}, "violates": True}
    finally:
        drop_env(env)
    bad = bool(obs["errors"] or obs["registration"])
    msg = message(obs) if bad else ""
    out = {k: v for k, v in obs.items() if k != "outcome"}
    out["known_signatures"] = {k: bool(p(case, msg)) for k, p in KNOWN_PREDICATES.items()} if bad else {}
    out["violates"] = bad
    return out
