"""Shared driver for C09 / C10: real Tracker objects fed synthetic detections."""
from __future__ import annotations

import copy
import itertools

import numpy as np

ANIMALS = "ABC"
# well-separated base positions (>= 100 px apart), 3-node pose template with a non-degenerate bounding box
BASE = {"A": (50.0, 60.0), "B": (250.0, 80.0), "C": (140.0, 300.0)}
TEMPLATE = np.array([[0.0, 0.0], [12.0, 3.0], [5.0, 14.0]])
# per-frame drift for C10 (1-2 px per frame, different direction per animal)
DRIFT = {"A": (1.0, 0.5), "B": (-1.5, 1.0), "C": (0.5, -2.0)}

# "fast" scenario (C10, distance scoring only): animals 100 px apart in y, all moving +30 px/frame in x, so that the
# cumulative displacement exceeds the separation within 4 frames while each step stays well below it
FAST_BASE = {"A": (50.0, 60.0), "B": (50.0, 160.0), "C": (50.0, 260.0)}
FAST_STEP = (30.0, 0.0)
# "stride" scenario (C10, OKS configurations): same layout, 12 px per frame - a displacement at which the (very peaked,
# stddev 0.025) OKS of an animal with its own last pose is ~1e-75 (1e-300 after one absent frame): tiny but positive,
# while the OKS with any other animal is exactly 0
STRIDE_STEP = (12.0, 0.0)

# "diag" scenario (C10, IoU scoring only): diagonal neighbours - boxes (12x14) separated along BOTH axes by 17 px, all
# drifting by (1, 0.5) px/frame; centre distance 42 px
DIAG_BASE = {"A": (50.0, 60.0), "B": (79.0, 91.0), "C": (108.0, 122.0)}
DIAG_STEP = (1.0, 0.5)

_SKEL = None


def skeleton():
    global _SKEL
    if _SKEL is None:
        import sleap_io as sio

        _SKEL = sio.Skeleton(nodes=["n0", "n1", "n2"], edges=[("n0", "n1"), ("n1", "n2")])
    return _SKEL


def make_instance(animal, frame, drift=False, score=0.9, nan=None):
    """nan: None | 'p' (node 1 missing) | 'n' (every node missing)."""
    import sleap_io as sio

    if drift == "fast":
        bx, by = FAST_BASE[animal]
        bx, by = bx + FAST_STEP[0] * frame, by + FAST_STEP[1] * frame
    elif drift == "stride":  # OKS configurations: FAST layout, 12 px per frame (own-track OKS ~1e-75: positive in float64 only)
        bx, by = FAST_BASE[animal]
        bx, by = bx + STRIDE_STEP[0] * frame, by + STRIDE_STEP[1] * frame
    elif drift == "diag":
        bx, by = DIAG_BASE[animal]
        bx, by = bx + DIAG_STEP[0] * frame, by + DIAG_STEP[1] * frame
    else:
        bx, by = BASE[animal]
        if drift:
            dx, dy = DRIFT[animal]
            bx, by = bx + dx * frame, by + dy * frame
    pts = TEMPLATE + np.array([bx, by])
    if nan == "p":
        pts[1] = np.nan
    elif nan == "n":
        pts[:] = np.nan
    return sio.PredictedInstance.from_numpy(
        points_data=pts, skeleton=skeleton(), point_scores=np.full(3, 0.9), score=score
    )


_XS = [(BASE[a][0] + 6.0, a) for a in ANIMALS]


_YS = [(FAST_BASE[a][1] + 5.0, a) for a in ANIMALS]
_DXS = [(DIAG_BASE[a][0] + 6.0, a) for a in ANIMALS]
MODE = {"fast": False}


def which_animal(feat):
    if MODE["fast"] == "diag":
        x = float(np.asarray(feat).flat[0])  # x within [-6, +8] of base+6 for <= 8 frames; bases 29 px apart in x
        if x != x:
            return "?"
        return min(_DXS, key=lambda t: abs(t[0] - x))[1]
    if MODE["fast"]:
        y = float(np.asarray(feat).flat[1])
        if y != y:
            return "?"
        return min(_YS, key=lambda t: abs(t[0] - y))[1]
    return _which_animal_x(feat)


def _which_animal_x(feat):
    """Identify the animal from a feature / keypoint array: its first element is an x coordinate within
    ~20 px of the animal's base x (bases are >= 90 px apart in x, drift <= 2 px/frame)."""
    x = float(np.asarray(feat).flat[0])
    if x != x:
        return "?"  # an all-NaN detection: every such detection has the same (all-NaN) feature
    return min(_XS, key=lambda t: abs(t[0] - x))[1]


CONFIG_FEATURES = [("keypoints", "oks"), ("centroids", "euclidean_dist"), ("bboxes", "iou")]


def all_configs(windows, thresholds, reductions=("mean",)):
    out = []
    for cand in ("fixed_window", "local_queues"):
        for match in ("hungarian", "greedy"):
            for feat, score in CONFIG_FEATURES:
                for w in windows:
                    for thr in thresholds:
                        for red in reductions:
                            out.append(
                                {
                                    "candidates_method": cand,
                                    "track_matching_method": match,
                                    "features": feat,
                                    "scoring_method": score,
                                    "window_size": w,
                                    "instance_score_threshold": thr,
                                    "scoring_reduction": red,
                                }
                            )
    return out


def new_tracker(cfg):
    from sleap_nn.tracking.tracker import Tracker

    t = Tracker.from_config(**cfg)
    # `_track_objects` is an attrs default `{}` shared by every Tracker instance: give each execution its own
    try:
        t._track_objects = {}
    except Exception:
        pass
    return t


def frame_events(k, low_score=False, nan_marks=False):
    """Every ordered list of distinct animals from the first k animals (incl. the empty frame).
    low_score: additionally every list with one detection marked low-score (0.1).
    nan_marks: additionally every list with one detection marked 'p' (one node missing) or 'n' (all nodes missing)."""
    ev = []
    for r in range(0, k + 1):
        for perm in itertools.permutations(ANIMALS[:k], r):
            ev.append([(a, 0.9) for a in perm])
    if low_score:
        extra = []
        for e in ev:
            for i in range(len(e)):
                e2 = list(e)
                e2[i] = (e2[i][0], 0.1)
                extra.append(e2)
        ev += extra
    if nan_marks:
        extra = []
        for e in [x for x in ev if all(len(t) == 2 and t[1] == 0.9 for t in x)]:
            for i in range(len(e)):
                for m in ("p", "n"):
                    e2 = list(e)
                    e2[i] = (e2[i][0], 0.9, m)
                    extra.append(e2)
        ev += extra
    return ev


def _mode(inst):
    a = inst.numpy()
    n = int(np.isnan(a).any(axis=1).sum())
    return "" if n == 0 else ("n" if n == len(a) else "p")


INTERNALS_OK = {"canon": True, "clone": True, "queue": True}


def canon(tracker, with_frames=False, with_nan=False, history=None):
    """Canonical state; if the tracker's internals are not laid out as this harness expects (a refactor),
    fall back to the event history itself as the state (no merging: the search degrades to a tree, still sound)."""
    try:
        return _canon(tracker, with_frames, with_nan)
    except Exception:
        INTERNALS_OK["canon"] = False
        return ("history", repr(history))


def _canon(tracker, with_frames=False, with_nan=False):
    """Canonical tracker state: (current_tracks, queue content as (track_id, animal) tuples).
    with_frames=True adds each entry's frame index (needed when positions drift with the frame, C10).
    Within one fixed-window entry the (track, animal) pairs are sorted: the tracker looks entries up by track id
    (`track_ids.index`), never by position, so the order inside an entry cannot influence any later step."""
    cand = tracker.candidate
    cur = tuple(int(t) for t in cand.current_tracks)
    if tracker.is_local_queue:
        q = tuple(
            (int(tid), tuple((which_animal(t.feature) + (_mode(t.src_instance) if with_nan else ""), t.frame_idx if with_frames else 0) for t in dq))
            for tid, dq in sorted(cand.tracker_queue.items())
        )
    else:
        q = tuple(
            (e.frame_idx if with_frames else 0,)
            + tuple(
                sorted(
                    ((-1 if tid is None else int(tid)), which_animal(f) + (_mode(inst) if with_nan else ""))
                    for tid, f, inst in zip(e.track_ids, e.features, e.src_instances)
                )
            )
            for e in cand.tracker_queue
        )
    return (cur, q)


def queue_track_ids(tracker):
    try:
        return _queue_track_ids(tracker)
    except Exception:
        INTERNALS_OK["queue"] = False
        return set()


def _queue_track_ids(tracker):
    cand = tracker.candidate
    ids = set()
    if tracker.is_local_queue:
        for tid, dq in cand.tracker_queue.items():
            if len(dq):
                ids.add(tid)
            for t in dq:
                ids.add(t.track_id)
    else:
        for e in cand.tracker_queue:
            ids.update(t for t in e.track_ids if t is not None)
    return ids


def step(tracker, event, frame_idx, drift=False):
    """Feed one frame. Returns (inputs, outputs, error-string-or-None) after checking the C09 invariants."""
    thr = getattr(tracker, "_verif_threshold", None)
    if thr is None:
        thr = tracker.candidate.instance_score_threshold
    inputs = [make_instance(t[0], frame_idx, drift, t[1], t[2] if len(t) > 2 else None) for t in event]
    try:
        out = tracker.track(list(inputs), frame_idx=frame_idx, image=None)
    except Exception as e:
        return inputs, None, f"track() raised {type(e).__name__}: {e}"
    ids_in = [id(i) for i in inputs]
    ids_out = [id(o) for o in out]
    for o in ids_out:
        if o not in ids_in:
            return inputs, out, "returned an instance that was not among the frame's detections"
    if len(set(ids_out)) != len(ids_out):
        return inputs, out, "returned the same detection twice"
    for i, t in zip(inputs, event):
        a, s = t[0], t[1]
        if s > thr:
            n = ids_out.count(id(i))
            if n != 1:
                return inputs, out, f"detection of animal {a} (score {s} > threshold {thr}) returned {n} times"
            if i.track is None:
                return inputs, out, f"detection of animal {a} (score {s} > threshold {thr}) returned without a track"
    tracks = [o.track for o in out if o.track is not None]
    if len({id(t) for t in tracks}) != len(tracks) or len({t.name for t in tracks}) != len(tracks):
        return inputs, out, f"two detections of the same frame share a track: {[t.name for t in tracks]}"
    try:
        cur = set(tracker.candidate.current_tracks)
    except Exception:
        cur = None
    stray = (queue_track_ids(tracker) - cur - {None}) if cur is not None else set()
    if stray:
        return inputs, out, f"tracker queue holds track ids {sorted(stray)} not in current_tracks {tracker.candidate.current_tracks}"
    return inputs, out, None


def observe(event, out):
    """Observation of one step: for each input position the track name (or None / 'dropped')."""
    return None if out is None else tuple((o.track.name if o.track is not None else None) for o in out)


def clone(tracker):
    try:
        if INTERNALS_OK["clone"]:
            return _clone(tracker)
    except Exception:
        INTERNALS_OK["clone"] = False
    return copy.deepcopy(tracker)


def _clone(tracker):
    """Copy of the tracker's mutable containers (queue, entries' lists, current_tracks, track table).
    Leaf objects (feature arrays, PredictedInstances, sio.Track) are shared: the tracker only ever mutates the
    *current* frame's entry.  Soundness of the sharing is cross-checked by replaying histories on fresh trackers."""
    from collections import defaultdict, deque

    t2 = copy.copy(tracker)
    c = copy.copy(tracker.candidate)
    c.current_tracks = list(tracker.candidate.current_tracks)
    q = tracker.candidate.tracker_queue
    if tracker.is_local_queue:
        q2 = defaultdict(q.default_factory)
        for tid, dq in q.items():
            q2[tid] = deque([copy.copy(x) for x in dq], maxlen=dq.maxlen)
    else:
        q2 = deque(maxlen=q.maxlen)
        for e in q:
            e2 = copy.copy(e)
            e2.src_instances = list(e.src_instances)
            e2.features = list(e.features)
            e2.instance_scores = list(e.instance_scores)
            e2.track_ids = list(e.track_ids)
            e2.tracking_scores = list(e.tracking_scores)
            q2.append(e2)
    c.tracker_queue = q2
    t2.candidate = c
    t2._track_objects = dict(tracker._track_objects)
    return t2
