"""Synthetic scenes shared by several checks (C02, C03, C04, C11, C12, C18, C19).

A frame contains, for animal a and node k, a flat-topped disc of radius r whose
plateau intensity I_k = 1 - 0.15*k encodes the node type in an absolute
intensity band (a missing node is simply not drawn).  Frames are written
losslessly (PNG sequence / PNG-embedded .pkg.slp) through sleap-io.
"""
from __future__ import annotations

import os

import numpy as np

BAND = 0.15  # plateau intensity of node k is 1 - BAND*k (k <= 5 keeps it >= 0.25)


def node_intensity(k):
    return 1.0 - BAND * k


def render(H, W, animals, radius=3.0, rgb=False, dtype=np.uint8):
    """animals: list of (K,2) float arrays (x,y), NaN = invisible. Returns (H,W,C) uint8."""
    yy, xx = np.mgrid[0:H, 0:W].astype(np.float64)
    img = np.zeros((H, W), dtype=np.float64)
    for pts in animals:
        pts = np.asarray(pts, dtype=np.float64)
        for k, (x, y) in enumerate(pts):
            if np.isnan(x) or np.isnan(y):
                continue
            d = np.sqrt((xx - x) ** 2 + (yy - y) ** 2)
            # flat top, 1-px linear roll-off (keeps the intensity-weighted centroid on (x,y))
            w = np.clip(radius + 0.5 - d, 0.0, 1.0)
            img = np.maximum(img, w * node_intensity(k))
    out = np.round(img * 255.0).astype(dtype)
    if rgb:
        return np.stack([out, out, out], axis=-1)
    return out[..., None]


def gaussian_blobs(H, W, points, sigma=2.0, rgb=False):
    """One Gaussian blob per point (for registration oracles). Returns (H,W,C) uint8."""
    yy, xx = np.mgrid[0:H, 0:W].astype(np.float64)
    img = np.zeros((H, W), dtype=np.float64)
    for x, y in np.asarray(points, dtype=np.float64).reshape(-1, 2):
        if np.isnan(x) or np.isnan(y):
            continue
        img = np.maximum(img, np.exp(-((xx - x) ** 2 + (yy - y) ** 2) / (2 * sigma**2)))
    out = np.round(img * 255.0).astype(np.uint8)
    if rgb:
        return np.stack([out, out, out], axis=-1)
    return out[..., None]


def make_skeleton(n_nodes, edges=None, name="sk"):
    import sleap_io as sio

    nodes = [f"n{k}" for k in range(n_nodes)]
    if edges is None:
        edges = [(k, k + 1) for k in range(n_nodes - 1)]
    return sio.Skeleton(nodes=nodes, edges=[(nodes[a], nodes[b]) for a, b in edges], name=name)


def _points3(p, stale):
    """(K,2) array with NaN = missing -> (K,3) x/y/visible.  stale=True keeps plausible coordinates on the missing nodes
    and marks them invisible (what a GUI does when a node is toggled off): `Instance.numpy()` shows NaN for them, the raw
    stored xy does not."""
    p = np.asarray(p, dtype=np.float64)
    if not stale:
        return p
    vis = ~np.isnan(p).any(axis=1)
    out = np.zeros((len(p), 3), dtype=np.float64)
    out[:, 2] = vis
    centre = np.nanmean(p[vis], axis=0) if vis.any() else np.array([5.0, 5.0])
    for k in range(len(p)):
        out[k, :2] = p[k] if vis[k] else centre + np.array([1.5 + k, -1.5])
    return out


def write_labels(tmpdir, frames, skeleton, name="labels", embed=True, predicted=None, quiet=True, stale_invisible=False):
    """frames: list of dicts {"image": (H,W,C) uint8, "instances": [ (K,2) arrays ], optional "frame_idx"}.

    Writes a PNG sequence + a .slp (embed=False) or .pkg.slp (embed=True: HDF5-embedded PNG frames) and
    returns the path.  predicted: optional per-frame lists of (points, score) added as PredictedInstances.
    """
    import contextlib
    import io

    import imageio.v3 as iio
    import sleap_io as sio

    d = os.path.join(tmpdir, name + "_frames")
    os.makedirs(d, exist_ok=True)
    # frames may name a video ("video": k): every video gets its own PNG sequence; frame_idx defaults to the
    # position of the frame inside its video
    vids = sorted({fr.get("video", 0) for fr in frames})
    paths = {v: [] for v in vids}
    pos = {}
    for i, fr in enumerate(frames):
        v = fr.get("video", 0)
        p = os.path.join(d, f"{i:04d}.png" if len(vids) == 1 else f"v{v}_{len(paths[v]):04d}.png")
        im = fr["image"]
        iio.imwrite(p, im[..., 0] if im.shape[-1] == 1 else im)
        pos[i] = len(paths[v])
        paths[v].append(p)
    videos = {v: sio.load_video(paths[v]) for v in vids}
    lfs = []
    for i, fr in enumerate(frames):
        video = videos[fr.get("video", 0)]
        insts = [sio.Instance.from_numpy(_points3(p, stale_invisible), skeleton=skeleton) for p in fr["instances"]]
        if predicted is not None:
            for pts, score in predicted[i]:
                insts.append(
                    sio.PredictedInstance.from_numpy(
                        points_data=np.asarray(pts, dtype=np.float64), skeleton=skeleton, point_scores=np.ones(len(pts)), score=score
                    )
                )
        lfs.append(sio.LabeledFrame(video=video, frame_idx=fr.get("frame_idx", i if len(vids) == 1 else pos[i]), instances=insts))
    labels = sio.Labels(labeled_frames=lfs, videos=[videos[v] for v in vids], skeletons=[skeleton])
    path = os.path.join(tmpdir, name + (".pkg.slp" if embed else ".slp"))
    sink = io.StringIO()
    with contextlib.redirect_stderr(sink) if quiet else contextlib.nullcontext():
        if embed:
            labels.save(path, embed="all")
        else:
            labels.save(path)
    return path


def png_video_paths(tmpdir, name="labels"):
    d = os.path.join(tmpdir, name + "_frames")
    return sorted(os.path.join(d, f) for f in os.listdir(d) if f.endswith(".png"))
