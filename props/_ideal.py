"""Ideal networks and predictor factories shared by C02, C03, C12.

An ideal network looks only at the image tensor it is ACTUALLY given: connected
components above a low threshold, node type from the plateau intensity band,
sub-pixel position from the intensity-weighted centroid; it then emits the *training
target* for those positions in the given image's frame at the head's output stride
(using sleap-nn's own generate_* functions, which C01/C05 decide separately).  This is
the literal reading of "if the network outputs the ideal maps for the image it is
actually given": any scale, pad, crop or offset applied to the image but not undone on
the coordinates (or vice versa) shows up as a coordinate error at the output.
"""
from __future__ import annotations

import numpy as np
import torch
from torch import nn

from props import _scenes as S


def find_discs(img2d, thr=0.06):
    """img2d: (H,W) float in [0,1]. Returns list of (x, y, node_type, plateau) for every connected component."""
    from scipy import ndimage

    a = np.asarray(img2d, dtype=np.float64)
    mask = a > thr
    lab, n = ndimage.label(mask)  # 4-connectivity
    if n == 0:
        return []
    idx = list(range(1, n + 1))
    com = ndimage.center_of_mass(a, lab, idx)  # intensity weighted, (row, col)
    mx = ndimage.maximum(a, lab, idx)
    out = []
    for (r, c), m in zip(com, mx):
        k = int(round((1.0 - float(m)) / S.BAND))
        out.append((float(c), float(r), k, float(m)))
    return out


def to_gray(x):
    """(B,C,H,W) -> (B,H,W) float array in [0,1]."""
    x = x.detach().cpu().to(torch.float32)
    if x.dim() == 5:  # (B, 1, C, H, W) as assembled by Predictor._predict_generator
        x = x.squeeze(1)
    if x.max() > 1.5:
        x = x / 255.0
    return x.mean(dim=1).numpy()


class IdealSingle(nn.Module):
    """Single-instance confidence maps for the discs found in each image of the batch."""

    def __init__(self, n_nodes, sigma, stride):
        super().__init__()
        self.n_nodes, self.sigma, self.stride = n_nodes, sigma, stride
        self.seen = []

    def forward(self, x):
        from sleap_nn.data.confidence_maps import generate_confmaps

        outs = []
        H, W = x.shape[-2:]
        for g in to_gray(x):
            pts = np.full((self.n_nodes, 2), np.nan, dtype=np.float32)
            for cx, cy, k, m in find_discs(g):
                if 0 <= k < self.n_nodes:
                    pts[k] = (cx, cy)
            self.seen.append(pts.copy())
            cm = generate_confmaps(torch.from_numpy(pts).unsqueeze(0), img_hw=(H, W), sigma=self.sigma, output_stride=self.stride)
            outs.append(cm)
        return torch.cat(outs, dim=0)


def single_linkage(discs, link):
    n = len(discs)
    parent = list(range(n))

    def find(i):
        while parent[i] != i:
            parent[i] = parent[parent[i]]
            i = parent[i]
        return i

    for i in range(n):
        for j in range(i + 1, n):
            if (discs[i][0] - discs[j][0]) ** 2 + (discs[i][1] - discs[j][1]) ** 2 <= link**2:
                parent[find(i)] = find(j)
    groups = {}
    for i in range(n):
        groups.setdefault(find(i), []).append(discs[i])
    return list(groups.values())


class IdealCentroid(nn.Module):
    """Centroid confidence map.  link=None: one bump per disc of the anchor node type.  link=L (in pixels of the
    image it is given): one bump per single-linkage cluster of discs, at the midpoint of the cluster's bounding box
    (the crop only has to contain the animal; C02 checks the final keypoints, not the centroid)."""

    def __init__(self, anchor, sigma, stride, link=None):
        super().__init__()
        self.anchor, self.sigma, self.stride, self.link = anchor, sigma, stride, link

    def forward(self, x):
        from sleap_nn.data.confidence_maps import generate_multiconfmaps

        outs = []
        H, W = x.shape[-2:]
        for g in to_gray(x):
            discs = find_discs(g)
            if self.link is None:
                cents = [(cx, cy) for cx, cy, k, m in discs if k == self.anchor]
            else:
                cents = []
                for grp in single_linkage(discs, self.link):
                    xs, ys = [d[0] for d in grp], [d[1] for d in grp]
                    cents.append(((min(xs) + max(xs)) / 2.0, (min(ys) + max(ys)) / 2.0))
            if cents:
                c = torch.tensor(cents, dtype=torch.float32).unsqueeze(0)  # (1, n, 2)
                cm = generate_multiconfmaps(c, img_hw=(H, W), num_instances=len(cents), sigma=self.sigma, output_stride=self.stride, is_centroids=True)
            else:
                cm = torch.zeros((1, 1, H // self.stride, W // self.stride))
            outs.append(cm)
        return _batch_stat(self, x, torch.cat(outs, dim=0))


def _batch_stat(module, x, out):
    """What a batch-statistic layer (BatchNorm) does to a network left in TRAIN mode: the output of every frame depends on
    the whole batch.  In eval mode (where inference layers must put the network) the ideal maps are returned as they are."""
    if module.training:
        return out * (0.55 + 3.0 * float(x.float().mean()))
    return out


class IdealCentered(nn.Module):
    """Centred-instance maps: per node type the disc nearest the crop centre."""

    def __init__(self, n_nodes, sigma, stride, crop_hw=None):
        super().__init__()
        self.n_nodes, self.sigma, self.stride = n_nodes, sigma, stride
        self.crop_hw = crop_hw  # un-padded crop size (the centre of the crop, not of the padded tensor)

    def forward(self, x):
        from sleap_nn.data.confidence_maps import generate_confmaps

        outs = []
        H, W = x.shape[-2:]
        ch, cw = self.crop_hw if self.crop_hw is not None else (H, W)
        cx0, cy0 = (cw - 1) / 2.0, (ch - 1) / 2.0
        for g in to_gray(x):
            pts = np.full((self.n_nodes, 2), np.nan, dtype=np.float32)
            best = {}
            for cx, cy, k, m in find_discs(g):
                if 0 <= k < self.n_nodes:
                    d = (cx - cx0) ** 2 + (cy - cy0) ** 2
                    if k not in best or d < best[k]:
                        best[k] = d
                        pts[k] = (cx, cy)
            cm = generate_confmaps(torch.from_numpy(pts).unsqueeze(0), img_hw=(H, W), sigma=self.sigma, output_stride=self.stride)
            outs.append(cm)
        return _batch_stat(self, x, torch.cat(outs, dim=0))


class IdealBottomUp(nn.Module):
    """Multi-instance confidence maps + PAFs; discs are grouped into animals by single linkage."""

    def __init__(self, n_nodes, edge_inds, sigma, cms_stride, paf_sigma, paf_stride, link):
        super().__init__()
        self.n_nodes, self.edge_inds = n_nodes, [tuple(e) for e in edge_inds]
        self.sigma, self.cms_stride, self.paf_sigma, self.paf_stride, self.link = sigma, cms_stride, paf_sigma, paf_stride, link

    def cluster(self, discs):
        return single_linkage(discs, self.link)

    def forward(self, x):
        from sleap_nn.data.confidence_maps import generate_multiconfmaps
        from sleap_nn.data.edge_maps import generate_pafs

        H, W = x.shape[-2:]
        cms_out, paf_out = [], []
        for g in to_gray(x):
            animals = []
            for grp in self.cluster(find_discs(g)):
                pts = np.full((self.n_nodes, 2), np.nan, dtype=np.float32)
                for cx, cy, k, m in grp:
                    if 0 <= k < self.n_nodes:
                        pts[k] = (cx, cy)
                animals.append(pts)
            if animals:
                inst = torch.from_numpy(np.stack(animals)).unsqueeze(0)  # (1, n, K, 2)
                cm = generate_multiconfmaps(inst, img_hw=(H, W), num_instances=len(animals), sigma=self.sigma, output_stride=self.cms_stride, is_centroids=False)
                pf = generate_pafs(inst, img_hw=(H, W), sigma=self.paf_sigma, output_stride=self.paf_stride, edge_inds=torch.Tensor(self.edge_inds), flatten_channels=True)
                if pf.dim() == 3:
                    pf = pf.unsqueeze(0)
            else:
                cm = torch.zeros((1, self.n_nodes, H // self.cms_stride, W // self.cms_stride))
                pf = torch.zeros((1, 2 * len(self.edge_inds), H // self.paf_stride, W // self.paf_stride))
            cms_out.append(cm)
            paf_out.append(pf)
        return {"MultiInstanceConfmapsHead": torch.cat(cms_out, 0), "PartAffinityFieldsHead": torch.cat(paf_out, 0)}


# ---------------------------------------------------------------------------
# configs and predictors


def _cfg(head_name, head, scale, max_stride, max_h, max_w, crop_hw=None, is_rgb=False):
    from omegaconf import OmegaConf

    return OmegaConf.create(
        {
            "data_config": {
                "preprocessing": {"scale": scale, "max_height": max_h, "max_width": max_w, "is_rgb": is_rgb, "crop_hw": crop_hw},
            },
            "model_config": {
                "backbone_config": {"unet": {"max_stride": max_stride}, "convnext": None, "swint": None},
                "head_configs": {head_name: head},
            },
        }
    )


def single_predictor(n_nodes, scale, max_stride, stride, sigma, max_hw, refinement, batch, skeleton, peak_threshold=0.2):
    from sleap_nn.inference.predictors import SingleInstancePredictor

    cfg = _cfg("single_instance", {"confmaps": {"part_names": None, "sigma": sigma, "output_stride": stride}}, scale, max_stride, max_hw[0], max_hw[1])
    net = IdealSingle(n_nodes, sigma, stride)
    p = SingleInstancePredictor(
        confmap_config=cfg, confmap_model=net, backbone_type="unet", skeletons=[skeleton], peak_threshold=peak_threshold,
        integral_refinement=refinement, integral_patch_size=5, batch_size=batch, preprocess_config=None,
    )
    p._initialize_inference_model()
    return p


def topdown_predictor(n_nodes, anchor, c_scale, i_scale, c_max_stride, i_max_stride, c_stride, i_stride, sigma, crop, max_hw, refinement, batch, skeleton, max_instances=None, peak_threshold=0.2):
    from sleap_nn.inference.predictors import TopDownPredictor

    ch, cw = (crop, crop) if isinstance(crop, int) else (int(crop[0]), int(crop[1]))  # crop: side of a square crop or (height, width)
    ccfg = _cfg("centroid", {"confmaps": {"anchor_part": None, "sigma": sigma, "output_stride": c_stride}}, c_scale, c_max_stride, max_hw[0], max_hw[1], crop_hw=None)
    icfg = _cfg("centered_instance", {"confmaps": {"part_names": None, "anchor_part": None, "sigma": sigma, "output_stride": i_stride}}, i_scale, i_max_stride, max_hw[0], max_hw[1], crop_hw=[ch, cw])
    p = TopDownPredictor(
        centroid_config=ccfg, confmap_config=icfg, centroid_model=IdealCentroid(anchor, sigma, c_stride),
        confmap_model=IdealCentered(n_nodes, sigma, i_stride, crop_hw=(ch, cw)), centroid_backbone_type="unet", centered_instance_backbone_type="unet",
        skeletons=[skeleton], peak_threshold=peak_threshold, integral_refinement=refinement, integral_patch_size=5,
        batch_size=batch, max_instances=max_instances, preprocess_config=None, anchor_ind=anchor,
    )
    p._initialize_inference_model()
    return p


def topdown_centroid_only_predictor(anchor, c_scale, c_max_stride, c_stride, sigma, max_hw, refinement, batch, skeleton, max_instances=None, peak_threshold=0.2):
    """TopDownPredictor with only the centroid model: every detected centroid is matched to the nearest labelled instance
    of its own frame (FindInstancePeaksGroundTruth); the frames must carry their labelled instances."""
    from sleap_nn.inference.predictors import TopDownPredictor

    ccfg = _cfg("centroid", {"confmaps": {"anchor_part": None, "sigma": sigma, "output_stride": c_stride}}, c_scale, c_max_stride, max_hw[0], max_hw[1], crop_hw=[32, 32])
    p = TopDownPredictor(
        centroid_config=ccfg, confmap_config=None, centroid_model=IdealCentroid(anchor, sigma, c_stride), confmap_model=None,
        centroid_backbone_type="unet", centered_instance_backbone_type=None, skeletons=[skeleton], peak_threshold=peak_threshold,
        integral_refinement=refinement, integral_patch_size=5, batch_size=batch, max_instances=max_instances, preprocess_config=None, anchor_ind=anchor,
    )
    p._initialize_inference_model()
    return p


def topdown_gt_predictor(n_nodes, anchor, i_scale, i_max_stride, i_stride, sigma, crop, max_hw, refinement, batch, skeleton, peak_threshold=0.2):
    """TopDownPredictor with only the centred-instance model: centroids are taken from the labelled instances."""
    from sleap_nn.inference.predictors import TopDownPredictor

    ch, cw = (crop, crop) if isinstance(crop, int) else (int(crop[0]), int(crop[1]))
    icfg = _cfg("centered_instance", {"confmaps": {"part_names": None, "anchor_part": None, "sigma": sigma, "output_stride": i_stride}}, i_scale, i_max_stride, max_hw[0], max_hw[1], crop_hw=[ch, cw])
    p = TopDownPredictor(
        centroid_config=None, confmap_config=icfg, centroid_model=None, confmap_model=IdealCentered(n_nodes, sigma, i_stride, crop_hw=(ch, cw)),
        centroid_backbone_type=None, centered_instance_backbone_type="unet", skeletons=[skeleton], peak_threshold=peak_threshold,
        integral_refinement=refinement, integral_patch_size=5, batch_size=batch, preprocess_config=None, anchor_ind=anchor,
    )
    p._initialize_inference_model()
    return p


def bottomup_predictor(n_nodes, edges, scale, max_stride, cms_stride, paf_stride, sigma, paf_sigma, link, max_hw, refinement, batch, skeleton, max_instances=None, peak_threshold=0.2, **scorer):
    from sleap_nn.inference.predictors import BottomUpPredictor

    names = [n.name for n in skeleton.nodes]
    head = {
        "confmaps": {"part_names": names, "sigma": sigma, "output_stride": cms_stride, "loss_weight": 1.0},
        "pafs": {"edges": [[names[a], names[b]] for a, b in edges], "sigma": paf_sigma, "output_stride": paf_stride, "loss_weight": 1.0},
    }
    cfg = _cfg("bottomup", head, scale, max_stride, max_hw[0], max_hw[1])
    net = IdealBottomUp(n_nodes, edges, sigma, cms_stride, paf_sigma, paf_stride, link)
    p = BottomUpPredictor(
        bottomup_config=cfg, bottomup_model=net, backbone_type="unet", skeletons=[skeleton], peak_threshold=peak_threshold,
        integral_refinement=refinement, integral_patch_size=5, batch_size=batch, max_instances=max_instances, preprocess_config=None, **scorer,
    )
    p._initialize_inference_model()
    return p


class PurityError(Exception):
    """The inference model changed its inputs, or gave a different answer for the same batch the second time."""


class TwiceProxy:
    """Stands in for Predictor.inference_model: every batch is forwarded TWICE with the same tensors (a 2-step call
    history on one layer object).  The input tensors must be unchanged after each call and the second result must equal
    the first; the first result is handed on."""

    def __init__(self, model):
        self.__dict__["_model"] = model
        self.__dict__["issues"] = []

    def __getattr__(self, name):
        return getattr(self.__dict__["_model"], name)

    def __setattr__(self, name, value):
        setattr(self.__dict__["_model"], name, value)

    def __call__(self, ex):
        from mc import history as Hs

        snap = {k: v.clone() for k, v in ex.items() if isinstance(v, torch.Tensor)}
        out1 = self.__dict__["_model"](dict(ex))
        changed = [k for k, v in snap.items() if not (isinstance(ex.get(k), torch.Tensor) and ex[k].shape == v.shape and torch.equal(torch.nan_to_num(ex[k].float(), nan=-7.0), torch.nan_to_num(v.float(), nan=-7.0)))]
        if changed:
            self.issues.append(f"the inference model modified its input tensor(s) {changed} in place")
            for k in changed:  # restore, so that the second call sees what the first saw
                ex[k] = snap[k].clone()
        a = Hs._to_np(out1)
        out2 = self.__dict__["_model"](dict(ex))
        if not Hs.same(a, Hs._to_np(out2), atol=1e-5):
            self.issues.append("the same batch forwarded a second time through the same inference-model object gives a different result")
        return out1


def run_predictor(pred, provider, path, make_labels=False, twice=False):
    """Real make_pipeline + predict on a file. provider: 'LabelsReader' (slp path) | 'VideoReader' (video path).
    twice=True: every batch goes through the inference model twice (TwiceProxy); a difference raises PurityError."""
    pred.make_pipeline(provider, path, queue_maxsize=4)
    if twice:
        if pred.inference_model is None:
            pred._initialize_inference_model()
        pred.inference_model = TwiceProxy(pred.inference_model)
    out = pred.predict(make_labels=make_labels)
    if twice and pred.inference_model.issues:
        raise PurityError("; ".join(sorted(set(pred.inference_model.issues))))
    return out
