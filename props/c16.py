"""C16 — evaluation metrics: perfect for perfect predictions, bounded, monotone.

E1 small-scope enumeration.  Ground-truth / predicted `sio.Labels` pairs are built in
memory on ONE synthetic video that was embedded into a `.pkg.slp` (the HDF5 backend has
the `.dataset` attribute `find_frame_pairs` needs) and are run through the real
`sleap_nn.evaluation.Evaluator`:

    frames (1 or 2) x animals (1..2, thorough 3) x nodes (2,3) x NaN pattern per instance
    x prediction edit per instance {exact, +0.5 px, [+1.5 px], +4 px, far, absent}
    x visibility mode of the predictions x at most one extra prediction (duplicate of an
    animal / far) x score orderings x EVERY single deletion P \\ {p}
    (if the deletion empties a frame: both "empty LabeledFrame kept" and "LabeledFrame gone").

Oracle (the property text, evaluated on the dict returned by `Evaluator.evaluate()` plus the
`pck` flavour of `voc_metrics` and a second PCK threshold vector):

  fixed-point   predictions identical to the ground truth => mOKS 1, distances 0, AP/AR/mAP/mAR
                >= 1-1e-9, PCK == visible fraction, visibility confusion matrix exact
  bounded       every reported ratio finite and in [0,1]  (NaN tolerated only for a mean over
                ZERO matched pairs / an empty visibility denominator: no subject)
  monotone      AP, AR non-increasing along the match thresholds; interpolated precision
                non-increasing along the recall thresholds; PCK non-decreasing in the pixel threshold
  definitions   recall_t = |{matched pairs with score >= t}| / |gt instances in paired frames|,
                AP_t = VOC interpolated precision averaged over the recall thresholds,
                mOKS = mean pair OKS, PCK_t = fraction of (pair,node) with dist < t (missing = miss),
                matched + false negatives = gt instances; explicit float64 reference
  deletion      for every p: AR(P \\ {p}) <= AR(P) component-wise (oks and pck flavour, and mAR)

The reference greedy matcher at the bottom is NOT part of the oracle; it is only used by the
signature predicates of the known findings.
"""
from __future__ import annotations

import itertools
import json
import math
import os
import shutil
import tempfile

import numpy as np

from mc import core

LEVEL = "model_checking"
RULE = (
    "label pairs built from the alphabet frames x animals x nodes x per-instance NaN pattern x per-instance prediction "
    "edit x prediction visibility mode x <=1 extra prediction x score orderings, each run through Evaluator.evaluate(), "
    "then every single deletion P\\{p} run through Evaluator.voc_metrics (oks, pck); a base case is non-trivial when at "
    "least one pair is matched AND the prediction set is not the perfect copy (noise, a missing/extra prediction or a "
    "visibility difference), a deletion is non-trivial when the two recall vectors differ; distinct = distinct case key"
)
ASSUMPTIONS = [
    "two-video family: ground truth over two videos that share frame indices, identical predictions for one or both of them, both video orders",
    "every case with a missing node is evaluated a second time with the missing nodes stored as invisible points that keep finite coordinates (what the GUI writes); all reported numbers must be identical",
    "perfect-count family: identical predictions for every total number N of ground-truth instances in 1..110 (thorough 1..200), one animal per frame, plus 7x7, 14x7, 49x2 (rounding of the recall axis n/N depends on N)",
    "animals of one frame are well separated (cross-animal OKS underflows to exactly 0), each gt instance has >= 1 visible node, detection scores are pairwise distinct (no ties in the VOC ordering)",
    "at least one ground-truth frame has a predicted LabeledFrame (otherwise Evaluator raises 'Empty Frame Pairs' by design: nothing is evaluated)",
    "a mean over ZERO matched pairs (mOKS, mPCK, mean distance) and a visibility ratio with an empty denominator have no subject: NaN is accepted there and only there",
    "OKS defaults (stddev 0.025, bbox-area scale, match threshold 0), default VOC thresholds 0.5:0.05:0.95 x recall 0:0.01:1, PCK thresholds 1..10 plus one non-uniform vector",
    "quick: <=2 animals, full single-frame alphabet (2-node skeleton: one main-score order), two-frame cases with a reduced first frame (3 nodes, NaN patterns {none, animal 0 node 0}, one main-score order) x 6 second-frame options; thorough: 3 animals (at most one instance with a missing node, extras top/bottom), +1.5 px edit and duplicate, 'one node undetected' visibility mode, full two-frame product for 2 and 3 nodes",
    "known findings K3 (greedy duplicate steals a gt instance) and K5 (gt frames without a predicted LabeledFrame are not evaluated) are recognised by signature predicates that also require the observed recalls to equal those of the documented greedy VOC procedure; any other recall increase on deletion is a VIOLATION",
]
MIN_OUTCOMES = 50

TOL = 1e-9
OKS_T = np.linspace(0.5, 0.95, 10)
REC_T = np.linspace(0, 1, 101)
PCK_T = np.linspace(1, 10, 10)
PCK_T2 = np.array([0.25, 0.5, 0.75, 1.5, 4.0, 4.5, 2000.0])
NAN = float("nan")

# ---------------------------------------------------------------------------------------------
# alphabet

POSES = {
    3: [
        [(10.0, 10.0), (50.0, 10.0), (50.0, 40.0)],  # bbox 40x30
        [(310.0, 12.0), (334.0, 10.0), (328.0, 34.0)],  # bbox 24x24
        [(610.0, 10.0), (660.0, 30.0), (630.0, 70.0)],  # bbox 50x60
    ],
    2: [
        [(10.0, 10.0), (30.0, 25.0)],  # bbox 20x15
        [(310.0, 10.0), (330.0, 10.0)],  # degenerate: zero-area box
        [(610.0, 10.0), (650.0, 60.0)],
    ],
}
POSES_F1 = {  # second frame
    3: [[(20.0, 20.0), (60.0, 24.0), (44.0, 52.0)], [(420.0, 20.0), (450.0, 20.0), (450.0, 50.0)]],
    2: [[(20.0, 20.0), (60.0, 50.0)], [(420.0, 20.0), (450.0, 50.0)]],
}
EDIT_DX = {"exact": 0.0, "+0.5": 0.5, "+1.5": 1.5, "+4": 4.0, "far": 5000.0}
MAIN_SCORES = {1: [[0.9]], 2: [[0.9, 0.7], [0.7, 0.9]], 3: [[0.9, 0.7, 0.55], [0.55, 0.9, 0.7], [0.7, 0.55, 0.9]]}
EXTRA_SCORE = {"top": 0.95, "mid": 0.8, "bottom": 0.5}
F1_SCORE = 0.85
F1_OPTIONS = ["exact", "+4", "far", "empty", "absent", "two_gt_one_pred"]


def _gt_points(pose, nan_node):
    return [[NAN, NAN] if j == nan_node else [x, y] for j, (x, y) in enumerate(pose)]


def _pred_points(pose, nan_node, dx, dy, vis):
    """Prediction for the animal whose full pose is `pose` and whose gt lacks node `nan_node`."""
    pts = []
    first_visible = min(j for j in range(len(pose)) if j != nan_node)
    for j, (x, y) in enumerate(pose):
        if j == nan_node and vis != "full":
            pts.append([NAN, NAN])
        elif vis == "miss1" and j == first_visible:
            pts.append([NAN, NAN])
        else:
            pts.append([x + dx, y + dy])
    return pts


def build_case(item):
    """Alphabet indices -> explicit, self-contained case (coordinates, scores, tags)."""
    if item[0] == "twovid":
        # ground truth over TWO videos that share frame indices; predictions (identical to the ground truth) exist for
        # `predicted` of them only; `order` = which video is listed first.  Frames of a video without predictions are not
        # evaluated (K5); they must not be paired with another video's predictions either.
        _, order, predicted = item
        frames = []
        for v in order:
            for f in range(2):
                pose = [(x + 3.0 * f + 50.0 * v, y + 20.0 * v) for (x, y) in POSES[2][0]]
                gt = [_gt_points(pose, None)]
                pr = [{"pts": _pred_points(pose, None, 0.0, 0.0, "copy"), "score": round(0.6 + 0.01 * (2 * v + f), 6), "tag": f"v{v}f{f}:exact"}] if v in predicted else None
                frames.append({"idx": f, "video": v, "gt": gt, "pr": pr})
        return {"nodes": 2, "frames": frames, "delete": None, "perfect": False, "no_deletions": True, "paired_perfect": True}
    if item[0] == "count":
        # perfect predictions for N ground-truth instances in total (frames of `per` animals): the recall axis n/N must end
        # at exactly 1 for every N ("average precision and recall 1 up to rounding")
        _, nfr, per = item
        frames = []
        for f in range(nfr):
            poses = [[(x + 300.0 * a, y) for (x, y) in POSES[2][0]] for a in range(per)]  # well separated copies
            gt = [_gt_points(pz, None) for pz in poses]
            pr = [{"pts": _pred_points(pz, None, 0.0, 0.0, "copy"), "score": round(0.30 + 0.0005 * (f * per + a), 6), "tag": f"f{f}a{a}:exact"} for a, pz in enumerate(poses)]
            frames.append({"idx": f, "gt": gt, "pr": pr})
        return {"nodes": 2, "frames": frames, "delete": None, "perfect": True, "no_deletions": True}
    n, k, nanpat, edits, vis, extra, order, f1 = item
    poses = POSES[n][:k]
    gt = [_gt_points(poses[a], nanpat[a]) for a in range(k)]
    pr = []
    scores = MAIN_SCORES[k][order]
    for a in range(k):
        if edits[a] == "absent":
            continue
        pr.append({"pts": _pred_points(poses[a], nanpat[a], EDIT_DX[edits[a]], 0.0, vis), "score": scores[a], "tag": f"a{a}:{edits[a]}"})
    if extra is not None:
        what, a, off, pos = extra
        if what == "dup":
            pr.append({"pts": _pred_points(poses[a], nanpat[a], 0.0, float(off), vis), "score": EXTRA_SCORE[pos], "tag": f"dup{a}:+{off}y"})
        else:
            pr.append({"pts": _pred_points(poses[0], nanpat[0], 0.0, 7000.0, vis), "score": EXTRA_SCORE[pos], "tag": "extra:far"})
    frames = [{"idx": 0, "gt": gt, "pr": pr}]
    if f1 is not None:
        p1 = POSES_F1[n]
        g1 = [_gt_points(p1[0], None)]
        if f1 == "two_gt_one_pred":
            g1.append(_gt_points(p1[1], None))
        if f1 in ("exact", "+4", "far"):
            pr1 = [{"pts": _pred_points(p1[0], None, EDIT_DX[f1], 0.0, "copy"), "score": F1_SCORE, "tag": f"f1:{f1}"}]
        elif f1 == "two_gt_one_pred":
            pr1 = [{"pts": _pred_points(p1[0], None, 0.0, 0.0, "copy"), "score": F1_SCORE, "tag": "f1:exact"}]
        elif f1 == "empty":
            pr1 = []
        else:
            pr1 = None  # no predicted LabeledFrame at all
        frames.append({"idx": 1, "gt": g1, "pr": pr1})
    perfect = (
        all(e == "exact" for e in edits) and extra is None and vis == "copy" and f1 in (None, "exact")
    )
    return {"nodes": n, "frames": frames, "delete": None, "perfect": perfect}


def enumerate_items(tier):
    items = []

    def extras_for(k, offs, positions):
        out = [None]
        for pos in positions:
            for a in range(k):
                for off in offs:
                    out.append(("dup", a, off, pos))
            out.append(("far", 0, 0, pos))
        return out

    def nanpats(n, k, at_most_one_instance=False):
        opts = [None] + list(range(n))
        pats = list(itertools.product(opts, repeat=k))
        if at_most_one_instance:
            pats = [p for p in pats if sum(x is not None for x in p) <= 1]
        return pats

    thorough = tier == "thorough"
    edits = ["exact", "+0.5", "+4", "far", "absent"] + (["+1.5"] if thorough else [])
    vis_modes = ["copy", "full"] + (["miss1"] if thorough else [])
    dup_offs = [4] + ([1.5] if thorough else [])
    # --- part A: one frame, <= 2 animals, full product
    for n in (2, 3):
        for k in (1, 2):
            positions = ["top", "bottom"] if k == 1 else ["top", "mid", "bottom"]
            for np_ in nanpats(n, k):
                for ed in itertools.product(edits, repeat=k):
                    for vis in vis_modes:
                        if vis == "full" and all(x is None for x in np_):
                            continue  # identical to "copy" when no gt node is missing
                        for ex in extras_for(k, dup_offs, positions):
                            for order in range(len(MAIN_SCORES[k])):
                                if not thorough and n == 2 and order > 0:
                                    continue  # quick: both main-score orders only for the 3-node skeleton
                                items.append((n, k, np_, ed, vis, ex, order, None))
    # --- part B: two frames
    for n in (3,) if not thorough else (2, 3):
        k = 2
        pats = nanpats(n, k) if thorough else [(None, None), (0, None)]
        for np_ in pats:
            for ed in itertools.product(["exact", "+0.5", "+4", "far", "absent"], repeat=k):
                for ex in extras_for(k, [4], ["top", "mid", "bottom"]):
                    for order in range(2 if thorough else 1):
                        for f1 in F1_OPTIONS:
                            items.append((n, k, np_, ed, "copy", ex, order, f1))
    # --- part C (thorough): three animals, reduced NaN / extra alphabet
    if thorough:
        n, k = 3, 3
        for np_ in nanpats(n, k, at_most_one_instance=True):
            for ed in itertools.product(["exact", "+0.5", "+4", "far", "absent"], repeat=k):
                for vis in ("copy", "full"):
                    if vis == "full" and all(x is None for x in np_):
                        continue
                    for ex in extras_for(k, [4], ["top", "bottom"]):
                        for order in range(3):
                            items.append((n, k, np_, ed, vis, ex, order, None))
    return items


# ---------------------------------------------------------------------------------------------
# driver: the real Evaluator

_ENV = None


def make_env():
    """One synthetic video embedded in a .pkg.slp, re-loaded so that the backend is HDF5Video."""
    import sleap_io as sio
    from PIL import Image

    tmp = tempfile.mkdtemp(prefix="verif_c16_")
    paths = []
    for i in range(2):
        p = os.path.join(tmp, f"f{i}.png")
        img = np.zeros((16, 16), np.uint8)
        img[2 + i : 6 + i, 3:9] = 200
        Image.fromarray(img).save(p)
        paths.append(p)
    video = sio.load_video(paths)
    paths2 = []
    for i in range(2):
        p = os.path.join(tmp, f"g{i}.png")
        img = np.zeros((16, 16), np.uint8)
        img[8 + i : 12 + i, 2:7] = 120
        Image.fromarray(img).save(p)
        paths2.append(p)
    video_b = sio.load_video(paths2)
    sk = sio.Skeleton(nodes=["n0", "n1"], edges=[("n0", "n1")])
    lfs = [sio.LabeledFrame(video=video, frame_idx=i, instances=[sio.Instance.from_numpy(np.array([[1.0, 1.0], [5.0, 5.0]]), sk)]) for i in range(2)]
    lfs += [sio.LabeledFrame(video=video_b, frame_idx=i, instances=[sio.Instance.from_numpy(np.array([[2.0, 1.0], [6.0, 5.0]]), sk)]) for i in range(2)]
    pkg = os.path.join(tmp, "scene.pkg.slp")
    devnull = open(os.devnull, "w")
    import contextlib

    with contextlib.redirect_stderr(devnull), contextlib.redirect_stdout(devnull):
        sio.Labels(labeled_frames=lfs, videos=[video, video_b], skeletons=[sk]).save(pkg, embed="all")
    devnull.close()
    loaded = sio.load_slp(pkg)
    vid = loaded.videos[0]
    assert hasattr(vid.backend, "dataset"), "embedded video must have an HDF5 backend"
    sks = {
        2: sio.Skeleton(nodes=["n0", "n1"], edges=[("n0", "n1")]),
        3: sio.Skeleton(nodes=["n0", "n1", "n2"], edges=[("n0", "n1"), ("n1", "n2")]),
    }
    assert len(loaded.videos) == 2 and loaded.videos[1].backend.dataset != vid.backend.dataset, "harness: two distinct embedded videos expected"
    return {"tmp": tmp, "video": vid, "video2": loaded.videos[1], "sk": sks, "sio": sio}


def drop_env(env):
    if env is None:
        return
    try:
        env["video"].close()
    except Exception:
        pass
    shutil.rmtree(env["tmp"], ignore_errors=True)


def _stale(inst, p):
    """Store every missing node of `inst` the way the GUI stores a node that was toggled off: the point stays INVISIBLE
    but keeps finite coordinates in the raw point array (Instance.numpy() still shows NaN for it)."""
    a = np.array(p, dtype="float64")
    vis = ~np.isnan(a).any(axis=1)
    base = np.nanmean(a[vis], axis=0) if vis.any() else np.array([3.0, 3.0])
    for k in range(len(a)):
        if not vis[k]:
            inst.points["xy"][k] = base + np.array([2.0 + k, 1.0])
            inst.points["visible"][k] = False
    assert np.array_equal(np.isnan(inst.numpy()).any(axis=1), ~vis), "harness: stale representation changed the visible pattern"
    return inst


def build_labels(env, nodes, frames, stale=False):
    sio = env["sio"]
    sk, vid0 = env["sk"][nodes], env["video"]
    vids = {0: vid0, 1: env["video2"]}
    gt_lfs, pr_lfs = [], []
    for fr in frames:
        vid = vids[fr.get("video", 0)]
        gt_lfs.append(
            sio.LabeledFrame(video=vid, frame_idx=fr["idx"], instances=[(_stale(sio.Instance.from_numpy(np.array(p, dtype="float64"), sk), p) if stale else sio.Instance.from_numpy(np.array(p, dtype="float64"), sk)) for p in fr["gt"]])
        )
        if fr["pr"] is None:
            continue
        insts = [
            sio.PredictedInstance.from_numpy(np.array(p["pts"], dtype="float64"), sk, point_scores=np.ones(nodes), score=float(p["score"]))
            for p in fr["pr"]
        ]
        if stale:
            insts = [_stale(i_, p["pts"]) for i_, p in zip(insts, fr["pr"])]
        pr_lfs.append(sio.LabeledFrame(video=vid, frame_idx=fr["idx"], instances=insts))
    gt_v = sorted({fr.get("video", 0) for fr in frames}, key=lambda v: [fr.get("video", 0) for fr in frames].index(v))  # order of first use
    pr_v = [v for v in gt_v if any(fr.get("video", 0) == v and fr["pr"] is not None for fr in frames)] or gt_v[:1]
    gt = sio.Labels(labeled_frames=gt_lfs, videos=[vids[v] for v in gt_v], skeletons=[sk])
    pr = sio.Labels(labeled_frames=pr_lfs, videos=[vids[v] for v in pr_v], skeletons=[sk])
    return gt, pr


def run_full(env, nodes, frames, stale=False):
    """Everything Evaluator reports for one label pair."""
    from sleap_nn.evaluation import Evaluator

    gt, pr = build_labels(env, nodes, frames, stale)
    ev = Evaluator(gt, pr)
    m = ev.evaluate()
    return {
        "voc": m["voc_metrics"],
        "pckvoc": ev.voc_metrics(match_score_by="pck"),
        "mOKS": m["mOKS"]["mOKS"],
        "dist": m["distance_metrics"],
        "pck": m["pck_metrics"],
        "pck2": ev.pck_metrics(thresholds=PCK_T2),
        "vis": m["visibility_metrics"],
        "pairs": [(float(pp[1].instance.score), float(pp[2])) for pp in ev.positive_pairs],
        "n_fn": len(ev.false_negatives),
    }


def recall_of(obs):
    out = {}
    for name, v in (("oks_voc", obs["voc"]), ("pck_voc", obs["pckvoc"])):
        out[name + ".AR"] = np.broadcast_to(np.asarray(v[name + ".AR"], dtype="float64"), (len(OKS_T),)).copy()
        out[name + ".mAR"] = float(v[name + ".mAR"])
    return out


def run_recall(env, nodes, frames):
    from sleap_nn.evaluation import Evaluator

    gt, pr = build_labels(env, nodes, frames)
    ev = Evaluator(gt, pr)
    out = {}
    for by, name in (("oks", "oks_voc"), ("pck", "pck_voc")):
        v = ev.voc_metrics(match_score_by=by)
        out[name + ".AR"] = np.broadcast_to(np.asarray(v[name + ".AR"], dtype="float64"), (len(OKS_T),)).copy()
        out[name + ".mAR"] = float(v[name + ".mAR"])
    return out


# ---------------------------------------------------------------------------------------------
# oracle


def _arr(x):
    return np.atleast_1d(np.asarray(x, dtype="float64"))


def _in01(name, x, errs, allow_nan=False):
    a = _arr(x)
    nan = np.isnan(a)
    if nan.any() and not allow_nan:
        errs.append(f"bounded: {name} is NaN")
    b = a[~nan]
    if b.size and (b.min() < -1e-12 or b.max() > 1 + 1e-12 or not np.isfinite(b).all()):
        errs.append(f"bounded: {name} outside [0,1]: min={b.min()!r} max={b.max()!r}")


def _noninc(name, x, errs, axis_name):
    a = _arr(x)
    if a.size > 1 and (np.diff(a) > 1e-12).any():
        errs.append(f"monotone: {name} increases along {axis_name}: {np.round(a, 6).tolist()}")


def ref_voc(pairs, n_gt):
    """Explicit VOC: pairs = [(detection score, match score)], float64, no cumsum/searchsorted."""
    order = sorted(range(len(pairs)), key=lambda i: -pairs[i][0])
    ap, ar = [], []
    for t in OKS_T:
        pts = []
        tp = 0
        for rank, i in enumerate(order, start=1):
            if pairs[i][1] >= t:
                tp += 1
            pts.append((tp / n_gt, tp / rank))
        ar.append(tp / n_gt if pts else 0.0)
        acc = 0.0
        for r in REC_T:
            cand = [p for (rc, p) in pts if rc >= r]
            acc += max(cand) if cand else 0.0
        ap.append(acc / len(REC_T))
    return np.array(ap), np.array(ar)


def check_base(case, obs):
    errs = []
    frames = case["frames"]
    paired = [fr for fr in frames if fr["pr"] is not None]
    n_gt = sum(len(fr["gt"]) for fr in paired)
    nodes = case["nodes"]
    pairs = obs["pairs"]
    n_pairs = len(pairs)

    # ---- bounded -------------------------------------------------------------------------
    for name, voc in (("oks_voc", obs["voc"]), ("pck_voc", obs["pckvoc"])):
        for key in ("AP", "AR", "mAP", "mAR", "precisions", "recalls", "match_scores"):
            _in01(f"{name}.{key}", voc[f"{name}.{key}"], errs)
    _in01("mOKS", obs["mOKS"], errs, allow_nan=(n_pairs == 0))
    if n_pairs and np.isnan(obs["mOKS"]):
        errs.append("bounded: mOKS is NaN although pairs were matched")
    for nm, pk in (("pck", obs["pck"]), ("pck2", obs["pck2"])):
        _in01(f"{nm}.mPCK", pk["mPCK"], errs, allow_nan=(n_pairs == 0))
        _in01(f"{nm}.mPCK_parts", pk["mPCK_parts"], errs, allow_nan=(n_pairs == 0))
        if n_pairs:
            _in01(f"{nm}.pcks", np.asarray(pk["pcks"], dtype="float64"), errs)
    vis = obs["vis"]
    tp_, fp_, tn_, fn_ = (int(vis[k]) for k in ("tp", "fp", "tn", "fn"))
    if min(tp_, fp_, tn_, fn_) < 0 or tp_ + fp_ + tn_ + fn_ != n_pairs * nodes:
        errs.append(f"bounded: visibility counts {tp_, fp_, tn_, fn_} do not partition the {n_pairs}x{nodes} matched keypoints")
    _in01("visibility.precision", vis["precision"], errs, allow_nan=(tp_ + fp_ == 0))
    _in01("visibility.recall", vis["recall"], errs, allow_nan=(tp_ + fn_ == 0))
    dists = np.asarray(obs["dist"]["dists"], dtype="float64")
    if n_pairs and dists.shape != (n_pairs, nodes):
        errs.append(f"definition: dists shape {dists.shape} != ({n_pairs},{nodes})")
    finite = dists[~np.isnan(dists)] if dists.size else np.array([])
    if finite.size and finite.min() < 0:
        errs.append("bounded: negative distance")
    for k in ("avg", "p50", "p75", "p90", "p95", "p99"):
        v = float(obs["dist"][k])
        if math.isnan(v):
            if finite.size:
                errs.append(f"bounded: distance {k} is NaN although distances exist")
        elif v < 0 or (finite.size and v > finite.max() + 1e-9):
            errs.append(f"bounded: distance {k}={v} outside [0,max]")

    # ---- monotone ------------------------------------------------------------------------
    for name, voc in (("oks_voc", obs["voc"]), ("pck_voc", obs["pckvoc"])):
        _noninc(f"{name}.AP", voc[f"{name}.AP"], errs, "match thresholds")
        _noninc(f"{name}.AR", voc[f"{name}.AR"], errs, "match thresholds")
        prec = np.asarray(voc[f"{name}.precisions"], dtype="float64")
        if prec.ndim == 2 and (np.diff(prec, axis=1) > 1e-12).any():
            t = int(np.argwhere(np.diff(prec, axis=1) > 1e-12)[0][0])
            errs.append(f"monotone: {name}.precisions (interpolated precision) increases along the recall thresholds at match threshold #{t}")
    if n_pairs:
        for nm, pk in (("pck", obs["pck"]), ("pck2", obs["pck2"])):
            per_t = np.asarray(pk["pcks"], dtype="float64").mean(axis=(0, 1))
            if (np.diff(per_t) < -1e-12).any():
                errs.append(f"monotone: {nm} PCK decreases with the pixel threshold: {np.round(per_t, 6).tolist()}")

    # ---- definitions (explicit references, float64) --------------------------------------------
    if n_pairs + obs["n_fn"] != n_gt:
        errs.append(f"definition: matched ({n_pairs}) + false negatives ({obs['n_fn']}) != gt instances in paired frames ({n_gt})")
    any_overlap = any(ref_oks(g, p["pts"]) > 0 for fr in paired for g in fr["gt"] for p in fr["pr"])
    if any_overlap != (n_pairs > 0):
        errs.append(f"definition: {n_pairs} matched pairs although {'some' if any_overlap else 'no'} prediction has positive OKS with a gt instance")
    if n_pairs:
        ms = _arr(obs["voc"]["oks_voc.match_scores"])
        if sorted(np.round(ms, 12).tolist()) != sorted(np.round([p[1] for p in pairs], 12).tolist()):
            errs.append("definition: oks_voc.match_scores is not the multiset of pair OKS")
        if abs(float(obs["mOKS"]) - float(np.mean([p[1] for p in pairs]))) > TOL:
            errs.append(f"definition: mOKS={float(obs['mOKS'])!r} != mean pair OKS {float(np.mean([p[1] for p in pairs]))!r}")
        ap_ref, ar_ref = ref_voc(pairs, n_gt)
        ap, ar = _arr(obs["voc"]["oks_voc.AP"]), _arr(obs["voc"]["oks_voc.AR"])
        if ar.shape != ar_ref.shape or np.abs(ar - ar_ref).max() > TOL:
            errs.append(f"definition: oks_voc.AR={np.round(ar, 6).tolist()} != matched-with-score>=t / n_gt = {np.round(ar_ref, 6).tolist()}")
        if ap.shape != ap_ref.shape or np.abs(ap - ap_ref).max() > TOL:
            errs.append(f"definition: oks_voc.AP={np.round(ap, 6).tolist()} != VOC interpolated AP {np.round(ap_ref, 6).tolist()}")
        if abs(float(obs["voc"]["oks_voc.mAP"]) - ap_ref.mean()) > TOL or abs(float(obs["voc"]["oks_voc.mAR"]) - ar_ref.mean()) > TOL:
            errs.append("definition: mAP/mAR are not the means of AP/AR")
        # pck flavour: the match score of a pair is its own mean PCK; recall is still over n_gt
        pms = _arr(obs["pckvoc"]["pck_voc.match_scores"])
        par = _arr(obs["pckvoc"]["pck_voc.AR"])
        par_ref = np.array([(pms >= t).sum() / n_gt for t in OKS_T])
        if pms.size != n_pairs or par.shape != par_ref.shape or np.abs(par - par_ref).max() > TOL:
            errs.append(f"definition: pck_voc.AR={np.round(par, 6).tolist()} != {np.round(par_ref, 6).tolist()}")
        if dists.shape == (n_pairs, nodes):
            for nm, pk, thr in (("pck", obs["pck"], PCK_T), ("pck2", obs["pck2"], PCK_T2)):
                ref = np.array([[[(not math.isnan(d)) and d < t for t in thr] for d in row] for row in dists.tolist()], dtype="float64")
                got = np.asarray(pk["pcks"], dtype="float64")
                if got.shape != ref.shape or (got != ref).any():
                    errs.append(f"definition: {nm}.pcks is not [dist < threshold] with missing keypoints counted as misses")
                elif abs(float(pk["mPCK"]) - ref.mean()) > TOL:
                    errs.append(f"definition: {nm}.mPCK={float(pk['mPCK'])!r} != {ref.mean()!r}")
            if finite.size and abs(float(obs["dist"]["avg"]) - finite.mean()) > TOL:
                errs.append("definition: distance avg is not the mean of the finite distances")
    else:
        for name, voc in (("oks_voc", obs["voc"]), ("pck_voc", obs["pckvoc"])):
            for key in ("AP", "AR", "mAP", "mAR"):
                if np.abs(_arr(voc[f"{name}.{key}"])).max() != 0:
                    errs.append(f"definition: {name}.{key} != 0 with no matched pair")

    if case.get("paired_perfect"):
        if n_pairs != n_gt or obs["n_fn"] != 0 or abs(float(obs["mOKS"]) - 1.0) > TOL or np.abs(_arr(obs["voc"]["oks_voc.AR"]) - 1.0).max() > TOL or np.abs(_arr(obs["voc"]["oks_voc.AP"]) - 1.0).max() > TOL:
            errs.append(f"fixed-point (two videos): identical predictions for the {n_gt} instances of the predicted video(s) give {n_pairs} pairs, {obs['n_fn']} misses, mOKS {float(obs['mOKS'])!r}, AR {np.round(_arr(obs['voc']['oks_voc.AR']), 4).tolist()}")
    # ---- fixed point -------------------------------------------------------------------------
    if case.get("perfect"):
        n_all = sum(len(fr["gt"]) for fr in frames)
        vis_n = sum(1 for fr in frames for g in fr["gt"] for pt in g if not math.isnan(pt[0]))
        tot_n = n_all * nodes
        if n_pairs != n_all:
            errs.append(f"fixed-point: {n_pairs} matched pairs for {n_all} identical instances")
        if not abs(float(obs["mOKS"]) - 1.0) <= TOL:
            errs.append(f"fixed-point: mOKS={float(obs['mOKS'])!r} != 1")
        for name, voc in (("oks_voc", obs["voc"]), ("pck_voc", obs["pckvoc"])):
            keys = ("AP", "AR", "mAP", "mAR") if name == "oks_voc" or vis_n == tot_n else ()
            for key in keys:
                a = _arr(voc[f"{name}.{key}"])
                if a.min() < 1 - TOL:
                    errs.append(f"fixed-point: {name}.{key} min={a.min()!r} < 1")
        if finite.size and finite.max() != 0:
            errs.append(f"fixed-point: max distance {finite.max()!r} != 0")
        if int(np.isnan(dists).sum()) != tot_n - vis_n:
            errs.append(f"fixed-point: {int(np.isnan(dists).sum())} NaN distances, {tot_n - vis_n} keypoints missing in gt")
        for k in ("avg", "p50", "p75", "p90", "p95", "p99"):
            if float(obs["dist"][k]) != 0:
                errs.append(f"fixed-point: distance {k}={float(obs['dist'][k])!r} != 0")
        for nm, pk in (("pck", obs["pck"]), ("pck2", obs["pck2"])):
            if abs(float(pk["mPCK"]) - vis_n / tot_n) > 1e-12:
                errs.append(f"fixed-point: {nm}.mPCK={float(pk['mPCK'])!r} != visible fraction {vis_n}/{tot_n}")
            per_t = np.asarray(pk["pcks"], dtype="float64").mean(axis=(0, 1)) if n_pairs else np.array([NAN])
            if np.abs(per_t - vis_n / tot_n).max() > 1e-12:
                errs.append(f"fixed-point: {nm} PCK per threshold {per_t.tolist()} != {vis_n}/{tot_n}")
        if (tp_, fp_, tn_, fn_) != (vis_n, 0, tot_n - vis_n, 0):
            errs.append(f"fixed-point: visibility (tp,fp,tn,fn)={(tp_, fp_, tn_, fn_)} != {(vis_n, 0, tot_n - vis_n, 0)}")
        if not (float(vis["precision"]) == 1.0 and float(vis["recall"]) == 1.0):
            errs.append("fixed-point: visibility precision/recall != 1")
    return errs


def compare_recall(before, after):
    rises = []
    for key in ("oks_voc.AR", "pck_voc.AR", "oks_voc.mAR", "pck_voc.mAR"):
        b, a = _arr(before[key]), _arr(after[key])
        if (a > b + 1e-12).any() or np.isnan(a).any() or np.isnan(b).any():
            rises.append({"metric": key, "before": np.round(b, 12).tolist(), "after": np.round(a, 12).tolist()})
    return rises


def deleted_frames(frames, f, j, empty):
    out = []
    for fi, fr in enumerate(frames):
        if fi != f:
            out.append(fr)
            continue
        rest = [p for pj, p in enumerate(fr["pr"]) if pj != j]
        out.append({"idx": fr["idx"], "gt": fr["gt"], "pr": (None if (not rest and empty == "drop") else rest)})
    return out


def outcome_key(obs):
    v = obs["voc"]
    return core.digest(
        [
            np.round(_arr(v["oks_voc.AP"]), 9),
            np.round(_arr(v["oks_voc.AR"]), 9),
            np.round(_arr(obs["pckvoc"]["pck_voc.AR"]), 9),
            round(float(obs["mOKS"]), 9),
            round(float(obs["pck"]["mPCK"]), 9),
            [int(obs["vis"][k]) for k in ("tp", "fp", "tn", "fn")],
        ]
    )


# ---------------------------------------------------------------------------------------------
# explorer


def work(part, shard):
    env = _ENV
    for item in shard:
        case = build_case(item)
        nodes, frames = case["nodes"], case["frames"]
        key = repr(item)
        part.count()
        part.state(key)
        part.transition()
        try:
            obs = run_full(env, nodes, frames)
        except Exception as e:
            part.sample(case, False)
            part.violation(case, f"raised {type(e).__name__}: {e}")
            continue
        n_pairs = len(obs["pairs"])
        nt = n_pairs > 0 and not case["perfect"]
        if nt:
            part.nontriv(key)
        if case["perfect"]:
            part.add("perfect_copy_cases")
        if n_pairs == 0:
            part.add("cases_without_any_match")
        part.sample(case, nt)
        part.outcome(outcome_key(obs))
        errs = check_base(case, obs)
        if errs:
            part.violation(case, " | ".join(errs))
        # representation independence: the same label pair with every missing node stored as an invisible point that keeps
        # coordinates must evaluate to exactly the same numbers
        if any(math.isnan(pt[0]) for fr in frames for g in fr["gt"] for pt in g) or any(math.isnan(pt[0]) for fr in frames if fr["pr"] for p in fr["pr"] for pt in p["pts"]):
            part.count()
            part.transition()
            part.add("stale_representation_runs")
            try:
                obs2 = run_full(env, nodes, frames, stale=True)
                if outcome_key(obs2) != outcome_key(obs) or check_base(case, obs2) != errs:
                    diff = [k for k in ("mOKS", "n_fn") if repr(obs2[k]) != repr(obs[k])] + [k for k in ("mPCK",) if repr(obs2["pck"][k]) != repr(obs["pck"][k])]
                    part.violation(dict(case, stale=True), f"representation: the metrics change when missing nodes are stored as invisible points with coordinates instead of NaN (differs in {diff or 'other entries'}; mPCK {obs['pck']['mPCK']} -> {obs2['pck']['mPCK']})")
            except Exception as e:
                part.violation(dict(case, stale=True), f"representation: raised {type(e).__name__}: {e} with invisible-point labels")
        if case.get("no_deletions"):
            part.add("perfect_count_cases")
            continue
        # ---- every single deletion
        base = recall_of(obs)
        for f, fr in enumerate(frames):
            if fr["pr"] is None:
                continue
            for j in range(len(fr["pr"])):
                modes = ["keep"]
                if len(fr["pr"]) == 1:
                    if any(g["pr"] is not None for gi, g in enumerate(frames) if gi != f):
                        modes.append("drop")
                    else:
                        part.add("excluded_drop_variants_without_any_frame_pair")
                for empty in modes:
                    dcase = dict(case, delete={"frame": f, "idx": j, "empty": empty})
                    dkey = key + f"|del{f}.{j}.{empty}"
                    part.count()
                    part.state(dkey)
                    try:
                        part.transition()
                        after = run_recall(env, nodes, deleted_frames(frames, f, j, empty))
                    except Exception as e:
                        part.violation(dcase, f"raised {type(e).__name__}: {e}")
                        continue
                    part.add("deletions_checked")
                    if any(not np.array_equal(base[k], after[k]) for k in ("oks_voc.AR", "pck_voc.AR")):
                        part.nontriv(dkey)
                        part.add("deletions_changing_recall")
                    rises = compare_recall(base, after)
                    if rises:
                        part.violation(dcase, "deletion-recall: " + json.dumps({"deleted": fr["pr"][j]["tag"], "rises": rises}))


def run(ctx):
    global _ENV
    core.setup_torch()
    items = enumerate_items(ctx.tier)
    nmax = 110 if ctx.tier == "quick" else 200
    items += [("count", n, 1) for n in range(1, nmax + 1)] + [("count", 7, 7), ("count", 14, 7), ("count", 49, 2)]
    items += [("twovid", order, pred) for order in ((0, 1), (1, 0)) for pred in ((0,), (1,), (0, 1))]
    ctx.bounds = {
        "perfect_count_family": f"perfect predictions for every total of 1..{nmax} ground-truth instances (one per frame), plus 7x7, 14x7 and 49x2",
        "frames_max": 2,
        "animals_max": 2 if ctx.tier == "quick" else 3,
        "nodes": [2, 3],
        "edits": ["exact", "+0.5", "+4", "far", "absent"] + (["+1.5"] if ctx.tier == "thorough" else []),
        "visibility_modes": ["copy", "full"] + (["miss1"] if ctx.tier == "thorough" else []),
        "extra_predictions_max": 1,
        "second_frame_options": F1_OPTIONS,
        "base_cases": len(items),
        "deletions": "every single prediction of every base case; keep/drop of an emptied LabeledFrame",
    }
    _ENV = make_env()
    try:
        # determinism (R3): the first case twice
        first = build_case(items[0])
        a = outcome_key(run_full(_ENV, first["nodes"], first["frames"]))
        b = outcome_key(run_full(_ENV, first["nodes"], first["frames"]))
        if a != b:
            raise RuntimeError("first execution is not reproducible")
        items = core.rotate(items, ctx.seed)
        core.pmap(ctx, work, core.shard_list(items, max(16, len(items) // 100)))
    finally:
        drop_env(_ENV)
        _ENV = None


def replay(case):
    env = make_env()
    try:
        nodes, frames = case["nodes"], case["frames"]
        if case.get("delete"):
            d = case["delete"]
            before = run_recall(env, nodes, frames)
            after = run_recall(env, nodes, deleted_frames(frames, d["frame"], d["idx"], d["empty"]))
            rises = compare_recall(before, after)
            return {
                "deleted": frames[d["frame"]]["pr"][d["idx"]],
                "before": before,
                "after": after,
                "rises": rises,
                "known_signatures": {k: bool(p(case, "deletion-recall: " + json.dumps({"rises": rises}))) for k, p in KNOWN_PREDICATES.items()} if rises else {},
                "violates": bool(rises),
            }
        if case.get("stale"):
            a, b = run_full(env, nodes, frames), run_full(env, nodes, frames, stale=True)
            same_ = outcome_key(a) == outcome_key(b) and check_base(case, a) == check_base(case, b)
            return {"violates": not same_, "nan_representation": {"mOKS": a["mOKS"], "mPCK": a["pck"]["mPCK"], "pck_voc.AR": a["pckvoc"]["pck_voc.AR"]}, "invisible_point_representation": {"mOKS": b["mOKS"], "mPCK": b["pck"]["mPCK"], "pck_voc.AR": b["pckvoc"]["pck_voc.AR"]}}
        obs = run_full(env, nodes, frames)
        errs = check_base(case, obs)
        return {
            "oks_voc.AP": obs["voc"]["oks_voc.AP"],
            "oks_voc.AR": obs["voc"]["oks_voc.AR"],
            "pck_voc.AR": obs["pckvoc"]["pck_voc.AR"],
            "mOKS": obs["mOKS"],
            "mPCK": obs["pck"]["mPCK"],
            "visibility": {k: obs["vis"][k] for k in ("tp", "fp", "tn", "fn", "precision", "recall")},
            "dist_avg": obs["dist"]["avg"],
            "pairs(score,oks)": obs["pairs"],
            "errors": errs,
            "violates": bool(errs),
        }
    finally:
        drop_env(env)


# ---------------------------------------------------------------------------------------------
# reference greedy VOC matcher — used ONLY by the known-finding signature predicates


def ref_oks(gt, pr, stddev=0.025):
    """COCO-style OKS of one prediction against one gt instance (float64, plain Python)."""
    vis = [j for j, p in enumerate(gt) if not (math.isnan(p[0]) or math.isnan(p[1]))]
    if not vis:
        return NAN
    xs, ys = [gt[j][0] for j in vis], [gt[j][1] for j in vis]
    area = (max(xs) - min(xs)) * (max(ys) - min(ys))
    denom = (2 * stddev) ** 2 * 2 * (area + np.spacing(1))
    tot = 0.0
    for j in vis:
        q = pr[j]
        if math.isnan(q[0]) or math.isnan(q[1]):
            continue
        d2 = (gt[j][0] - q[0]) ** 2 + (gt[j][1] - q[1]) ** 2
        tot += math.exp(-d2 / denom)
    return tot / len(vis)


def ref_pck(gt, pr):
    hits = 0
    for g, q in zip(gt, pr):
        if math.isnan(g[0]) or math.isnan(q[0]):
            continue
        d = math.hypot(g[0] - q[0], g[1] - q[1])
        hits += sum(1 for t in PCK_T if d < t)
    return hits / (len(gt) * len(PCK_T))


def ref_match(gt, pr):
    """Documented PASCAL-VOC procedure: predictions by descending score, each takes the best free gt."""
    free = list(range(len(gt)))
    out = {}
    for j in sorted(range(len(pr)), key=lambda j: -pr[j]["score"]):
        best, best_o = None, 0.0
        for g in free:
            o = ref_oks(gt[g], pr[j]["pts"])
            if o > best_o:
                best, best_o = g, o
        if best is not None:
            free.remove(best)
            out[j] = (best, best_o)
    return out


def ref_recalls(frames):
    """AR vectors of the documented procedure (gt frames without a predicted frame are not paired)."""
    n_gt, oks_s, pck_s = 0, [], []
    for fr in frames:
        if fr["pr"] is None:
            continue
        n_gt += len(fr["gt"])
        for j, (g, o) in ref_match(fr["gt"], fr["pr"]).items():
            oks_s.append(o)
            pck_s.append(ref_pck(fr["gt"][g], fr["pr"][j]["pts"]))
    res = {}
    for name, sc in (("oks_voc", oks_s), ("pck_voc", pck_s)):
        ar = np.array([sum(1 for s in sc if s >= t) / n_gt for t in OKS_T]) if n_gt else np.zeros(len(OKS_T))
        res[name + ".AR"] = ar
        res[name + ".mAR"] = np.array([ar.mean()])
    return res


def _explained_by_reference(case, msg):
    """The observed before/after recalls are exactly those of the documented greedy procedure."""
    if not msg.startswith("deletion-recall: ") or not case.get("delete"):
        return None
    d = case["delete"]
    info = json.loads(msg[len("deletion-recall: ") :])
    frames = case["frames"]
    after_frames = deleted_frames(frames, d["frame"], d["idx"], d["empty"])
    rb, ra = ref_recalls(frames), ref_recalls(after_frames)
    if not info["rises"]:
        return None
    for r in info["rises"]:
        if np.abs(np.array(r["before"]) - rb[r["metric"]]).max() > 1e-9:
            return None
        if np.abs(np.array(r["after"]) - ra[r["metric"]]).max() > 1e-9:
            return None
    return d, info, frames, after_frames


def known_greedy_duplicate_steals_gt(case, msg):
    """K3: the deleted prediction p was matched (to gt g) in the full set; after the deletion g is held by a
    LOWER-scored prediction with a strictly HIGHER match score; observed recalls = greedy VOC reference."""
    ex = _explained_by_reference(case, msg)
    if ex is None:
        return False
    d, info, frames, after_frames = ex
    fr = frames[d["frame"]]
    rest = after_frames[d["frame"]]["pr"]
    if not rest:  # the frame lost its last prediction: a different pattern
        return False
    full = ref_match(fr["gt"], fr["pr"])
    if d["idx"] not in full:
        return False
    g, _ = full[d["idx"]]
    after = ref_match(fr["gt"], rest)
    holder = [j for j, (gg, _) in after.items() if gg == g]
    if not holder:
        return False
    r = rest[holder[0]]
    p = fr["pr"][d["idx"]]
    if not r["score"] < p["score"]:
        return False
    for rise in info["rises"]:
        score = ref_oks if rise["metric"].startswith("oks") else ref_pck
        if not score(fr["gt"][g], r["pts"]) > score(fr["gt"][g], p["pts"]):
            return False
    return True


def known_unpredicted_frame_not_counted(case, msg):
    """Candidate finding: the deleted prediction was the ONLY one of its frame and the emptied LabeledFrame
    is removed from the predicted Labels (what the top-down predictor emits for a frame without detections);
    find_frame_pairs then skips that gt frame, so its instances leave the recall denominator."""
    ex = _explained_by_reference(case, msg)
    if ex is None:
        return False
    d, info, frames, after_frames = ex
    return d["empty"] == "drop" and len(frames[d["frame"]]["pr"]) == 1 and after_frames[d["frame"]]["pr"] is None


KNOWN_PREDICATES = {
    "greedy_duplicate_steals_gt": known_greedy_duplicate_steals_gt,
    "unpredicted_frame_not_counted": known_unpredicted_frame_not_counted,
}
