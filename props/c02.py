"""C02 — single-instance and top-down inference return original-image coordinates.

E1, end to end, fully enumerated configuration grid: the REAL SingleInstancePredictor /
TopDownPredictor (real make_pipeline, reader threads, _predict_generator, inference
layers, label assembly) with ideal networks (props/_ideal.py) in place of trained
weights, on lossless synthetic frames served from a .pkg.slp (LabelsReader) and from
the same frames as a PNG-sequence video (VideoReader).
"""
from __future__ import annotations

import itertools
import math
import shutil
import tempfile

import numpy as np

from mc import core
from props import _ideal as I
from props import _scenes as S

LEVEL = "model_checking"
RULE = (
    "full product grid image size x (max_height,max_width) x input scale(s) x max_stride x output stride(s) x crop size x "
    "refinement x batch size x provider x keypoint layout, each point executed end to end through the real predictor with "
    "ideal networks; oracle: every visible keypoint within (0.5*stride+0.5)/(input_scale*eff_scale) original px per axis, "
    "invisible => NaN / value 0, LabelsReader == VideoReader; a configuration is non-trivial when at least one of "
    "{input scale != 1, size matching active, stride > 1, integral refinement} holds; distinct = distinct configuration"
)
ASSUMPTIONS = [
    "ideal networks are the premise of the property ('if the network outputs the ideal maps for the image it is actually given'), not an approximation of a trained one",
    "keypoints in general position (fixed non-dyadic fractional parts); scene geometry scaled to the coarsest cell of the chain (resolution rule, DESIGN C02); configurations whose geometry cannot satisfy the rule are counted as skipped_infeasible, not as violations",
    "configurations in which a resampling stage would produce a non-integer target size are the domain of known finding K4 (truncating resize, C04) and are counted as skipped_k4_domain; scenes grow by an integer factor so that eff_scale is preserved",
    "tolerance = half an output-stride cell mapped back to the original frame plus the resampling phase the ideal network cannot see through: half a model-input pixel, or 0.5*|s_total-1| input px when the total up-scaling exceeds 2 (the half-pixel convention of known finding K4), plus 0.06 input px for the ideal network's own sub-pixel localisation accuracy",
    "single-instance 'mixed' runs: a label file over two videos of sizes (64,96) and (32,48) size-matched to (64,96), frames alternating, so batch-mates have different eff_scale",
    "top-down scenes: the animal count grows from frame 0 to frame 1; with batch 3 and the video reader a frame without any animal is also placed first (thorough: also between the two) in the batch and must yield no record while the other frames keep theirs",
    "top-down crops: square, and (crop, crop+16) / (crop+16, crop) non-square crops on a sub-grid (label reader, batch 3, centroid scale 1 in quick; all label-reader cases in thorough)",
    "the make_labels pass forwards every batch twice through the inference-model object (inputs must stay untouched, second answer = first)",
    "grid values: see bounds; other values are outside the bound",
]

FR = [0.31, 0.57, 0.18, 0.73, 0.44, 0.66, 0.27, 0.81]  # non-dyadic fractional parts


def eff_scale_of(H, W, mh, mw):
    mh = H if mh is None else mh
    mw = W if mw is None else mw
    if (H, W) == (mh, mw):
        return 1.0
    return min(mh / H, mw / W)


def _isint(x):
    return abs(x - round(x)) < 1e-9


def k4_free(H, W, mh, mw, scales):
    """True iff every resampling stage of this configuration produces an exact integer size, i.e. the configuration is
    outside the domain of known finding K4 (truncating / rounding resize, decided under C04).  C02 is about the
    coordinate mapping; with a truncated target size the image content itself is displaced by up to a pixel."""
    eff = eff_scale_of(H, W, mh, mw)
    if not (_isint(H * eff) and _isint(W * eff)):
        return False
    h2, w2 = (H, W) if mh is None else (mh, mw)
    return all(_isint(h2 * s) and _isint(w2 * s) for s in scales)


LOCATOR_SLACK = 0.06  # input px: accuracy of the ideal network's intensity-weighted disc centroid after bilinear resampling


def phase_allowance(s_total):
    """Model-input pixels allowed for the resampling phase the ideal network cannot see through: sleap-nn scales
    coordinates about the centre of pixel (0,0), images are resampled about the pixel corner, which displaces content by
    0.5*(s_total-1) input px (known finding K4, decided under C04).  Half an input pixel covers every total scale <= 2;
    beyond that the K4 phase itself is allowed for, nothing more."""
    return max(0.5, 0.5 * abs(s_total - 1.0))


def gp(v, i):
    """General position: integer part of v plus a fixed non-dyadic fraction."""
    return math.floor(v) + FR[i % len(FR)]


# ---------------------------------------------------------------------------
# single instance


def single_layout(H, W, r, layout, margin=0.0):
    m = max(r + 4, margin)
    if layout == 0:
        pts = [(m + 0.1 * (W - 2 * m), m + 0.15 * (H - 2 * m)), (m + 0.9 * (W - 2 * m), m + 0.35 * (H - 2 * m)), (m + 0.4 * (W - 2 * m), m + 0.9 * (H - 2 * m))]
        vis = [True, True, True]
    else:
        pts = [(m + 0.8 * (W - 2 * m), m + 0.85 * (H - 2 * m)), (m + 0.2 * (W - 2 * m), m + 0.6 * (H - 2 * m)), (m + 0.55 * (W - 2 * m), m + 0.1 * (H - 2 * m))]
        vis = [True, False, True]
    out = np.array([[gp(x, 2 * i), gp(y, 2 * i + 1)] for i, (x, y) in enumerate(pts)], dtype=np.float64)
    for i, v in enumerate(vis):
        if not v:
            out[i] = np.nan
    return out


def run_single(case, tmp):
    H, W = case["hw"]
    mh, mw = case["max_hw"]
    scale, stride = case["scale"], case["stride"]
    eff = eff_scale_of(H, W, mh, mw)
    if not k4_free(H, W, mh, mw, [scale]):
        return "infeasible-k4", None
    r = max(3.0, 3.0 / (scale * eff))
    # integral refinement is biased where its patch is zero-padded (C07): keep keypoints >= half a patch (2.5 cells)
    # away from the border of the output map when it is on
    margin = (2.5 * stride / (scale * eff) + 1.0) if case["refinement"] == "integral" else 0.0
    if 2 * max(r + 4, margin) + 3 * r > min(H, W):
        return "infeasible", None
    sk = S.make_skeleton(3)
    frames, truth = [], []
    for f in range(3):
        pts = single_layout(H, W, r, (case["layout"] + f) % 2, margin)
        frames.append({"image": S.render(H, W, [pts], radius=r), "instances": [pts]})
        truth.append(pts)
    slp = S.write_labels(tmp, frames, sk, name="s", embed=True)
    path = slp if case["provider"] == "LabelsReader" else S.png_video_paths(tmp, "s")
    pred = I.single_predictor(3, scale, case["max_stride"], stride, 1.5, (mh, mw), case["refinement"], case["batch"], sk)
    outs = I.run_predictor(pred, case["provider"], path, make_labels=False)
    tol = (0.5 * stride + phase_allowance(scale * eff) + LOCATOR_SLACK) / (scale * eff) + 1e-3
    got = {}
    for o in outs:
        for fi, pk, pv in zip(o["frame_idx"], o["pred_instance_peaks"], o["pred_peak_values"]):
            if int(fi) in got:
                return f"frame {int(fi)} reported twice", None
            got[int(fi)] = (np.asarray(pk, dtype=np.float64), np.asarray(pv, dtype=np.float64))
    if sorted(got) != [0, 1, 2]:
        return f"frames reported {sorted(got)} != [0, 1, 2]", None
    worst = 0.0
    for f in range(3):
        pk, pv = got[f]
        for k in range(3):
            if np.isnan(truth[f][k]).any():
                if not np.isnan(pk[k]).all() or pv[k] != 0:
                    return f"frame {f} node {k} is invisible but reported at {pk[k].tolist()} with value {pv[k]}", None
            else:
                if np.isnan(pk[k]).any():
                    return f"frame {f} node {k} at {truth[f][k].tolist()} was not detected", None
                err = float(np.abs(pk[k] - truth[f][k]).max())
                worst = max(worst, err / tol)
                if err > tol:
                    return f"frame {f} node {k}: reported {pk[k].tolist()} vs true {truth[f][k].tolist()} (error {err:.2f} px > tolerance {tol:.2f})", None
    # label assembly (make_labels=True) must agree with the raw dicts
    pred2 = I.single_predictor(3, scale, case["max_stride"], stride, 1.5, (mh, mw), case["refinement"], case["batch"], sk)
    labels = I.run_predictor(pred2, case["provider"], path, make_labels=True, twice=True)
    lab = {int(lf.frame_idx): lf.instances[0].numpy() for lf in labels}
    for f in range(3):
        if f not in lab or not np.allclose(lab[f], got[f][0], atol=1e-4, equal_nan=True):
            return f"make_labels=True gives {lab.get(f)} for frame {f} but the raw output is {got[f][0].tolist()}", None
    return None, {"worst_err_over_tol": round(worst, 3), "obs": [np.round(got[f][0], 3).tolist() for f in range(3)]}


def run_single_mixed(case, tmp):
    """Single-instance model on a label file over two videos of different frame sizes ((H,W) and (H/2,W/2)), size-matched
    to (H,W): consecutive frames of one batch have different eff_scale (1 and 2); each frame must come back in ITS OWN
    original coordinates."""
    H, W = case["hw"]
    scale, stride = case["scale"], case["stride"]
    sizes = [(H, W), (H // 2, W // 2), (H, W), (H // 2, W // 2)]
    sk = S.make_skeleton(3)
    frames, truth, tols = [], [], []
    for f, (h, w) in enumerate(sizes):
        eff = eff_scale_of(h, w, H, W)
        if not k4_free(h, w, H, W, [scale]):
            return "infeasible-k4", None
        r = max(3.0, 3.0 / (scale * eff))
        margin = (2.5 * stride / (scale * eff) + 1.0) if case["refinement"] == "integral" else 0.0
        if 2 * max(r + 4, margin) + 3 * r > min(h, w):
            return "infeasible", None
        pts = single_layout(h, w, r, (case["layout"] + f) % 2, margin)
        frames.append({"image": S.render(h, w, [pts], radius=r), "instances": [pts], "video": f % 2})
        truth.append(pts)
        tols.append((0.5 * stride + phase_allowance(scale * eff) + LOCATOR_SLACK) / (scale * eff) + 1e-3)
    slp = S.write_labels(tmp, frames, sk, name="sm", embed=True)
    pred = I.single_predictor(3, scale, case["max_stride"], stride, 1.5, (H, W), case["refinement"], case["batch"], sk)
    outs = I.run_predictor(pred, "LabelsReader", slp, make_labels=False)
    got = {}
    for o in outs:
        for vi, fi, pk, pv in zip(o["video_idx"], o["frame_idx"], o["pred_instance_peaks"], o["pred_peak_values"]):
            key = (int(vi), int(fi))
            if key in got:
                return f"(video, frame) {key} reported twice", None
            got[key] = (np.asarray(pk, dtype=np.float64), np.asarray(pv, dtype=np.float64))
    want = [(f % 2, f // 2) for f in range(4)]
    if sorted(got) != sorted(want):
        return f"(video, frame) pairs reported {sorted(got)} != {sorted(want)}", None
    worst = 0.0
    for f in range(4):
        pk, pv = got[want[f]]
        for k in range(3):
            if np.isnan(truth[f][k]).any():
                if not np.isnan(pk[k]).all() or pv[k] != 0:
                    return f"frame {f} node {k} is invisible but reported at {pk[k].tolist()} with value {pv[k]}", None
            else:
                if np.isnan(pk[k]).any():
                    return f"frame {f} ({sizes[f][0]}x{sizes[f][1]}) node {k} at {truth[f][k].tolist()} was not detected", None
                err = float(np.abs(pk[k] - truth[f][k]).max())
                worst = max(worst, err / tols[f])
                if err > tols[f]:
                    return f"frame {f} ({sizes[f][0]}x{sizes[f][1]}) node {k}: reported {pk[k].tolist()} vs true {truth[f][k].tolist()} (error {err:.2f} px > tolerance {tols[f]:.2f})", None
    return None, {"worst_err_over_tol": round(worst, 3), "obs": [np.round(got[want[f]][0], 3).tolist() for f in range(4)]}


# ---------------------------------------------------------------------------
# top-down


def topdown_scene(case):
    H0, W0 = case["hw"]
    mh0, mw0 = case["max_hw"]
    crop, isc, csc = case["crop"], case["i_scale"], case["c_scale"]
    n_an = case["animals"]
    eff0 = eff_scale_of(H0, W0, mh0, mw0)
    a = 0.30 * crop / (isc * eff0)  # arm length in original pixels
    need_w = (4.4 * a) if n_an == 1 else (4.4 * a + 6.0 * a)
    need_h = (4.4 * a) if n_an == 1 else (4.4 * a + 1.5 * a)
    k0 = int(math.ceil(max(1.0, need_w / W0, need_h / H0)))
    for k in range(k0, k0 + 4):  # integer growth keeps eff_scale; pick the first one whose resampled sizes are all integers
        H, W = H0 * k, W0 * k
        mh, mw = (None, None) if mh0 is None else (mh0 * k, mw0 * k)
        if k4_free(H, W, mh, mw, [csc, isc]):
            break
    else:
        return None
    eff = eff_scale_of(H, W, mh, mw)
    a = 0.30 * crop / (isc * eff)
    r = a / 3.8
    if r * isc * eff < 2.4 or r * csc * eff < 1.2 or r < 2.4:
        return None
    return H, W, mh, mw, eff, a, r


def animal_pts(cx, cy, a, variant, invisible=None):
    ang = [(0.35, 2.4), (1.1, 3.9)][variant % 2]
    pts = [(cx + 0.13 * a, cy - 0.09 * a), (cx + a * math.cos(ang[0]), cy + a * math.sin(ang[0])), (cx + a * math.cos(ang[1]), cy + a * math.sin(ang[1]))]
    out = np.array([[gp(x, 2 * i + variant), gp(y, 2 * i + 1 + variant)] for i, (x, y) in enumerate(pts)], dtype=np.float64)
    if invisible is not None:
        out[invisible] = np.nan
    return out


def run_topdown(case, tmp):
    sc = topdown_scene(case)
    if sc is None:
        return "infeasible", None
    H, W, mh, mw, eff, a, r = sc
    sk = S.make_skeleton(3)
    n_an = case["animals"]
    frames, truth = [], []
    for f in range(2):
        animals = [animal_pts(2.2 * a + f, 2.2 * a, a, f, invisible=(2 if (case["layout"] == 1 and f == 1) else None))]
        if n_an == 2 and f == 1:  # the animal count GROWS from frame 0 to frame 1 (a later batch holds more animals)
            animals.append(animal_pts(2.2 * a + 6.0 * a, 2.2 * a + 1.4 * a - f, a, f + 1, invisible=(1 if (case["layout"] == 1 and f == 0) else None)))
        frames.append({"image": S.render(H, W, animals, radius=r), "instances": animals})
        truth.append(animals)
    if case.get("empty"):  # a frame without any animal before / between the others (in the same batch when batch = 3)
        at = 0 if case["empty"] == "first" else 1
        frames.insert(at, {"image": S.render(H, W, [], radius=r), "instances": []})
        truth.insert(at, [])
    nf = len(frames)
    slp = S.write_labels(tmp, frames, sk, name="t", embed=True)
    path = slp if case["provider"] == "LabelsReader" else S.png_video_paths(tmp, "t")

    def mk():
        if case["model"] == "topdown-gt":
            # centred-instance model only: centroids come from the labelled instances (anchor node 0)
            return I.topdown_gt_predictor(3, 0, case["i_scale"], case["i_max_stride"], case["i_stride"], 1.5, case.get("crop_hw") or case["crop"], (mh, mw), case["refinement"], case["batch"], sk)
        p = I.topdown_predictor(
            3, 0, case["c_scale"], case["i_scale"], case["c_max_stride"], case["i_max_stride"], case["c_stride"], case["i_stride"], 1.5,
            case.get("crop_hw") or case["crop"], (mh, mw), case["refinement"], case["batch"], sk,
        )
        # the ideal centroid net clusters discs: give it the link distance in ITS input pixels
        p.inference_model.centroid_crop.torch_model.link = 2.6 * a * case["c_scale"] * eff
        return p

    outs = I.run_predictor(mk(), case["provider"], path, make_labels=False)
    tol = (0.5 * case["i_stride"] + phase_allowance(case["i_scale"] * eff) + LOCATOR_SLACK) / (case["i_scale"] * eff) + 1e-3
    got = {f: [] for f in range(nf)}
    for o in outs:
        for fi, pk, pv, bb in zip(o["frame_idx"], o["pred_instance_peaks"], o["pred_peak_values"], o["instance_bbox"]):
            pk = np.asarray(pk, dtype=np.float64) + np.asarray(bb, dtype=np.float64).reshape(-1, 2)[0]
            got.setdefault(int(fi), []).append((pk, np.asarray(pv, dtype=np.float64)))
    worst = 0.0
    if set(got) - set(range(nf)):
        return f"records for frames {sorted(set(got) - set(range(nf)))} which do not exist", None
    for f in range(nf):
        if len(got.get(f, [])) != len(truth[f]):
            return f"frame {f}: {len(got.get(f, []))} instances reported for {len(truth[f])} animals", None
        used = set()
        for t in truth[f]:
            anchor = t[0]
            j = min(range(len(got[f])), key=lambda j: np.nansum((got[f][j][0][0] - anchor) ** 2) if not np.isnan(got[f][j][0][0]).any() else 1e18)
            if j in used:
                return f"frame {f}: two animals map to the same predicted instance", None
            used.add(j)
            pk, pv = got[f][j]
            for kk in range(3):
                if np.isnan(t[kk]).any():
                    if not np.isnan(pk[kk]).all() or pv[kk] != 0:
                        return f"frame {f} node {kk} is invisible but reported at {pk[kk].tolist()} value {pv[kk]}", None
                else:
                    if np.isnan(pk[kk]).any():
                        return f"frame {f} node {kk} at {t[kk].tolist()} was not detected", None
                    err = float(np.abs(pk[kk] - t[kk]).max())
                    worst = max(worst, err / tol)
                    if err > tol:
                        return f"frame {f} node {kk}: reported {pk[kk].tolist()} vs true {t[kk].tolist()} (error {err:.2f} px > tolerance {tol:.2f})", None
    labels = I.run_predictor(mk(), case["provider"], path, make_labels=True, twice=True)
    for lf in labels:
        f = int(lf.frame_idx)
        mine = sorted([np.round(p, 3).tolist() for p, _ in got[f]], key=repr)
        theirs = sorted([np.round(inst.numpy(), 3).tolist() for inst in lf.instances], key=repr)
        if not np.allclose(np.array(mine, dtype=float), np.array(theirs, dtype=float), atol=2e-3, equal_nan=True):
            return f"make_labels=True gives {theirs} for frame {f} but raw output + bbox corner is {mine}", None
    return None, {"worst_err_over_tol": round(worst, 3), "obs": [[np.round(p, 2).tolist() for p, _ in got[f]] for f in range(nf)]}


# ---------------------------------------------------------------------------


def grid(tier):
    cases = []
    if tier == "quick":
        hws, maxs = [(64, 96), (60, 80)], [(None, None), (96, 160)]  # (96,160): eff_scale 1.5 resp. 1.6 + right padding
        scales, mstr, strides, refs, batches, layouts = [1.0, 0.5], [16], [2, 4], [None, "integral"], [1, 3], [0, 1]
    else:
        hws, maxs = [(64, 64), (64, 96), (60, 80)], [(None, None), (96, 96), (128, 96), (48, 80)]
        scales, mstr, strides, refs, batches, layouts = [1.0, 0.5, 0.75, 2.0], [8, 16], [1, 2, 4], [None, "integral"], [1, 3], [0, 1]
    for hw, mx, sc, ms, st, rf, b, prov, lay in itertools.product(hws, maxs, scales, mstr, strides, refs, batches, ["LabelsReader", "VideoReader"], layouts):
        cases.append({"model": "single", "hw": list(hw), "max_hw": list(mx), "scale": sc, "max_stride": ms, "stride": st, "refinement": rf, "batch": b, "provider": prov, "layout": lay})
    # label files over two videos of different frame sizes (batch-mates with different eff_scale)
    for sc, st, rf, b, lay in itertools.product([1.0, 0.5], [2, 4], [None, "integral"], [1, 3], [0, 1]):
        cases.append({"model": "single", "hw": [64, 96], "max_hw": [64, 96], "scale": sc, "max_stride": 16, "stride": st, "refinement": rf, "batch": b, "provider": "LabelsReader", "layout": lay, "mixed": True})
    if tier == "quick":
        hws, maxs = [(64, 96)], [(None, None), (96, 160)]  # (96,160): eff_scale 1.5 + right padding
        cs, iscs, spairs, crops, refs, batches = [1.0, 0.5], [1.0, 0.5], [(2, 2), (4, 2), (2, 4)], [32], [None, "integral"], [1, 3]
        animals, layouts = [2], [1]
    else:
        hws, maxs = [(64, 64), (64, 96), (60, 80)], [(None, None), (96, 96), (128, 96), (96, 160), (48, 80)]
        cs, iscs, spairs, crops, refs, batches = [1.0, 0.5], [1.0, 0.5, 0.75, 2.0], [(1, 1), (2, 2), (4, 2), (2, 4), (4, 4)], [32, 48], [None, "integral"], [1, 3]
        animals, layouts = [1, 2], [0, 1]
    for hw, mx, c, i, (cst, ist), cr, rf, b, prov, an, lay in itertools.product(hws, maxs, cs, iscs, spairs, crops, refs, batches, ["LabelsReader", "VideoReader"], animals, layouts):
        if tier == "quick" and mx[0] is not None:
            cr = 48  # up-scaling size matching shrinks the discs in the original frame: the larger crop keeps them renderable
        cases.append({
            "model": "topdown", "hw": list(hw), "max_hw": list(mx), "c_scale": c, "i_scale": i, "c_max_stride": 16, "i_max_stride": 16 if cr % 16 == 0 else 8,
            "c_stride": cst, "i_stride": ist, "crop": cr, "refinement": rf, "batch": b, "provider": prov, "animals": an, "layout": lay,
        })
    # non-square crops (height != width), landscape and portrait; "crop" stays the smaller side (it sizes the animals)
    extra = []
    for c in cases:
        if c["model"] == "topdown" and c["provider"] == "LabelsReader" and (tier != "quick" or (c["batch"] == 3 and c["c_scale"] == 1.0)):
            extra.append(dict(c, crop_hw=[c["crop"], c["crop"] + 16]))
            extra.append(dict(c, crop_hw=[c["crop"] + 16, c["crop"]]))
    cases += extra
    # a frame without animals first / in the middle of a 3-frame batch (VideoReader: plain frames)
    extra = []
    for c in cases:
        if c["model"] == "topdown" and c["batch"] == 3 and c["provider"] == "VideoReader" and (tier != "quick" or c["i_scale"] == 1.0):
            extra.append(dict(c, empty="first"))
            if tier != "quick":
                extra.append(dict(c, empty="middle"))
    cases += extra
    # top-down with ground-truth centroids (centred-instance model only; needs the labels => LabelsReader)
    if tier == "quick":
        hws, maxs, iscs, ists, crops, refs, batches, animals = [(64, 96)], [(None, None), (96, 160)], [1.0, 0.5], [2], [32], [None, "integral"], [3], [2]
    else:
        hws, maxs = [(64, 64), (64, 96), (60, 80)], [(None, None), (96, 96), (96, 160), (48, 80)]
        iscs, ists, crops, refs, batches, animals = [1.0, 0.5, 0.75, 2.0], [1, 2, 4], [32, 48], [None, "integral"], [1, 3], [1, 2]
    for hw, mx, i, ist, cr, rf, b, an in itertools.product(hws, maxs, iscs, ists, crops, refs, batches, animals):
        if tier == "quick" and mx[0] is not None:
            cr = 48
        cases.append({
            "model": "topdown-gt", "hw": list(hw), "max_hw": list(mx), "c_scale": 1.0, "i_scale": i, "c_max_stride": 16, "i_max_stride": 16 if cr % 16 == 0 else 8,
            "c_stride": 2, "i_stride": ist, "crop": cr, "refinement": rf, "batch": b, "provider": "LabelsReader", "animals": an, "layout": 0,
        })
    return cases


def execute(case):
    tmp = tempfile.mkdtemp(prefix="verif_c02_")
    try:
        if case["model"] == "single":
            return run_single_mixed(case, tmp) if case.get("mixed") else run_single(case, tmp)
        return run_topdown(case, tmp)
    finally:
        shutil.rmtree(tmp, ignore_errors=True)


def nontrivial(case):
    if case["model"] == "single":
        return case["scale"] != 1 or case["max_hw"][0] is not None or case["stride"] > 1 or case["refinement"] is not None
    return case["c_scale"] != 1 or case["i_scale"] != 1 or case["max_hw"][0] is not None or case["i_stride"] > 1 or case["refinement"] is not None


def work(part, shard):
    from loguru import logger

    logger.remove()
    results = {}
    for case in shard:
        key = core.digest(case)
        try:
            err, obs = execute(case)
        except Exception as e:
            import traceback

            err, obs = f"raised {type(e).__name__}: {e} :: {traceback.format_exc()[-500:]}", None
        if err in ("infeasible", "infeasible-k4"):
            part.add("skipped_infeasible" if err == "infeasible" else "skipped_k4_domain")
            continue
        part.count()
        part.transition()
        part.state(key)
        if nontrivial(case):
            part.nontriv(key)
        part.sample(case, nontrivial(case))
        if err:
            part.violation(case, err)
            continue
        part.outcome(repr(obs["obs"]))
        part.maxi("max_err_over_tol_x1000", int(obs["worst_err_over_tol"] * 1000))
        # provider agreement: compare with the twin configuration (same shard by construction)
        twin = dict(case)
        twin.pop("provider")
        tk = core.digest(twin)
        if tk in results:
            if not np.allclose(np.array(_flat(results[tk]), dtype=float), np.array(_flat(obs["obs"]), dtype=float), atol=1e-3, equal_nan=True):
                part.violation(case, f"LabelsReader and VideoReader disagree: {results[tk]} vs {obs['obs']}")
        else:
            results[tk] = obs["obs"]


def _flat(o):
    out = []

    def rec(x):
        if isinstance(x, (list, tuple)):
            for y in x:
                rec(y)
        else:
            out.append(float("nan") if x is None else float(x))

    rec(o)
    return out


def run(ctx):
    core.setup_torch()
    cases = grid(ctx.tier)
    ctx.bounds = {"configurations": len(cases), "tier_grid": ctx.tier}
    # keep provider twins adjacent and in the same shard
    twins = {}
    for c in cases:
        t = dict(c)
        t.pop("provider")
        twins.setdefault(core.digest(t), []).append(c)
    groups = core.rotate(list(twins.values()), ctx.seed)
    shards = [[c for g in groups[i::64] for c in g] for i in range(64)]
    core.pmap(ctx, work, [s for s in shards if s])


def replay(case):
    core.setup_torch()
    from loguru import logger

    logger.remove()
    err, obs = execute(case)
    return {"violates": bool(err) and not str(err).startswith("infeasible"), "error": err, "obs": obs}
