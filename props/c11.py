"""C11 — datasets never alter or invent labels; the same index gives the same sample.

Part (a), E1: purity of the functional helpers.  Every tensor / ndarray / label-object argument is snapshotted
(bytes of the whole underlying storage + NaN mask) before the call and compared afterwards; each call is made
twice and must return the same output (no hidden state).

Part (b), E2: for every synthetic label set x dataset class x anchor x np_chunks x user_instances_only, the
space of `__getitem__` call sequences of length <= D over all indices is explored.  The canonical state of a
dataset is the digest of every attribute it owns (cache tensors, chunk files, cursors, index lists).  One fresh
dataset is built per first index r; its first read is the reference for r ("the sample a fresh dataset returns
for r as its first read"); it then walks an arc of a de Bruijn cycle B(n, D).  After every call the state must
equal the initial state (so every window of D consecutive calls is an execution of that word from the initial
state, and the arcs together contain all n^D words) and the returned sample must be bitwise (NaN-aware) equal to
the reference.  Independent of the differential, every first read is compared with what the label *spec* says:
keypoints equal the labels, missing stays NaN with an all-zero confidence-map channel, nothing is invented,
len(ds) counts exactly the non-empty instances / frames, and the sio.Labels arrays are unchanged afterwards.
"""
from __future__ import annotations

import hashlib
import os
import shutil
import tempfile
import traceback

import numpy as np

from mc import core
from props import _c11_labels as LS

LEVEL = "model_checking"
RULE = (
    "part a: every enumerated (helper, input) call with all array arguments snapshotted before/after and the call "
    "repeated once; non-trivial when the keypoint input mixes missing and labelled nodes (fallback / NaN branches run), "
    "when an image op changes shape or dtype, or when an augmentation is applied with p=1.  part b: every __getitem__ call "
    "made while walking all index words of length D (de Bruijn arcs, one fresh dataset per first index) for each "
    "label set x class x anchor x np_chunks x user_instances_only x scale; a call is non-trivial when the label set "
    "contains a missing keypoint, an empty instance or a predicted instance and the dataset has >= 2 samples (so "
    "order can matter); distinct = distinct (configuration, D-window) resp. distinct (helper, input)"
)
ASSUMPTIONS = [
    "two-datasets-alive histories: after the index-word exploration a second dataset object of the same class is built from different labels (as the trainer does for the validation set) and read; every index of the first dataset must still return its own first-read sample (state shared between dataset objects)",
    "label sets: 2-3 frames x <= 2 user animals (+ <= 1 predicted) x 3 nodes, visibility patterns per instance from the "
    "full 3-bit alphabet (quick: a stated sub-grid, thorough: all pairs); 40x56 uint8 frames; every frame holds at least "
    "one user instance (a frame with only predicted instances is outside the alphabet)",
    "call sequences: all words over all valid indices (<= 4) up to length 3 (quick) / 4 (thorough); augmentation off; "
    "indices outside range(len) and next()/iter() are not in the alphabet",
    "state merging in the BFS relies on the canonical state covering every attribute the dataset object owns "
    "(cache, chunk files, cursors, index lists, configs); returned samples are not mutated by the caller",
    "sio.Labels: 'unchanged' is asserted for the point arrays (xy, visibility, numpy()) of every instance present "
    "before the dataset was built; the datasets' replacement of lf.instances by lf.user_instances "
    "(user_instances_only) is recorded as an observation, not as a violation",
    "helper purity is checked at the enumerated inputs only (2 animals x 3 nodes x all 64 node-level NaN patterns, "
    "three memory layouts; images 40x56 / 23x31); kornia's RNG is seeded per call",
    "process_lf is only called on frames with >= 1 non-empty instance (its callers guarantee that)",
]
MIN_OUTCOMES = 20

SKIP_ATTRS = ("labels", "transform_to_pil", "transform_pil_to_tensor")


# ---------------------------------------------------------------------------
# canonical digests


def _feed(h, o):
    import torch

    if isinstance(o, torch.Tensor):
        o = o.detach().cpu().numpy()
        h.update(b"T")
    if isinstance(o, np.ndarray):
        if o.dtype.kind == "f":
            o = np.where(np.isnan(o), np.nan, o)  # one canonical NaN
        if o.dtype.kind == "O":
            h.update(repr(o.tolist()).encode())
            return
        h.update(f"A{o.dtype.str}{o.shape}".encode())
        h.update(np.ascontiguousarray(o).tobytes())
        return
    if isinstance(o, np.generic):
        _feed(h, np.asarray(o))
        return
    if isinstance(o, dict):
        h.update(b"{")
        for k in sorted(o, key=str):
            h.update(str(k).encode() + b":")
            _feed(h, o[k])
        h.update(b"}")
        return
    if isinstance(o, (list, tuple)):
        h.update(b"[")
        for v in o:
            _feed(h, v)
            h.update(b",")
        h.update(b"]")
        return
    if isinstance(o, float) and o != o:
        h.update(b"nan")
        return
    if isinstance(o, (int, float, str, bool, bytes)) or o is None:
        h.update(repr(o).encode())
        return
    try:
        from omegaconf import DictConfig, ListConfig, OmegaConf

        if isinstance(o, (DictConfig, ListConfig)):
            _feed(h, OmegaConf.to_container(o))
            return
    except Exception:
        pass
    if hasattr(o, "__fspath__"):
        h.update(os.fspath(o).encode())
        return
    if hasattr(o, "size") and hasattr(o, "tobytes") and hasattr(o, "mode"):  # PIL image
        h.update(f"PIL{o.mode}{o.size}".encode())
        h.update(o.tobytes())
        return
    h.update(f"<{type(o).__name__}>".encode())


def dg(o):
    h = hashlib.sha1()
    _feed(h, o)
    return h.hexdigest()[:16]


def ds_state(ds, decode=False):
    """Canonical state of a dataset: everything it owns except the labels object (checked separately), as
    (digest of the sample cache incl. chunk files, digest of all other attributes).

    decode=False hashes chunk files as raw bytes (cheap; used before/after every call on one dataset);
    decode=True hashes their decoded arrays (zip members carry a timestamp, so raw bytes differ between two
    datasets built a second apart) and is used to compare the initial states of different datasets."""
    hc, hr = hashlib.sha1(), hashlib.sha1()
    d = ds.__dict__
    for k in sorted(d):
        if k in SKIP_ATTRS or k.startswith("_"):
            continue
        v = d[k]
        if k == "cache":
            h = hc
            for idx in sorted(v):
                h.update(repr(idx).encode())
                e = v[idx]
                if isinstance(e, str):  # np_chunks: the state lives in the file
                    h.update(os.path.basename(e).encode())
                    if decode:
                        with np.load(e) as z:
                            _feed(h, {name: z[name] for name in z.files})
                    else:
                        with open(e, "rb") as f:
                            h.update(f.read())
                else:
                    _feed(h, e)
        elif k == "np_chunks_path":
            p = str(v)
            if d.get("np_chunks") and os.path.isdir(p):
                hc.update(repr(sorted(os.listdir(p))).encode())
        else:
            hr.update(k.encode() + b"=")
            _feed(hr, v)
    return hc.hexdigest()[:16], hr.hexdigest()[:16]


def snap_labels(labels):
    """[(frame, slot, type, instance object, digest of its arrays)] for every instance present now."""
    out = []
    for fi, lf in enumerate(labels.labeled_frames):
        for j, inst in enumerate(lf.instances):
            out.append((fi, j, type(inst).__name__, inst, _inst_digest(inst)))
    return out, [len(lf.instances) for lf in labels.labeled_frames], [int(lf.frame_idx) for lf in labels.labeled_frames]


def _inst_digest(inst):
    pts = inst.points
    parts = [np.asarray(pts["xy"]), np.asarray(pts["visible"]), np.asarray(inst.numpy())]
    if "score" in (pts.dtype.names or ()):
        parts.append(np.asarray(pts["score"]))
    return dg(parts)


def labels_diff(snap, labels):
    insts, counts, fidx = snap
    for fi, j, tname, inst, d in insts:
        now = _inst_digest(inst)
        if now != d:
            return f"label arrays changed: frame {fi} instance {j} ({tname}) now {np.asarray(inst.numpy()).tolist()}"
    if [int(lf.frame_idx) for lf in labels.labeled_frames] != fidx:
        return "frame indices of the labels changed"
    return None


# ---------------------------------------------------------------------------
# part (b): datasets


def make_dataset(path, cfg, chunk_dir):
    """Fresh sio.Labels from the file + a fresh dataset built the way tests/data/test_custom_datasets.py does."""
    import sleap_io as sio
    from omegaconf import DictConfig, OmegaConf
    from sleap_nn.data import custom_datasets as cd

    labels = sio.load_slp(path)
    snap = snap_labels(labels)
    data_config = OmegaConf.create(
        {
            "user_instances_only": bool(cfg["uio"]),
            "preprocessing": {"max_height": None, "max_width": None, "scale": cfg["scale"], "is_rgb": False},
            "use_augmentations_train": False,
        }
    )
    head = DictConfig({"sigma": LS.SIGMA, "output_stride": LS.STRIDE, "anchor_part": cfg["anchor"]})
    kw = dict(
        labels=labels,
        data_config=data_config,
        max_stride=LS.MAX_STRIDE,
        scale=cfg["scale"],
        apply_aug=False,
        np_chunks=bool(cfg["np_chunks"]),
        np_chunks_path=chunk_dir,
    )
    cls = cfg["cls"]
    if cls == "BottomUp":
        ds = cd.BottomUpDataset(confmap_head_config=head, pafs_head_config=DictConfig({"sigma": LS.PAF_SIGMA, "output_stride": LS.PAF_STRIDE}), **kw)
    elif cls == "CenteredInstance":
        ds = cd.CenteredInstanceDataset(confmap_head_config=head, crop_hw=(LS.CROP, LS.CROP), **kw)
    elif cls == "Centroid":
        ds = cd.CentroidDataset(confmap_head_config=head, **kw)
    elif cls == "SingleInstance":
        ds = cd.SingleInstanceDataset(confmap_head_config=head, **kw)
    else:
        raise ValueError(cls)
    return ds, labels, snap


def _np(t):
    import torch

    if isinstance(t, torch.Tensor):
        return t.detach().cpu().numpy()
    return np.asarray(t)


def _nan_rows(a):
    return np.isnan(a).any(axis=-1)


def check_sample(sample, exp, cfg):
    """What the property says about one sample, stated from the label spec.  Returns a list of error strings."""
    errs = []
    cls, scale, anchor = cfg["cls"], float(cfg["scale"]), cfg["anchor"]
    pts = [np.asarray(p, dtype=np.float64) for p in exp["points"]]
    m = len(pts)
    for k, v in sample.items():
        a = _np(v)
        if a.dtype.kind == "f" and k in ("confidence_maps", "part_affinity_fields", "centroids_confidence_maps", "image", "instance_image"):
            if not np.isfinite(a).all():
                errs.append(f"{k} contains non-finite values")
    if int(_np(sample["frame_idx"])) != exp["frame"]:
        errs.append(f"frame_idx {int(_np(sample['frame_idx']))} != labelled frame {exp['frame']}")
    if _np(sample["orig_size"]).tolist() != [float(LS.H), float(LS.W)]:
        errs.append(f"orig_size {_np(sample['orig_size']).tolist()}")

    def bump(ch):  # a labelled in-image keypoint leaves a clear peak
        return float(ch.max()) > 0.5

    if cls in ("BottomUp", "Centroid", "SingleInstance"):
        inst = _np(sample["instances"])
        if inst.ndim != 4 or inst.shape[0] != 1 or inst.shape[2:] != (LS.K, 2) or inst.shape[1] < m:
            return errs + [f"instances shape {inst.shape} cannot hold {m} labelled instances"]
        if int(_np(sample["num_instances"])) != m:
            errs.append(f"num_instances {int(_np(sample['num_instances']))} != {m} non-empty labelled instances")
        want = np.full(inst.shape[1:], np.nan, dtype=np.float32)
        for j, p in enumerate(pts):
            want[j] = (p.astype(np.float32) * np.float32(scale)).astype(np.float32)
        got = inst[0]
        if not np.array_equal(np.isnan(got), np.isnan(want)):
            errs.append(f"NaN pattern of sample keypoints differs from the labels: got {got.tolist()} want {want.tolist()}")
        elif not np.array_equal(np.nan_to_num(got, nan=-1.0), np.nan_to_num(want, nan=-1.0)):
            errs.append(f"sample keypoints differ from the labels: got {got.tolist()} want {want.tolist()}")
        M = inst.shape[1]
        vis = np.zeros((M, LS.K), dtype=bool)
        for j, p in enumerate(pts):
            vis[j] = ~_nan_rows(p)
        if cls == "SingleInstance":
            cm = _np(sample["confidence_maps"])
            if cm.shape[:2] != (1, M * LS.K):
                errs.append(f"confidence_maps shape {cm.shape}")
            else:
                for j in range(M):
                    for k in range(LS.K):
                        ch = cm[0, j * LS.K + k]
                        if not vis[j, k] and np.any(ch != 0):
                            errs.append(f"confidence map channel {j * LS.K + k} is not all-zero although instance {j} node {k} is missing")
                        if vis[j, k] and not bump(ch):
                            errs.append(f"confidence map channel {j * LS.K + k} has no peak although instance {j} node {k} is labelled")
        if cls == "BottomUp":
            cm = _np(sample["confidence_maps"])
            if cm.shape[:2] != (1, LS.K):
                errs.append(f"confidence_maps shape {cm.shape}")
            else:
                for k in range(LS.K):
                    anyvis = bool(vis[:, k].any())
                    if not anyvis and np.any(cm[0, k] != 0):
                        errs.append(f"confidence map channel {k} is not all-zero although node {k} is missing in every instance")
                    if anyvis and not bump(cm[0, k]):
                        errs.append(f"confidence map channel {k} has no peak although node {k} is labelled")
            paf = _np(sample["part_affinity_fields"])
            if paf.shape[0] != 2 * len(LS.EDGES):
                errs.append(f"part_affinity_fields shape {paf.shape}")
            else:
                for e, (a, b) in enumerate(LS.EDGES):
                    both = bool((vis[:, a] & vis[:, b]).any())
                    ch = paf[2 * e : 2 * e + 2]
                    if not both and np.any(ch != 0):
                        errs.append(f"PAF of edge {e} is not all-zero although no instance has both of its nodes")
                    if both and not float(np.abs(ch).max()) > 0.3:
                        errs.append(f"PAF of edge {e} is empty although an instance has both of its nodes")
        if cls == "Centroid":
            cen = _np(sample["centroids"])
            if cen.shape != (1, M, 2):
                errs.append(f"centroids shape {cen.shape}")
            else:
                wantc = np.full((M, 2), np.nan)
                for j, p in enumerate(pts):
                    wantc[j] = LS.centroid_ref(p, anchor) * scale
                if not np.array_equal(np.isnan(cen[0]), np.isnan(wantc)):
                    errs.append(f"centroids NaN pattern: got {cen[0].tolist()} want {wantc.tolist()}")
                elif not np.allclose(np.nan_to_num(cen[0]), np.nan_to_num(wantc), rtol=0, atol=1e-4):
                    errs.append(f"centroids: got {cen[0].tolist()} want {wantc.tolist()} (anchor if labelled, else bbox midpoint)")
            cm = _np(sample["centroids_confidence_maps"])
            if cm.shape[:2] != (1, 1) or not bump(cm[0, 0]):
                errs.append("centroid confidence map has no peak")
        # the frame shown is the labelled frame: node k's disc is under every labelled keypoint
        if scale == 1.0:
            img = _np(sample["image"])[0, 0]
            from props._scenes import node_intensity

            for j, p in enumerate(pts):
                for k in range(LS.K):
                    if vis[j, k]:
                        x, y = int(round(p[k, 0])), int(round(p[k, 1]))
                        if abs(float(img[y, x]) - node_intensity(k)) > 0.03:
                            errs.append(f"image at labelled keypoint ({j},{k}) has intensity {float(img[y, x]):.3f}, the frame shows {node_intensity(k):.3f} there")
    else:  # CenteredInstance
        p = pts[0]
        inst = _np(sample["instance"])
        cen = _np(sample["centroid"])
        if inst.shape != (1, LS.K, 2) or cen.shape != (1, 2):
            return errs + [f"instance shape {inst.shape} / centroid shape {cen.shape}"]
        vis = ~_nan_rows(p)
        if not np.array_equal(~_nan_rows(inst[0]), vis) or not np.array_equal(np.isnan(inst[0]).any(axis=-1), np.isnan(inst[0]).all(axis=-1)):
            errs.append(f"NaN pattern of the sample instance {inst[0].tolist()} differs from the labels {p.tolist()}")
        c_ref = LS.centroid_ref(p, anchor) * scale
        if np.isnan(cen).any():
            errs.append("centroid is NaN for a non-empty instance")
        else:
            rel_got = inst[0] - cen[0]
            rel_want = p * scale - c_ref
            if not np.allclose(np.nan_to_num(rel_got), np.nan_to_num(rel_want), rtol=0, atol=2e-3):
                errs.append(f"instance relative to its centroid: got {rel_got.tolist()} want {rel_want.tolist()} (labels {p.tolist()}, anchor {anchor})")
            half = np.array([LS.CROP / 2.0, LS.CROP / 2.0])
            if not np.allclose(cen[0], half - 0.5, atol=1e-3):
                errs.append(f"centroid {cen[0].tolist()} is not at the crop centre")
        cm = _np(sample["confidence_maps"])
        if cm.shape[:2] != (1, LS.K):
            errs.append(f"confidence_maps shape {cm.shape}")
        else:
            for k in range(LS.K):
                if not vis[k] and np.any(cm[0, k] != 0):
                    errs.append(f"confidence map channel {k} is not all-zero although node {k} is missing in the labels")
                if vis[k] and not np.isnan(inst[0, k]).any():
                    inside = bool((inst[0, k] > 1).all() and (inst[0, k] < LS.CROP - 2).all())
                    if inside and not bump(cm[0, k]):
                        errs.append(f"confidence map channel {k} has no peak although node {k} is labelled and inside the crop")
        if scale == 1.0 and not np.isnan(inst).all():
            img = _np(sample["instance_image"])[0, 0]
            from props._scenes import node_intensity

            for k in range(LS.K):
                if vis[k] and not np.isnan(inst[0, k]).any():
                    x, y = int(round(float(inst[0, k, 0]))), int(round(float(inst[0, k, 1])))
                    if 1 <= x < img.shape[1] - 1 and 1 <= y < img.shape[0] - 1:
                        if abs(float(img[y, x]) - node_intensity(k)) > 0.03:
                            errs.append(f"crop at keypoint {k} has intensity {float(img[y, x]):.3f}, the labelled animal shows {node_intensity(k):.3f} there")
    return errs


def sample_diff(a, b):
    """Bitwise, NaN-aware comparison of two sample dicts; None if equal."""
    if sorted(a) != sorted(b):
        return f"keys differ: {sorted(a)} vs {sorted(b)}"
    for k in sorted(a):
        if dg(a[k]) != dg(b[k]):
            x, y = _np(a[k]), _np(b[k])
            if x.shape != y.shape:
                return f"'{k}' shape {x.shape} vs {y.shape}"
            if x.dtype.kind == "f":
                nanpat = np.array_equal(np.isnan(x), np.isnan(y))
                d = float(np.nanmax(np.abs(np.nan_to_num(x.astype(np.float64)) - np.nan_to_num(y.astype(np.float64))))) if x.size else 0.0
                return f"'{k}' differs (same NaN pattern: {nanpat}, max abs difference {d:.6g})"
            return f"'{k}' differs: {x.tolist()} vs {y.tolist()}"
    return None


def is_nontrivial_spec(spec):
    pats = [p for fr in spec["frames"] for _, p in fr.get("user", []) + fr.get("pred", [])]
    return any(p != 7 for p in pats) or any(fr.get("pred") for fr in spec["frames"])


def viol(part, case, msg):
    part.add(f"violating_cases_part_{case.get('part', '?')}")
    part.violation(case, msg)


def explore_config(part, path, spec, cfg, D, rot, tmp, other_path=None):
    """All call sequences of length <= D for one configuration."""
    key = f"{spec['id']}|{cfg['cls']}|{cfg['anchor']}|{int(cfg['np_chunks'])}|{int(cfg['uio'])}|{cfg['scale']}"
    base = {"part": "b", "spec": spec, "cfg": cfg}
    exp = LS.expected(spec, cfg["cls"], cfg["uio"])
    n = len(exp)
    part.add("b_configurations")
    if n == 0:
        part.add("b_configurations_without_samples")
        return
    nt_cfg = is_nontrivial_spec(spec) and n >= 2
    arcs = LS.arcs(n, D, rot)
    dsets, refs, ref_dg, init0 = {}, {}, {}, None
    states = set()
    # pass 1: one fresh dataset per first index; its first read is the reference for that index
    for r in sorted(arcs):
        case = dict(base, history=[r])
        try:
            ds, labels, snap = make_dataset(path, cfg, tempfile.mkdtemp(dir=tmp))
            s0 = ds_state(ds)
            init = ds_state(ds, decode=True) if cfg["np_chunks"] else s0
            ln = len(ds)
        except Exception as e:
            part.count()
            viol(part, dict(base, history=[]), f"building the dataset raised {type(e).__name__}: {e}")
            return
        if ln != n:
            part.count()
            viol(part, dict(base, history=[]), f"len(dataset) = {ln}, the labels hold {n} non-empty {'instances' if cfg['cls'] == 'CenteredInstance' else 'frames with an instance'}")
            return
        if init0 is None:
            init0 = init
        elif init != init0:
            viol(part, dict(base, history=[]), "two datasets built from the same file start in different states")
        states.add("init")
        part.count()
        part.transition()
        try:
            smp = ds[r]
        except Exception as e:
            viol(part, case, f"__getitem__({r}) raised {type(e).__name__}: {e}")
            return
        st = ds_state(ds)
        states.add("init" if st[0] == s0[0] else st[0])
        if st[0] != s0[0]:
            viol(part, case, f"__getitem__({r}) changed the dataset's sample cache (cached tensors / chunk files)")
        elif st[1] != s0[1]:
            part.add("b_calls_changing_noncache_attributes")
        errs = check_sample(smp, exp[r], cfg)
        if errs:
            viol(part, case, "; ".join(errs[:4]))
        dsets[r], refs[r], ref_dg[r] = (ds, labels, snap, s0), smp, dg(smp)
        part.outcome(ref_dg[r])
    # pass 2: walk the arcs
    for r in sorted(arcs):
        ds, labels, snap, s0 = dsets[r]
        seq = arcs[r]
        for t in range(1, len(seq)):
            i = seq[t]
            case = dict(base, history=seq[: t + 1])
            part.count()
            part.transition()
            try:
                smp = ds[i]
            except Exception as e:
                viol(part, case, f"__getitem__({i}) raised {type(e).__name__} after history {seq[:t]}: {e}")
                break
            st = ds_state(ds)
            states.add("init" if st[0] == s0[0] else st[0])
            if st[0] != s0[0]:
                viol(part, case, f"__getitem__({i}) after history {seq[:t]} changed the dataset's sample cache (cached tensors / chunk files)")
            elif st[1] != s0[1]:
                part.add("b_calls_changing_noncache_attributes")
            if dg(smp) != ref_dg[i]:
                viol(part, case, f"sample {i} after history {seq[:t]} differs from a fresh dataset's first read of {i}: {sample_diff(smp, refs[i])}")
            if t >= D - 1:
                w = tuple(seq[t - D + 1 : t + 1])
                part.state(f"{key}|{w}")
                if nt_cfg:
                    part.nontriv(f"{key}|{w}")
        d = labels_diff(snap, labels)
        if d:
            viol(part, dict(base, history=seq), f"after the call sequence {seq}: {d}")
        if [len(lf.instances) for lf in labels.labeled_frames] != snap[1]:
            part.add("b_datasets_that_replaced_lf_instances_by_user_instances")
        try:
            if len(ds) != n:
                viol(part, dict(base, history=seq), f"len(dataset) became {len(ds)} after {seq}")
        except Exception as e:
            viol(part, dict(base, history=seq), f"len raised {type(e).__name__}: {e}")
    # pass 3: a SECOND dataset object of the same class is built from different labels (as the trainer does for the
    # validation set) while the first ones are alive; every index of the first datasets is then read again
    if other_path is not None:
        try:
            other = make_dataset(other_path, cfg, tempfile.mkdtemp(dir=tmp))
            n_other = len(other[0])
            for j in range(n_other):
                other[0][j]
        except Exception as e:
            other, n_other = None, 0
            part.add("b_companion_dataset_not_buildable")
        if other is not None:
            part.add("b_companion_datasets_built")
            for r in sorted(arcs):
                ds = dsets[r][0]
                for i in range(n):
                    case = dict(base, history=[r, "construct+read(companion dataset)", i])
                    part.count()
                    part.transition()
                    try:
                        smp = ds[i]
                    except Exception as e:
                        viol(part, case, f"__getitem__({i}) raised {type(e).__name__} after a second dataset was built: {e}")
                        break
                    if dg(smp) != ref_dg[i]:
                        viol(part, case, f"sample {i} differs from this dataset's own first read after ANOTHER dataset object was built and read: {sample_diff(smp, refs[i])}")
                break  # one of the first datasets suffices (they are equivalent by pass 1/2)
            try:
                for v in other[1].videos:
                    v.close()
            except Exception:
                pass
    part.maxi("max_distinct_states_per_configuration", len(states))
    part.add("b_words_of_length_D", n**D)
    part.sample(dict(base, history=arcs[min(arcs)]), nt_cfg)
    for ds, labels, _, _ in dsets.values():
        try:
            for v in labels.videos:
                v.close()
        except Exception:
            pass


# ---------------------------------------------------------------------------
# part (a): helpers


def pat_points(pat, shape, place="in"):
    """2 animals x 3 nodes (A, B of the label alphabet), bit (3*j+k) of pat set = node k of animal j labelled."""
    pts = np.stack([LS.points("A", pat & 7), LS.points("B", pat >> 3 & 7)]).astype(np.float32)  # (2,3,2)
    if place == "out":  # animal B wholly outside the 40x56 frame
        pts[1, :, 0] += 60.0
    elif place == "edge":  # animal B on the left border strip (every labelled node at x = 0)
        pts[1, :, 0] = np.where(np.isnan(pts[1, :, 0]), np.nan, 0.0)
    if shape == "b4":
        return pts[None]
    if shape == "b3":
        return pts
    if shape == "one":
        return pts[:1]  # (1,3,2)
    if shape == "inst":
        return pts[0]  # (3,2)
    if shape == "cen":
        return pts[None, :, 0, :]  # (1,2,2): node 0 of each animal as a centroid
    if shape == "cen2":
        return pts[:, 0, :]  # (2,2)
    raise ValueError(shape)


def lay(arr, layout):
    """Tensor with the values of arr in one of three memory layouts; returns (tensor, owner of the storage)."""
    import torch

    arr = np.ascontiguousarray(arr)
    if layout == "own":
        t = torch.from_numpy(arr.copy())
        return t, t
    if layout == "sub":  # contiguous view into a larger tensor: writes next to it are seen in the owner
        base = torch.full((3,) + arr.shape, 7.0 if arr.dtype.kind == "f" else 7, dtype=torch.from_numpy(arr).dtype)
        base[1] = torch.from_numpy(arr)
        return base[1], base
    if layout == "strided":  # non-contiguous view (last axis interleaved with sentinels)
        base = torch.full(arr.shape[:-1] + (arr.shape[-1] * 2,), 7.0, dtype=torch.from_numpy(arr).dtype)
        base[..., ::2] = torch.from_numpy(arr)
        return base[..., ::2], base
    raise ValueError(layout)


def test_image(kind):
    from props import _scenes as S

    if kind == "u8":
        a = S.render(LS.H, LS.W, [LS.points("A", 7), LS.points("B", 5)])  # (H,W,1) uint8
        return np.ascontiguousarray(a.transpose(2, 0, 1)[None])
    if kind == "f32":
        return test_image("u8").astype(np.float32) / 255.0
    if kind == "rgb":
        return np.repeat(test_image("f32"), 3, axis=1)
    if kind == "odd":  # 23 x 31: neither a multiple of the strides nor evenly scalable
        return np.ascontiguousarray(test_image("f32")[..., 5:28, 3:34])
    if kind == "odd_u8":
        return np.ascontiguousarray(test_image("u8")[..., 5:28, 3:34])
    raise ValueError(kind)


def a_specs(tier):
    out = []
    P64 = range(64)
    for pat in P64:
        for layout in ("own", "sub", "strided"):
            for shape in ("b4", "b3"):
                for anchor in (None, 0, 1, 2):
                    out.append({"fn": "generate_centroids", "pat": pat, "shape": shape, "layout": layout, "anchor": anchor})
                out.append({"fn": "find_points_bbox_midpoint", "pat": pat, "shape": shape, "layout": layout})
            for box in ((16, 16), (17, 23)):
                out.append({"fn": "make_centered_bboxes", "pat": pat, "shape": "cen2", "layout": layout, "box": box})
    for pat in range(8):
        for layout in ("own", "sub"):
            for crop in ((16, 16), (17, 23), (45, 45)):
                for cen in ("anchor", "mid"):
                    out.append({"fn": "generate_crops", "pat": pat, "layout": layout, "crop": crop, "cen": cen, "img": "f32"})
    for img in ("f32", "rgb", "odd", "u8"):
        for layout in ("own", "sub"):
            for mhw in ((None, None), (40, 56), (48, 64), (80, 112), (60, 56), (23, 31), (None, 70)):
                out.append({"fn": "apply_sizematcher", "img": img, "layout": layout, "mhw": mhw})
            for stride in (1, 8, 16, 32):
                out.append({"fn": "apply_pad_to_stride", "img": img, "layout": layout, "stride": stride})
            for scale in (1.0, 0.5, 2.0, 0.25):
                for pat in (63, 0b101011, 0):
                    out.append({"fn": "apply_resizer", "img": img, "layout": layout, "scale": scale, "pat": pat})
    for img in ("u8", "f32", "rgb", "odd_u8"):
        for layout in ("own", "sub"):
            for fn in ("apply_normalization", "convert_to_grayscale", "convert_to_rgb"):
                out.append({"fn": fn, "img": img, "layout": layout})
    for layout in ("own", "sub"):
        for stride in (2, 4):
            for pat in range(8):
                out.append({"fn": "generate_confmaps", "pat": pat, "shape": "one", "layout": layout, "stride": stride})
            for pat in P64:
                out.append({"fn": "generate_confmaps", "pat": pat, "shape": "b4", "layout": layout, "stride": stride})
                for ni in (1, 2):
                    out.append({"fn": "generate_multiconfmaps", "pat": pat, "shape": "b4", "layout": layout, "stride": stride, "ni": ni, "cen": False})
                for flat in (True, False):
                    out.append({"fn": "generate_pafs", "pat": pat, "shape": "b4", "layout": layout, "stride": stride, "flat": flat})
            for pat in (0b001001, 0b001000, 0b000001, 0):
                for ni in (1, 2):
                    out.append({"fn": "generate_multiconfmaps", "pat": pat, "shape": "cen", "layout": layout, "stride": stride, "ni": ni, "cen": True})
    # animal B wholly outside the frame / on the border strip (annotations just out of frame are ordinary data)
    placed = []
    for sp in out:
        if sp.get("shape") in ("b4", "b3", "cen", "cen2") and "pat" in sp and sp.get("layout") == "sub" and sp["pat"] in (63, 0b111101, 0b111000, 0b001001, 0b001000):
            for place in ("out", "edge"):
                placed.append(dict(sp, place=place))
    out += placed
    augs = ["uniform_noise", "gaussian_noise", "contrast", "brightness", "affine", "erase", "mixup", "none"]
    for aug in augs:
        for p in (0.0, 1.0):
            if aug == "none" and p == 1.0:
                continue
            for shape, pats in (("b4", (63, 0b010111, 0)), ("one", (7, 5, 0))):
                for pat in pats:
                    for layout in ("own", "sub"):
                        out.append({"fn": "augment", "aug": aug, "p": p, "shape": shape, "pat": pat, "layout": layout, "img": "f32"})
    return out


A_LABEL_SPECS = [
    {"id": "AL0", "frames": [{"user": [["A", 5], ["B", 0]], "pred": [["P", 6]]}, {"user": [["C", 3]]}]},
    {"id": "AL1", "frames": [{"user": [["A", 0], ["B", 7]]}, {"user": [["C", 0]], "pred": [["P", 7]]}]},
    {"id": "AL2", "frames": [{"user": [["A", 7]]}, {"user": [["C", 2]]}, {"user": [["B", 1]]}]},
]


def a_label_specs(tier):
    out = []
    for li in range(len(A_LABEL_SPECS)):
        spec = A_LABEL_SPECS[li]
        for fi, fr in enumerate(spec["frames"]):
            for uio in (True, False):
                if not any(p for _, p in LS.frame_instances(fr, uio)):
                    continue
                for mi in (1, 2, 3):
                    if mi < sum(1 for _, p in LS.frame_instances(fr, uio) if p):
                        continue
                    out.append({"fn": "process_lf", "labels": li, "frame": fi, "uio": uio, "max_instances": mi})
        for scaling in (1.0, 0.5, 2.0):
            for pad in (0, 8):
                for mcs in (None, 10, 16):
                    for ms in (2, 16):
                        out.append({"fn": "find_instance_crop_size", "labels": li, "scaling": scaling, "padding": pad, "min_crop_size": mcs, "max_stride": ms})
    return out


def snap_arg(o):
    """Snapshot of one argument: digest over the whole storage owner for tensors / arrays."""
    import torch

    if isinstance(o, torch.Tensor):
        owner = o._base if o._base is not None else o
        return ("T", dg(owner), dg(o), tuple(o.shape), tuple(o.stride()), str(o.dtype))
    if isinstance(o, np.ndarray):
        owner = o
        while isinstance(owner.base, np.ndarray):
            owner = owner.base
        return ("A", dg(owner), dg(o), o.shape, o.strides, str(o.dtype))
    return ("V", repr(o))


def build_a(spec, label_paths=None):
    """Returns (callable, args, kwargs, watched) where watched = {name: object to snapshot}."""
    import torch

    fn = spec["fn"]
    if fn in ("process_lf", "find_instance_crop_size"):
        import sleap_io as sio

        labels = sio.load_slp(label_paths[spec["labels"]])
        if fn == "process_lf":
            from sleap_nn.data.providers import process_lf

            lf = labels.labeled_frames[spec["frame"]]
            return process_lf, (lf,), {"video_idx": 0, "max_instances": spec["max_instances"], "user_instances_only": spec["uio"]}, {"labels": labels}
        from sleap_nn.data.instance_cropping import find_instance_crop_size

        return (
            find_instance_crop_size,
            (labels,),
            {"padding": spec["padding"], "maximum_stride": spec["max_stride"], "input_scaling": spec["scaling"], "min_crop_size": spec["min_crop_size"]},
            {"labels": labels},
        )
    w = {}
    if fn in ("generate_centroids", "find_points_bbox_midpoint"):
        from sleap_nn.data import instance_centroids as ic

        t, owner = lay(pat_points(spec["pat"], spec["shape"], spec.get("place", "in")), spec["layout"])
        w["points"] = t
        if fn == "generate_centroids":
            return ic.generate_centroids, (t,), {"anchor_ind": spec["anchor"]}, w
        return ic.find_points_bbox_midpoint, (t,), {}, w
    if fn == "make_centered_bboxes":
        from sleap_nn.data.instance_cropping import make_centered_bboxes

        t, owner = lay(pat_points(spec["pat"], spec["shape"], spec.get("place", "in")), spec["layout"])
        w["centroids"] = t
        return make_centered_bboxes, (t, spec["box"][0], spec["box"][1]), {}, w
    if fn == "generate_crops":
        from sleap_nn.data.instance_cropping import generate_crops

        img, _ = lay(test_image(spec["img"]), spec["layout"])
        p = LS.points("A", spec["pat"])
        inst, _ = lay(p.astype(np.float32), spec["layout"])
        c = LS.centroid_ref(LS.points("A", 7), 1 if spec["cen"] == "anchor" else None)
        cen, _ = lay(c.astype(np.float32), spec["layout"])
        w.update(image=img, instance=inst, centroid=cen)
        return generate_crops, (img, inst, cen, tuple(spec["crop"])), {}, w
    if fn in ("apply_sizematcher", "apply_pad_to_stride", "apply_resizer"):
        from sleap_nn.data import resizing as rz

        img, _ = lay(test_image(spec["img"]), spec["layout"])
        w["image"] = img
        if fn == "apply_sizematcher":
            return rz.apply_sizematcher, (img,), {"max_height": spec["mhw"][0], "max_width": spec["mhw"][1]}, w
        if fn == "apply_pad_to_stride":
            return rz.apply_pad_to_stride, (img,), {"max_stride": spec["stride"]}, w
        inst, _ = lay(pat_points(spec["pat"], "b4", spec.get("place", "in")), spec["layout"])
        w["instances"] = inst
        return rz.apply_resizer, (img, inst), {"scale": spec["scale"]}, w
    if fn in ("apply_normalization", "convert_to_grayscale", "convert_to_rgb"):
        from sleap_nn.data import normalization as nz

        img, _ = lay(test_image(spec["img"]), spec["layout"])
        w["image"] = img
        return getattr(nz, fn), (img,), {}, w
    if fn in ("generate_confmaps", "generate_multiconfmaps", "generate_pafs"):
        t, _ = lay(pat_points(spec["pat"], spec["shape"], spec.get("place", "in")), spec["layout"])
        w["instances"] = t
        hw = (LS.H + 8, LS.W + 8)
        if fn == "generate_confmaps":
            from sleap_nn.data.confidence_maps import generate_confmaps

            return generate_confmaps, (t,), {"img_hw": hw, "sigma": LS.SIGMA, "output_stride": spec["stride"]}, w
        if fn == "generate_multiconfmaps":
            from sleap_nn.data.confidence_maps import generate_multiconfmaps

            return generate_multiconfmaps, (t,), {"img_hw": hw, "num_instances": spec["ni"], "sigma": LS.SIGMA, "output_stride": spec["stride"], "is_centroids": spec["cen"]}, w
        from sleap_nn.data.edge_maps import generate_pafs

        ei = torch.Tensor(LS.EDGES)
        w["edge_inds"] = ei
        return generate_pafs, (t,), {"img_hw": hw, "sigma": LS.PAF_SIGMA, "output_stride": spec["stride"], "edge_inds": ei, "flatten_channels": spec["flat"]}, w
    if fn == "augment":
        from sleap_nn.data import augmentation as ag

        img, _ = lay(test_image(spec["img"]), spec["layout"])
        inst, _ = lay(pat_points(spec["pat"], spec["shape"], spec.get("place", "in")), spec["layout"])
        w.update(image=img, instances=inst)
        aug, p = spec["aug"], spec["p"]
        if aug in ("uniform_noise", "gaussian_noise", "contrast", "brightness", "none"):
            kw = {}
            if aug != "none":
                kw[f"{aug}_p"] = p
            if aug == "brightness":
                kw["brightness"] = (0.8, 1.2)
            return ag.apply_intensity_augmentation, (img, inst), kw, w
        kw = {"affine": {"affine_p": p, "rotation": 15.0, "scale": (0.9, 1.1)}, "erase": {"erase_p": p, "erase_scale_min": 0.01, "erase_scale_max": 0.05}, "mixup": {"mixup_p": p, "mixup_lambda": (0.01, 0.05)}}[aug]
        return ag.apply_geometric_augmentation, (img, inst), kw, w
    raise ValueError(fn)


def _watch_snapshot(w):
    out = {}
    for k, v in w.items():
        if k == "labels":
            out[k] = snap_labels(v)
        else:
            out[k] = snap_arg(v)
    return out


def _watch_diff(before, w):
    for k, v in w.items():
        if k == "labels":
            d = labels_diff(before[k], v)
            if d:
                return f"argument labels: {d}"
        else:
            now = snap_arg(v)
            if now != before[k]:
                what = "values" if now[2] != before[k][2] else ("memory next to the view" if now[1] != before[k][1] else "shape/stride/dtype")
                return f"argument '{k}' was modified by the call ({what}): now {_np(v).tolist() if _np(v).size <= 24 else '<large>'}"
    return None


def a_nontrivial(spec):
    fn = spec["fn"]
    if "pat" in spec and fn not in ("augment", "apply_resizer"):
        bits = 3 if spec.get("shape") in ("one", "inst") or fn == "generate_crops" else 6
        full = (1 << bits) - 1
        return 0 < (spec["pat"] & full) < full
    if fn == "augment":
        return spec["p"] == 1.0
    if fn == "apply_resizer":
        return spec["scale"] != 1.0
    if fn == "apply_sizematcher":
        return tuple(spec["mhw"]) not in ((None, None),)
    if fn == "apply_pad_to_stride":
        return spec["stride"] > 1
    if fn in ("apply_normalization", "convert_to_grayscale", "convert_to_rgb"):
        return True
    if fn == "process_lf":
        return True
    if fn == "find_instance_crop_size":
        return spec["scaling"] != 1.0
    return False


def exec_a(spec, label_paths=None):
    """One purity case on the real helper.  Returns (error or None, outcome digest)."""
    import torch

    f, args, kw, w = build_a(spec, label_paths)
    before = _watch_snapshot(w)
    torch.manual_seed(1234)
    try:
        out1 = f(*args, **kw)
    except Exception as e:
        return f"{spec['fn']} raised {type(e).__name__}: {e}", None
    d = _watch_diff(before, w)
    if d:
        return d, dg(out1)
    counts = [len(lf.instances) for lf in w["labels"].labeled_frames] if "labels" in w else None
    torch.manual_seed(1234)
    try:
        out2 = f(*args, **kw)
    except Exception as e:
        return f"{spec['fn']} raised {type(e).__name__} on the second identical call: {e}", dg(out1)
    d = _watch_diff(before, w)
    if d:
        return d + " (second call)", dg(out1)
    if dg(out1) != dg(out2):
        return f"{spec['fn']} returned a different result for a second identical call", dg(out1)
    extra = None
    if counts is not None and counts != before["labels"][1]:
        extra = "lf_instances_replaced"
    return None, (dg(out1), extra)


# ---------------------------------------------------------------------------
# workers


COMPANION_TWO = {"id": "COMP2", "frames": [{"user": [["C", 7], ["P", 7]]}, {"user": [["B", 7]]}, {"user": [["A", 7], ["C", 5]]}]}
COMPANION_SINGLE = {"id": "COMP1", "frames": [{"user": [["B", 7]]}, {"user": [["P", 7]]}, {"user": [["A", 6]]}]}


def work(part, shard):
    tmp = tempfile.mkdtemp(prefix="c11_")
    try:
        label_paths = None
        for item in shard:
            kind = item[0]
            if kind == "a":
                for spec in item[1]:
                    if spec["fn"] in ("process_lf", "find_instance_crop_size") and label_paths is None:
                        label_paths = [LS.write(tmp, s, f"al{i}") for i, s in enumerate(A_LABEL_SPECS)]
                    case = dict(spec, part="a")
                    part.count()
                    part.transition(2)
                    k = repr(sorted(spec.items(), key=lambda kv: kv[0]))
                    part.state(k)
                    nt = a_nontrivial(spec)
                    if nt:
                        part.nontriv(k)
                    part.sample(case, nt)
                    part.add("a_cases")
                    try:
                        err, out = exec_a(spec, label_paths)
                    except Exception:
                        err, out = "harness: " + traceback.format_exc(), None
                    if isinstance(out, tuple):
                        if out[1]:
                            part.add("a_calls_that_replaced_lf_instances_by_user_instances")
                        out = out[0]
                    if out is not None:
                        part.outcome(f"a|{spec['fn']}|{out}")
                    if err:
                        viol(part, case, err)
            else:
                _, spec, fam, tier, D, rot = item
                path = LS.write(tmp, spec, "ls_" + spec["id"])
                # companion labels (different animals / positions / frame count) for the two-datasets-alive histories
                comp = COMPANION_SINGLE if fam.startswith("single") else COMPANION_TWO
                other_path = LS.write(tmp, comp, "comp_" + spec["id"])
                part.add("b_label_sets")
                for cfg in LS.configs(spec, fam, tier):
                    try:
                        explore_config(part, path, spec, cfg, D, rot, tmp, other_path)
                    except Exception:
                        part.violation({"part": "b", "spec": spec, "cfg": cfg, "history": [], "harness_exception": True}, "explorer raised:\n" + traceback.format_exc())
                        part.add("harness_errors")
                shutil.rmtree(os.path.join(tmp, "ls_" + spec["id"] + "_frames"), ignore_errors=True)
                for f in os.listdir(tmp):
                    p = os.path.join(tmp, f)
                    if os.path.isdir(p) and f.startswith("tmp"):
                        shutil.rmtree(p, ignore_errors=True)
                shutil.rmtree(os.path.join(tmp, "comp_" + spec["id"] + "_frames"), ignore_errors=True)
                for pth in (path, other_path):
                    try:
                        os.remove(pth)
                    except OSError:
                        pass
    finally:
        shutil.rmtree(tmp, ignore_errors=True)


def run(ctx):
    core.setup_torch()
    import sleap_io  # noqa: F401  (imported before the fork)
    from sleap_nn.data import augmentation, confidence_maps, custom_datasets, edge_maps, instance_centroids, instance_cropping, normalization, providers, resizing  # noqa: F401

    quick = ctx.tier == "quick"
    D = 3 if quick else 4
    sets = LS.label_sets(ctx.tier)
    for spec, _ in sets:
        assert LS.min_visible_distance(spec) >= 8.0, spec
    a = a_specs(ctx.tier) + a_label_specs(ctx.tier)
    a = core.rotate(a, ctx.seed)
    items = [("b", spec, fam, ctx.tier, D, ctx.seed) for spec, fam in core.rotate(sets, ctx.seed)]
    n_a_shards = 6 if quick else 8
    a_items = [("a", chunk) for chunk in core.shard_list(a, n_a_shards)]
    # heavy label sets first so that the pool drains evenly; every item is its own shard
    shards = [[it] for it in items] + [[it] for it in a_items]
    ctx.bounds = {
        "part_a_cases": len(a),
        "part_b_label_sets": len(sets),
        "part_b_configurations": sum(len(LS.configs(s, f, ctx.tier)) for s, f in sets),
        "max_indices": 4,
        "sequence_depth_D": D,
        "nodes": LS.K,
        "classes": ["BottomUp", "CenteredInstance", "Centroid", "SingleInstance"],
        "anchors": [None, 0, 1, 2],
        "np_chunks": [False, True],
    }
    core.pmap(ctx, work, shards)
    if ctx.extra.get("b_calls_changing_noncache_attributes"):
        # the sample cache stayed put but some other attribute of the dataset moved: windows of the walk are then
        # not executions from the initial state, so the word coverage claimed above does not hold
        ctx.cap("a __getitem__ call changed a non-cache attribute of the dataset: state merging invalid, sequences not exhaustively covered")
    if ctx.extra.get("max_distinct_states_per_configuration", 1) != 1:
        ctx.notes.append("some configuration reached more than one dataset state (reported as violations)")


# ---------------------------------------------------------------------------
# replay


def replay(case):
    core.setup_torch()
    tmp = tempfile.mkdtemp(prefix="c11_replay_")
    try:
        if case.get("part") == "a":
            spec = {k: v for k, v in case.items() if k != "part"}
            for k in ("box", "crop", "mhw"):
                if k in spec and spec[k] is not None:
                    spec[k] = tuple(spec[k])
            label_paths = None
            if spec["fn"] in ("process_lf", "find_instance_crop_size"):
                label_paths = [LS.write(tmp, s, f"al{i}") for i, s in enumerate(A_LABEL_SPECS)]
            f, args, kw, w = build_a(spec, label_paths)
            shown = {k: (_np(v).tolist() if k != "labels" and _np(v).size <= 24 else "<large>") for k, v in w.items()}
            err, out = exec_a(spec, label_paths)
            return {"spec": spec, "arguments_before": shown, "error": err, "violates": err is not None}
        spec, cfg = case["spec"], case["cfg"]
        raw_hist = list(case.get("history", []))
        if any(isinstance(h, str) for h in raw_hist):
            # two-datasets-alive history: [first index, "construct+read(companion dataset)", index]
            path = LS.write(tmp, spec, "ls")
            fam_single = cfg["cls"] == "SingleInstance"
            other_path = LS.write(tmp, COMPANION_SINGLE if fam_single else COMPANION_TWO, "comp")
            ds, labels, snap = make_dataset(path, cfg, tempfile.mkdtemp(dir=tmp))
            r, i = int(raw_hist[0]), int(raw_hist[-1])
            ds[r]
            ref = ds[i]
            other = make_dataset(other_path, cfg, tempfile.mkdtemp(dir=tmp))
            for j in range(len(other[0])):
                other[0][j]
            d = sample_diff(ds[i], ref)
            return {"history": raw_hist, "difference": d, "violates": bool(d)}
        history = [int(i) for i in raw_hist]
        path = LS.write(tmp, spec, "ls")
        exp = LS.expected(spec, cfg["cls"], cfg["uio"])
        obs = {"expected_len": len(exp), "errors": [], "history": history}
        try:
            ds, labels, snap = make_dataset(path, cfg, tempfile.mkdtemp(dir=tmp))
        except Exception as e:
            obs["errors"].append(f"building the dataset raised {type(e).__name__}: {e}")
            obs["violates"] = True
            return obs
        obs["len"] = len(ds)
        if len(ds) != len(exp):
            obs["errors"].append(f"len(dataset) = {len(ds)}, the labels hold {len(exp)}")
        s0 = ds_state(ds)
        last = None
        for t, i in enumerate(history):
            try:
                last = ds[i]
            except Exception as e:
                obs["errors"].append(f"__getitem__({i}) raised {type(e).__name__}: {e}")
                break
            if ds_state(ds)[0] != s0[0]:
                obs["errors"].append(f"call {t} (__getitem__({i})) changed the dataset's sample cache")
            if i < len(exp):
                errs = check_sample(last, exp[i], cfg)
                if errs:
                    obs["errors"].append(f"call {t} index {i}: " + "; ".join(errs[:4]))
            if t == len(history) - 1:
                try:
                    fresh, _, _ = make_dataset(path, cfg, tempfile.mkdtemp(dir=tmp))
                    d = sample_diff(last, fresh[i])
                    if d:
                        obs["errors"].append(f"sample {i} after {history[:t]} differs from a fresh dataset's first read: {d}")
                except Exception as e:
                    obs["errors"].append(f"fresh dataset raised {type(e).__name__}: {e}")
        d = labels_diff(snap, labels)
        if d:
            obs["errors"].append(d)
        if last is not None:
            obs["last_sample_keypoints"] = {k: _np(v).tolist() for k, v in last.items() if k in ("instances", "instance", "centroids", "centroid", "num_instances", "frame_idx")}
        obs["errors"] = sorted(set(obs["errors"]), key=obs["errors"].index)
        obs["violates"] = bool(obs["errors"])
        return obs
    finally:
        shutil.rmtree(tmp, ignore_errors=True)
