"""C03 — bottom-up inference reassembles exactly the labelled animals from ideal maps.

E1, end to end: the REAL BottomUpPredictor (reader thread, _predict_generator, real
BottomUpInferenceModel + real PAFScorer, label assembly) with the bottom-up ideal
network, for every tree skeleton (every rooted labelled tree x edge listings), 1..3
well separated animals, EVERY visibility pattern of one animal, image/scale/stride
grid, both refinements, frames batched with an empty frame.
"""
from __future__ import annotations

import itertools
import math
import shutil
import tempfile

import numpy as np

from mc import core
from props import _ideal as I
from props import _scenes as S
from props.c17 import prufer_trees, rooted

LEVEL = "model_checking"
RULE = (
    "tree skeletons (all rooted labelled trees on n nodes x edge listings) x configuration (input scale, (cms,paf) strides, "
    "refinement, batch, provider) -> one run of the real predictor on a labels file whose frames enumerate every visibility "
    "pattern (2^n) of animal 0 for 1..A animals (others complete) plus an empty frame; one evaluation = one frame; oracle: "
    "multiset of predicted instances == multiset of groups (>=2 visible nodes connected through visible edges) of the "
    "labelled animals, node-wise within half a cms-stride cell, NaN elsewhere, nothing else; a frame is non-trivial when "
    "it has >= 2 animals or a missing node; distinct = distinct (skeleton listing, config, frame)"
)
ASSUMPTIONS = [
    "ideal network = premise of the property; animals are placed >= 5 radii apart (well separated) so single-linkage clustering inside the ideal network recovers the animals",
    "geometry obeys the resolution rule of DESIGN C02/C03: disc radius >= 3 input px, node spacing >= max(3.5 PAF cells, 2r+4), image max side >= 8.5 animal radii so that the default max_edge_length_ratio does not penalise skeleton edges; half of the runs use the portrait form of the scene (x and y exchanged: tall frame, short side ~2.6 radii)",
    "narrow-band variant of the long family: PAF stride 8, PAF spread 3.5 px, chains along a grid direction 6 px off the cell centres (nearest-cell sampling of the line integral is within 2 px of the line, any other cell > 6 px)",
    "crowded frames: up to 5 animals x 4 nodes (20 peaks in one frame) for two listings of the 4-chain",
    "'long' family: 3-node chains (three listings) whose nodes lie along a narrow frame with a node spacing of 1.25x the stride-padded short side of the network input (an edge longer than the frame is wide but at most half its long side), 1-2 animals, both orientations, every configuration",
    "quick: all skeletons n<=3 in all listings, all 64 rooted trees on 4 nodes with one listing each (rotating), 4 pairwise-covering configs, A<=2 (3 for n<=3); thorough: all listings for n<=4, n=5,6 with canonical listing + reverse on a deterministic subset of trees, 16 configs, A<=3 (n<=4), 5 animals for a sub-grid",
]

FR = [0.31, 0.57, 0.18, 0.73, 0.44, 0.66, 0.27, 0.81, 0.12, 0.39, 0.62, 0.88]


def gp(v, i):
    return math.floor(v) + FR[i % len(FR)]


def geometry(n, cfg):
    scale, cs, ps = cfg["scale"], cfg["cms_stride"], cfg["paf_stride"]
    r = max(3.0, 3.0 / scale)
    chord = max(3.6 * ps / scale, 2 * r + max(4.5, 4.0 / scale), 3.0 * cs / scale)  # discs stay >= 4 input px apart
    R = chord / (2 * math.sin(math.pi / max(n, 3))) if n > 2 else chord / 2
    return r, R


def animal(cx, cy, R, n, variant):
    """n nodes on a circle of radius R (rotated per variant), general position."""
    pts = []
    for k in range(n):
        ang = 2 * math.pi * k / n + 0.37 + 0.9 * variant
        pts.append((gp(cx + R * math.cos(ang), 2 * k + variant), gp(cy + R * math.sin(ang), 2 * k + 1 + variant)))
    return np.array(pts, dtype=np.float64)


def groups_of(pts, edges):
    """Connected groups (>=2 visible nodes linked by visible edges) of one animal."""
    n = len(pts)
    vis = [not np.isnan(pts[k]).any() for k in range(n)]
    parent = list(range(n))

    def find(i):
        while parent[i] != i:
            i = parent[i]
        return i

    for a, b in edges:
        if vis[a] and vis[b]:
            parent[find(a)] = find(b)
    comp = {}
    for k in range(n):
        if vis[k]:
            comp.setdefault(find(k), []).append(k)
    out = []
    for nodes in comp.values():
        if len(nodes) >= 2:
            g = np.full((n, 2), np.nan)
            g[nodes] = pts[nodes]
            out.append(g)
    return out


def long_geometry(n, cfg, n_animals_max):
    """'long' family: chain animals whose nodes lie on a line along the LONG side of a narrow frame, consecutive nodes
    farther apart than the (stride-padded) short side of the network input - an edge longer than the frame is wide."""
    scale, ps = cfg["scale"], cfg["paf_stride"]
    r = max(3.0, 3.0 / scale)
    short = int(math.ceil(2 * (r + 7)))
    short += (-short) % 2
    short_in = -(-int(short * scale) // 16) * 16  # what the network sees after scaling and padding to max_stride 16
    d = max(1.25 * short_in, 3.6 * ps + 2.0) / scale  # node spacing in original pixels
    gap = 1.9 * d  # between the last node of one animal and the first node of the next
    per = (n - 1) * d
    long_side = int(math.ceil(2 * (r + 7) + n_animals_max * per + (n_animals_max - 1) * gap))
    long_side += (-long_side) % 2
    return r, d, gap, short, long_side


def long_animal(a, n, r, d, gap, short, x_at=None):
    y0 = r + 7 + a * ((n - 1) * d + gap)
    if x_at is not None:  # narrow-band variant: every node at x_at + fraction (the far half of a PAF cell)
        return np.array([[gp(x_at, 2 * k + a), gp(y0 + k * d, 2 * k + 1 + a)] for k in range(n)], dtype=np.float64)
    return np.array([[gp(short / 2.0 - 1 + (k % 2), 2 * k + a), gp(y0 + k * d, 2 * k + 1 + a)] for k in range(n)], dtype=np.float64)


def build_frames(n, edges, cfg, n_animals_max):
    if cfg.get("long"):
        r, d, gap, W, H = long_geometry(n, cfg, n_animals_max)  # built as a portrait frame; cfg["portrait"] False transposes it
        R = d
    else:
        r, R = geometry(n, cfg)
        step = 5.0 * R + 2 * r
        W = int(math.ceil(max(8.5 * R, 2 * (R + r + 6) + step * (n_animals_max - 1))))
        H = int(math.ceil(2 * (R + r + 6) + 0.6 * R))
        W += (-W) % 2
        H += (-H) % 2
    flip = bool(cfg.get("portrait")) != bool(cfg.get("long"))  # exchange x and y (the long family is built tall)
    frames, truth = [], []
    for na in range(1, n_animals_max + 1):
        for mask in range(2**n):
            animals = []
            for a in range(na):
                if cfg.get("long"):
                    pts = long_animal(a, n, r, d, gap, W, cfg.get("x_at"))
                else:
                    pts = animal(R + r + 6 + step * a, R + r + 6 + (0.5 * R if a % 2 else 0.0), R, n, a)
                if a == 0:
                    for k in range(n):
                        if not (mask >> k) & 1:
                            pts[k] = np.nan
                animals.append(pts)
            if na > 1 and mask == 0:
                continue  # animal 0 fully invisible == the (na-1)-animal frame shifted; keep one all-invisible case (na == 1)
            if flip:  # the same scene with x and y exchanged
                animals = [np.ascontiguousarray(p[:, ::-1]) for p in animals]
            frames.append({"image": S.render(*((W, H) if flip else (H, W)), animals, radius=r), "instances": [p for p in animals if not np.isnan(p).all()] or []})
            truth.append([g for p in animals for g in groups_of(p, edges)])
        if na == 1:
            frames.insert(1, {"image": S.render(*((W, H) if flip else (H, W)), [], radius=r), "instances": []})
            truth.insert(1, [])
    if flip:
        H, W = W, H
    return frames, truth, (H, W, r, R)


def match_sets(pred, truth, tol):
    """Multiset equality of instances. pred/truth: lists of (n,2) arrays. Returns error or None."""
    pred = [p for p in pred if not np.isnan(p).all()]
    if len(pred) != len(truth):
        return f"{len(pred)} instances predicted, {len(truth)} groups labelled"
    used = set()
    worst = 0.0
    for t in truth:
        best, bj = None, None
        for j, p in enumerate(pred):
            if j in used:
                continue
            if (np.isnan(p).any(axis=1) != np.isnan(t).any(axis=1)).any():
                continue
            e = float(np.nanmax(np.abs(p - t)))
            if best is None or e < best:
                best, bj = e, j
        if bj is None:
            return f"no predicted instance has the visible-node pattern of labelled group {np.round(t, 1).tolist()}; predicted {[np.round(p, 1).tolist() for p in pred]}"
        if best > tol:
            return f"group {np.round(t, 1).tolist()} recovered as {np.round(pred[bj], 2).tolist()} (error {best:.2f} px > tolerance {tol:.2f})"
        used.add(bj)
        worst = max(worst, best / tol)
    return None


def execute(case):
    case = {k: v for k, v in case.items() if k != "after"}
    n, edges, cfg = case["n"], [tuple(e) for e in case["edges"]], case["cfg"]
    tmp = tempfile.mkdtemp(prefix="verif_c03_")
    try:
        sk = S.make_skeleton(n, edges=edges)
        frames, truth, (H, W, r, R) = build_frames(n, edges, cfg, case["animals"])
        slp = S.write_labels(tmp, frames, sk, name="b", embed=True)
        path = slp if cfg["provider"] == "LabelsReader" else S.png_video_paths(tmp, "b")
        link = 1.3 * R if cfg.get("long") else 2.0 * R + 1.0  # long family: R is the node spacing; animals are 1.9 spacings apart

        def mk():
            return I.bottomup_predictor(
                n, edges, cfg["scale"], 16, cfg["cms_stride"], cfg["paf_stride"], 1.5, cfg.get("paf_sigma") or max(6.0, 0.6 * cfg["paf_stride"] ** 2), link * cfg["scale"],
                (None, None), cfg["refinement"], cfg["batch"], sk,
            )

        outs = I.run_predictor(mk(), cfg["provider"], path, make_labels=False)
        tol = (0.5 * cfg["cms_stride"] + 0.5) / cfg["scale"] + 1e-3
        got = {}
        for o in outs:
            for fi, inst in zip(o["frame_idx"], o["pred_instance_peaks"]):
                if int(fi) in got:
                    return [(int(fi), f"frame {int(fi)} reported twice")], len(frames), None
                got[int(fi)] = [np.asarray(p, dtype=np.float64) for p in inst]
        errs = []
        for f in range(len(frames)):
            if f not in got:
                errs.append((f, f"frame {f} missing from the output"))
                continue
            e = match_sets(got[f], truth[f], tol)
            if e:
                errs.append((f, f"frame {f}: {e}"))
        if not errs and case.get("labels_too"):
            # second pass: label assembly, and every batch forwarded twice through the inference model (2-step call history:
            # inputs must stay untouched, the second answer must equal the first)
            labels = I.run_predictor(mk(), cfg["provider"], path, make_labels=True, twice=True)
            byf = {int(lf.frame_idx): [inst.numpy() for inst in lf.instances] for lf in labels}
            for f in range(len(frames)):
                e = match_sets(byf.get(f, []), truth[f], tol)
                if e:
                    errs.append((f, f"make_labels=True, frame {f}: {e}"))
        obs = [[np.round(p, 1).tolist() for p in got.get(f, [])] for f in range(len(frames))]
        return errs, len(frames), {"truth": truth, "obs": obs}
    finally:
        shutil.rmtree(tmp, ignore_errors=True)


CONFIGS_QUICK = [
    {"scale": 1.0, "cms_stride": 2, "paf_stride": 2, "refinement": None, "batch": 2},
    {"scale": 0.5, "cms_stride": 2, "paf_stride": 4, "refinement": "integral", "batch": 1},
    {"scale": 1.0, "cms_stride": 4, "paf_stride": 8, "refinement": "integral", "batch": 2},
    {"scale": 0.5, "cms_stride": 1, "paf_stride": 2, "refinement": None, "batch": 2},
]


def skeletons(tier, seed):
    out = []
    for n in (2, 3, 4):
        k = 0
        for tree in prufer_trees(n):
            for root in range(n):
                e = rooted(tree, n, root)
                listings = list(itertools.permutations(e))
                if n <= 3 or tier == "thorough":
                    chosen = listings
                else:
                    chosen = [listings[(k + seed) % len(listings)]]
                for l in chosen:
                    out.append((n, [list(x) for x in l]))
                k += 1
    if tier == "thorough":
        for n, every in ((5, 25), (6, 400)):
            k = 0
            for tree in prufer_trees(n):
                for root in range(n):
                    if k % every == 0:
                        e = rooted(tree, n, root)
                        out.append((n, [list(x) for x in e]))
                        out.append((n, [list(x) for x in reversed(e)]))
                    k += 1
    return out


def cases(tier, seed):
    out = []
    sks = skeletons(tier, seed)
    if tier == "quick":
        cfgs = CONFIGS_QUICK
    else:
        cfgs = [
            {"scale": s, "cms_stride": c, "paf_stride": p, "refinement": rf, "batch": b}
            for s in (1.0, 0.5) for (c, p) in ((2, 2), (2, 4), (4, 8), (1, 2)) for rf in (None, "integral") for b in (2,)
        ]
    for si, (n, edges) in enumerate(sks):
        for ci, cfg in enumerate(cfgs):
            if tier == "thorough" and n >= 5 and ci % 4 != (si % 4):
                continue
            prov = "LabelsReader" if (si + ci) % 2 == 0 else "VideoReader"
            animals = 3 if n <= 3 else 2
            if tier == "thorough" and n <= 4:
                animals = 3
            if n >= 5:
                animals = 2
            if tier == "thorough" and n == 3 and ci == 0 and si % 6 == 0:
                animals = 5
            # every second (skeleton listing, configuration) pair is run on the portrait form of its scene (tall frame whose
            # width is smaller than the longest skeleton edge / max_edge_length_ratio, height far larger)
            portrait = (si // 2 + ci) % 2 == 1
            out.append({"n": n, "edges": edges, "cfg": dict(cfg, provider=prov, portrait=portrait), "animals": animals, "labels_too": (si + ci) % 3 == 0})
    # 'long' family: chains of 3 (and, two animals per frame, of 2) nodes laid out along a narrow frame, node spacing larger
    # than the frame's short side; both orientations x every configuration
    for n, edges in ((3, [[0, 1], [1, 2]]), (3, [[1, 2], [0, 1]]), (3, [[1, 0], [1, 2]])):
        for ci, cfg in enumerate(cfgs):
            for portrait in (True, False):
                out.append({"n": n, "edges": edges, "cfg": dict(cfg, provider="VideoReader" if portrait else "LabelsReader", portrait=portrait, long=True), "animals": 2, "labels_too": False})
    # crowded frames: 5 animals x 4 nodes = 20 detected peaks in one frame (more than 16: sorting routines switch algorithm)
    for ci in ((0, 3) if tier == "quick" else range(len(cfgs))):
        for edges in ([[0, 1], [1, 2], [2, 3]], [[2, 3], [1, 2], [0, 1]]):
            out.append({"n": 4, "edges": edges, "cfg": dict(cfgs[ci], provider="VideoReader", portrait=False), "animals": 5, "labels_too": False})
    # narrow-band variant of the long family: PAF stride 8 with a PAF spread of 3.5 px, chains running along a grid
    # direction at an offset in the far half of a PAF cell (x = 14.x): sampling the field at the NEAREST cell stays
    # within 2 px of the line (weight ~0.9), any other cell of the neighbourhood is > 6 px away (weight < 0.25)
    for n, edges in ((3, [[0, 1], [1, 2]]), (3, [[1, 0], [1, 2]])):
        for cms_stride, ref in ((2, None), (4, "integral")):
            for portrait in (True, False):
                cfg = {"scale": 1.0, "cms_stride": cms_stride, "paf_stride": 8, "refinement": ref, "batch": 2, "paf_sigma": 3.5, "x_at": 14.0}
                out.append({"n": n, "edges": edges, "cfg": dict(cfg, provider="VideoReader" if portrait else "LabelsReader", portrait=portrait, long=True), "animals": 2, "labels_too": False})
    return out


def work(part, shard):
    from loguru import logger

    logger.remove()
    prev_of_group = {}
    for case in shard:
        # listings of the same edge set run consecutively in one process (state cached per edge *set* would show here);
        # a violating case remembers the previous listing of its group so that the replay can rebuild the history
        gk = (case["n"], frozenset(tuple(e) for e in case["edges"]))
        if gk in prev_of_group:
            case = dict(case, after=prev_of_group[gk])
        prev_of_group[gk] = {k: v for k, v in case.items() if k != "after"}
        ck = core.digest({k: v for k, v in case.items() if k != "after"})
        try:
            errs, nframes, info = execute(case)
        except Exception as e:
            import traceback

            part.violation(case, f"raised {type(e).__name__}: {e} :: {traceback.format_exc()[-600:]}")
            continue
        part.count(nframes)
        part.transition(nframes)
        for f in range(nframes):
            part.state(f"{ck}:{f}")
            t = info["truth"][f] if info else []
            if info and (len(t) >= 2 or any(np.isnan(g).any() for g in t)):
                part.nontriv(f"{ck}:{f}")
        part.sample({"case": case, "frames": nframes}, True)
        if info:
            part.outcome(core.digest(info["obs"]))
        for f, msg in errs[:2]:
            part.violation(dict(case, frame=f), msg)


def run(ctx):
    core.setup_torch()
    cs = cases(ctx.tier, ctx.seed)
    ctx.bounds = {"runs": len(cs), "skeleton_listings": len(skeletons(ctx.tier, ctx.seed))}
    # shards keep all listings / configurations of one edge set together and in order
    groups = {}
    for c in cs:
        groups.setdefault((c["n"], frozenset(tuple(e) for e in c["edges"])), []).append(c)
    glist = core.rotate(list(groups.values()), ctx.seed)
    nsh = 96
    shards = [[c for g in glist[i::nsh] for c in g] for i in range(nsh)]
    core.pmap(ctx, work, [s_ for s_ in shards if s_])


def replay(case):
    core.setup_torch()
    from loguru import logger

    logger.remove()
    case = dict(case)
    f = case.pop("frame", None)
    after = case.pop("after", None)
    if after is not None:
        execute({k: v for k, v in after.items() if k != "frame"})  # rebuild the one-step history
    errs, nframes, info = execute(case)
    if f is not None:
        errs = [e for e in errs if e[0] == f] or errs
    return {"violates": bool(errs), "errors": [m for _, m in errs[:5]], "frames": nframes}
