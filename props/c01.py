"""C01 — confidence-map training targets faithfully encode the labelled keypoints.

E1 small-scope enumeration: keypoint arrays built from an ordered coordinate alphabet
(NaN, outside, border, sub-pixel, huge, +inf) x image sizes x output strides x sigma x
the 8 ways the tree produces confidence-map targets (generate_confmaps 3-D / 4-D input,
generate_multiconfmaps nodes / centroids, ConfidenceMapGenerator with both instance
keys, MultiConfidenceMapGenerator nodes / centroids), n_samples 1 and 2 (and up to 256
through the samples axis of generate_confmaps).  Every output is compared with the
property's formula evaluated in float64 numpy, plus the derived clauses.
"""
from __future__ import annotations

import hashlib

import numpy as np

from mc import core

LEVEL = "model_checking"
RULE = (
    "every keypoint array from the per-shape coordinate alphabet x (H,W) x stride x sigma x 8 producer variants x "
    "n_samples; oracle = float64 max_a exp(-((j*s-x)^2+(i*s-y)^2)/(2(sigma*s)^2)), missing => 0, plus: finite, in [0,1], "
    "shape (n_samples,nodes,H/s,W/s), value at the grid cell nearest a keypoint = channel max, all-missing channel "
    "exactly 0, inputs unchanged.  A case is non-trivial when at least one keypoint is finite and within 3*sigma*stride "
    "of the image rectangle; distinct = distinct (variant, H, W, stride, sigma, num_instances, keypoint tensor)"
)
ASSUMPTIONS = [
    "history part: all ordered pairs (thorough: triples) of a small call alphabet chosen to collide in every shape-like cache key, each history in a forked child, compared with a fresh-process result",
    "image height and width are multiples of the output stride, plus a few sizes that are not (2 in quick, 6 in thorough): there the shape clause H/stride accepts floor or ceil and every cell of the returned grid is checked against the Gaussian at (col*stride, row*stride)",
    "animals wholly 8..46 px outside the frame (alphabet F) next to an animal inside, for the multi-instance and centroid variants",
    "coordinates come from the alphabet {NaN,-3,-0.5,0,0.25,1,2.5,size-1,size-0.5,size+2,1e4,+inf} per axis (thorough: plus the "
    "quarter-pixel lattice -1..size+0.5); larger shapes use the reduced keypoint alphabets R12/R6/R5/R4/R3 defined in the module",
    "rows beyond num_instances are all-NaN padding (what the pipelines produce); num_instances = number of non-padding rows (0 for a frame without labelled animals: only padding slots)",
    "float32 arithmetic: |out-ref| <= 1e-5 + 1e-5*|ref|; the nearest-cell clause allows 4 float32 ulps at 1.0 for tied/rounded cells",
    "sizes <= 12 (24 for stride 8), animals,nodes <= 2 (thorough 3), strides {1,2,4} (thorough +8), sigma {0.5,1.5,3}",
]
MIN_OUTCOMES = 1000

ATOL = 1e-5
RTOL = 1e-5
EPS_MAX = 4 * float(np.finfo(np.float32).eps)
BATCH = 256
CHUNK = 2048
NAN = float("nan")
INF = float("inf")

V_GC3 = "generate_confmaps/3d"
V_GC4 = "generate_confmaps/4d"
V_GM = "generate_multiconfmaps/nodes"
V_GMC = "generate_multiconfmaps/centroids"
V_DPI = "ConfidenceMapGenerator/instances"
V_DPK = "ConfidenceMapGenerator/instance"
V_DPM = "MultiConfidenceMapGenerator/nodes"
V_DPC = "MultiConfidenceMapGenerator/centroids"
KIND = {
    V_GC3: "single3", V_DPK: "single3",
    V_GC4: "single4", V_DPI: "single4",
    V_GM: "multi", V_DPM: "multi",
    V_GMC: "cent", V_DPC: "cent",
}
BATCHED = (V_GC3, V_GC4)  # many cases through the samples axis of one call


# ---------------------------------------------------------------------------
# alphabets

def axis_alphabet(size):
    return [NAN, -3.0, -0.5, 0.0, 0.25, 1.0, 2.5, size - 1.0, size - 0.5, size + 2.0, 1e4, INF]


def lattice(size):
    return [k / 4.0 for k in range(-4, 4 * size + 3)] + [NAN, -3.0, size + 2.0, 1e4, INF]


_ALPH = {}


def alphabet(name, H, W):
    key = (name, H, W)
    if key in _ALPH:
        return _ALPH[key]
    if name == "K":
        a = [(x, y) for x in axis_alphabet(W) for y in axis_alphabet(H)]
    elif name == "L":
        a = [(x, y) for x in lattice(W) for y in lattice(H)]
    else:
        r12 = [
            (NAN, NAN), (0.0, 0.0), (1.0, 2.5), (2.5, 0.25), (W - 1.0, H - 1.0), (W - 0.5, -0.5),
            (-3.0, 1.0), (0.25, H + 2.0), (1.0, NAN), (NAN, 1.0), (1e4, 0.0), (2.5, INF),
        ]
        r6 = [(NAN, NAN), (1.0, 2.5), (W - 1.0, 0.25), (-0.5, H - 0.5), (2.5, NAN), (W + 2.0, 1.0)]
        r3 = [(NAN, NAN), (1.0, 2.5), (W - 1.5, 0.25)]
        # F: points far outside the frame (8 .. 46 px), where the Gaussian of a coarse stride still reaches into the image
        far = [(-8.0, 1.0), (-24.0, 2.5), (-46.0, 0.25), (W + 7.0, 1.0), (W + 23.0, H - 1.0), (1.0, -24.0), (2.5, H + 45.0)]
        a = {"R12": r12, "R6": r6, "R5": r6[:5], "R4": r6[:4], "R3": r3, "F": far}[name]
    _ALPH[key] = np.asarray(a, dtype=np.float64)
    return _ALPH[key]


def gen_rows(alphs, idx):
    """Tuples number idx of the product of the per-position alphabets -> (n, positions, 2)."""
    dims = [len(a) for a in alphs]
    sub = np.unravel_index(idx, dims)
    return np.stack([alphs[k][sub[k]] for k in range(len(alphs))], axis=1)


# ---------------------------------------------------------------------------
# the real code

def _mods():
    import torch
    from sleap_nn.data import confidence_maps as cm

    return torch, cm


def _bytes(t):
    return t.detach().contiguous().numpy().tobytes()


def to_tensor(variant, samp):
    """samp (S, Ap, N, 2) float -> the tensor this variant takes."""
    torch, _ = _mods()
    a = np.asarray(samp, dtype=np.float32)
    kind = KIND[variant]
    if kind == "single3":
        a = a[:, 0]
    elif kind == "cent":
        a = a[:, :, 0]
    return torch.from_numpy(np.ascontiguousarray(a))


def from_tensor_list(variant, pts):
    """Inverse of to_tensor for a nested list (replay): -> (S, Ap, N, 2) float64."""
    a = np.asarray(pts, dtype=np.float64)
    kind = KIND[variant]
    if kind == "single3":
        a = a[:, None]
    elif kind == "cent":
        a = a[:, :, None]
    return a


def call_fn(variant, cfg, t, A):
    """One execution of a generate_* function. Returns (out ndarray, side issue or None)."""
    torch, cm = _mods()
    H, W, s, sigma = cfg
    before = _bytes(t)
    if variant in (V_GC3, V_GC4):
        out = cm.generate_confmaps(t, (H, W), sigma=sigma, output_stride=s)
    elif variant == V_GM:
        out = cm.generate_multiconfmaps(t, (H, W), num_instances=A, sigma=sigma, output_stride=s, is_centroids=False)
    elif variant == V_GMC:
        out = cm.generate_multiconfmaps(t, (H, W), num_instances=A, sigma=sigma, output_stride=s, is_centroids=True)
    else:
        raise KeyError(variant)
    issue = None if _bytes(t) == before else "input keypoint tensor was modified by the call"
    if not isinstance(out, torch.Tensor):
        return None, f"returned {type(out).__name__}, not a tensor"
    return out.detach().numpy(), issue


def call_dp(variant, cfg, tensors, A):
    """Drive a DataPipe over a plain list of examples. Returns list of (out, issue)."""
    torch, cm = _mods()
    H, W, s, sigma = cfg
    exs, snaps = [], []
    for t in tensors:
        img = torch.zeros((t.shape[0], 1, H, W), dtype=torch.float32)
        if variant == V_DPI:
            ex = {"image": img, "instances": t}
        elif variant == V_DPK:
            ex = {"image": img, "instance": t}
        elif variant == V_DPM:
            ex = {"image": img, "instances": t, "num_instances": A}
        else:
            ex = {"image": img, "centroids": t, "num_instances": A}
        exs.append(ex)
        snaps.append((set(ex.keys()), _bytes(t)))
    if variant == V_DPI:
        pipe, okey = cm.ConfidenceMapGenerator(exs, sigma=sigma, output_stride=s), "confidence_maps"
    elif variant == V_DPK:
        pipe, okey = cm.ConfidenceMapGenerator(exs, sigma=sigma, output_stride=s, instance_key="instance"), "confidence_maps"
    elif variant == V_DPM:
        pipe, okey = cm.MultiConfidenceMapGenerator(exs, sigma=sigma, output_stride=s, centroids=False), "confidence_maps"
    else:
        pipe, okey = cm.MultiConfidenceMapGenerator(exs, sigma=sigma, output_stride=s, centroids=True), "centroids_confidence_maps"
    got = list(pipe)
    if len(got) != len(exs):
        raise RuntimeError(f"DataPipe yielded {len(got)} examples for {len(exs)} inputs")
    res = []
    for o, t, (keys, before) in zip(got, tensors, snaps):
        issue = None
        if okey not in o:
            res.append((None, f"output example has no key {okey!r} (keys {sorted(o.keys())})"))
            continue
        if set(o.keys()) != keys | {okey}:
            issue = f"example keys changed: {sorted(o.keys())}"
        elif _bytes(t) != before:
            issue = "input keypoint tensor was modified by the DataPipe"
        elif tuple(o["image"].shape) != (t.shape[0], 1, H, W) or float(o["image"].abs().sum()) != 0.0:
            issue = "image entry was modified by the DataPipe"
        elif "num_instances" in keys and o["num_instances"] != A:
            issue = "num_instances entry was modified by the DataPipe"
        res.append((o[okey].detach().numpy(), issue))
    return res


def execute(variant, cfg, samp, A):
    """samp (B,S,Ap,N,2) -> list of B results: (out (S,C,h,w) | None, issue | None, exc | None), n real calls."""
    B = samp.shape[0]
    calls = 0
    if variant in BATCHED and samp.shape[1] == 1:
        try:
            t = to_tensor(variant, samp[:, 0])
            out, issue = call_fn(variant, cfg, t, A)
            calls += 1
            if out is not None and out.ndim == 4 and out.shape[0] == B:
                return [(out[b : b + 1], issue, None) for b in range(B)], calls
        except Exception:
            pass  # attribute the failure to individual rows below
    if variant.startswith("generate_"):
        res = []
        for b in range(B):
            try:
                out, issue = call_fn(variant, cfg, to_tensor(variant, samp[b]), A)
                res.append((out, issue, None))
            except Exception as e:
                res.append((None, None, f"raised {type(e).__name__}: {e}"))
            calls += 1
        return res, calls
    tensors = [to_tensor(variant, samp[b]) for b in range(B)]
    try:
        r = call_dp(variant, cfg, tensors, A)
        return [(o, i, None) for o, i in r], calls + B
    except Exception:
        res = []
        for b in range(B):
            try:
                o, i = call_dp(variant, cfg, [tensors[b]], A)[0]
                res.append((o, i, None))
            except Exception as e:
                res.append((None, None, f"raised {type(e).__name__}: {e}"))
            calls += 1
        return res, calls


# ---------------------------------------------------------------------------
# the oracle (property text, float64, no torch)

def normalise(variant, samp):
    """(B,S,Ap,N,2) -> (B,S,animals reduced over, channels,2)."""
    if KIND[variant] == "single4":
        B, S, Ap, N, _ = samp.shape
        return samp.reshape(B, S, 1, Ap * N, 2)
    return samp


def reference(norm, cfg, hw=None):
    H, W, s, sigma = cfg
    h, w = hw if hw is not None else (H // s, W // s)
    gx = np.arange(w, dtype=np.float64) * s
    gy = np.arange(h, dtype=np.float64) * s
    x = norm[..., 0][..., None, None]
    y = norm[..., 1][..., None, None]
    with np.errstate(all="ignore"):
        d2 = (gx[None, :] - x) ** 2 + (gy[:, None] - y) ** 2
        g = np.exp(-d2 / (2.0 * (sigma * s) ** 2))
    fin = np.isfinite(norm).all(-1)
    g = np.where(fin[..., None, None], g, 0.0)
    return g.max(axis=2), d2, fin


def nontrivial_mask(norm, cfg):
    H, W, s, sigma = cfg
    with np.errstate(all="ignore"):
        x, y = norm[..., 0], norm[..., 1]
        dx = np.maximum(0.0, np.maximum(-x, x - (W - 1)))
        dy = np.maximum(0.0, np.maximum(-y, y - (H - 1)))
        ok = np.isfinite(norm).all(-1) & (np.hypot(dx, dy) <= 3.0 * sigma * s)
    return ok.reshape(ok.shape[0], -1).any(axis=1)


def check(out, norm, cfg):
    """out (B,S,C,h,w) float32, norm (B,S,Ap,C,2) float64 -> {row: message}."""
    ref, d2, fin = reference(norm, cfg, tuple(out.shape[-2:]))  # the stride grid with as many cells as the output has
    B = out.shape[0]
    o = out.astype(np.float64)
    msgs = {}

    def first(mask_b, b):
        return tuple(int(i) for i in np.argwhere(mask_b)[0])

    notfinite = ~np.isfinite(o)
    bad_rng = ~notfinite & ((o < 0.0) | (o > 1.0))
    with np.errstate(all="ignore"):
        bad_val = ~notfinite & (np.abs(o - ref) > ATOL + RTOL * np.abs(ref))
    missing_all = np.isnan(norm).any(-1).all(axis=2)  # (B,S,C)
    bad_zero = missing_all[..., None, None] & (out != 0.0)
    # nearest-cell clause
    with np.errstate(all="ignore"):
        dmin = np.where(fin, np.nanmin(np.where(np.isfinite(d2), d2, np.inf), axis=(-2, -1)), np.inf)
        near = (d2 == dmin[..., None, None]) & fin[..., None, None]
        at_near = np.where(near, o[:, :, None], -np.inf).max(axis=(2, 4, 5))  # (B,S,C)
    chmax = np.where(notfinite, -np.inf, o).max(axis=(-2, -1))
    has_fin = fin.any(axis=2)
    bad_near = has_fin & (chmax > at_near + EPS_MAX)
    S = out.shape[1]
    mixed = None
    for b in range(B):
        if notfinite[b].any():
            i = first(notfinite[b], b)
            msgs[b] = f"[non-finite] output value {out[b][i]} at (sample,channel,row,col)={i}"
        elif bad_rng[b].any():
            i = first(bad_rng[b], b)
            msgs[b] = f"[range] output value {out[b][i]!r} outside [0,1] at (sample,channel,row,col)={i}"
        elif bad_zero[b].any():
            i = first(bad_zero[b], b)
            msgs[b] = f"[missing-not-zero] channel with only missing keypoints has value {out[b][i]!r} at (sample,channel,row,col)={i}"
        elif bad_val[b].any():
            i = first(bad_val[b], b)
            m = f"[value] got {float(out[b][i])!r} expected {float(ref[b][i])!r} at (sample,channel,row,col)={i}"
            if S > 1:
                if mixed is None:
                    mixed = ref.max(axis=1, keepdims=True)
                if np.all(np.abs(o[b] - mixed[b]) <= ATOL + RTOL * np.abs(mixed[b])):
                    m += " [sample-mixing signature: every sample equals the per-cell max over ALL samples' animals]"
            msgs[b] = m
        elif bad_near[b].any():
            i = first(bad_near[b], b)
            msgs[b] = (
                f"[nearest-cell] channel max {float(chmax[b][i])!r} exceeds the value {float(at_near[b][i])!r} at the grid "
                f"cell(s) nearest its keypoint(s), (sample,channel)={i}"
            )
    return msgs


def expected_shape(variant, samp_b, cfg):
    H, W, s, _ = cfg
    S, Ap, N, _ = samp_b.shape
    C = Ap * N if KIND[variant] == "single4" else N
    return (S, C, H // s, W // s)


def evaluate(variant, cfg, samp, A, results):
    """Per-row verdicts for one executed batch -> ({row: msg}, outs list)."""
    B = samp.shape[0]
    msgs, good, outs = {}, [], [None] * B
    for b, (out, issue, exc) in enumerate(results):
        if exc:
            msgs[b] = exc
            continue
        if out is None:
            msgs[b] = issue or "no output"
            continue
        exp = expected_shape(variant, samp[b], cfg)
        H_, W_, s_, _ = cfg
        # a size that is not a multiple of the stride: "H/stride" is read as either floor or ceil (every cell of the
        # returned grid is then checked against the Gaussian at (col*stride, row*stride))
        alt = exp[:2] + (-(-H_ // s_), -(-W_ // s_))
        if tuple(out.shape) != exp and tuple(out.shape) != alt:
            msgs[b] = f"[shape] output shape {tuple(out.shape)} expected {exp}" + ("" if alt == exp else f" or {alt}")
            continue
        if out.dtype != np.float32:
            msgs[b] = f"[dtype] output dtype {out.dtype}"
            continue
        outs[b] = out
        good.append(b)
        if issue:
            msgs[b] = "[side-effect] " + issue
    if good:
        o = np.stack([outs[b] for b in good])
        m = check(o, normalise(variant, samp[good]), cfg)
        for k, msg in m.items():
            msgs.setdefault(good[k], msg)
    return msgs, outs


def make_case(variant, cfg, A, samp_b, preceded_by=None):
    H, W, s, sigma = cfg
    c = {
        "variant": variant, "H": H, "W": W, "stride": s, "sigma": sigma, "num_instances": A,
        "pts": to_tensor(variant, samp_b).numpy().astype(np.float64),
    }
    if preceded_by is not None:
        c["preceded_by"] = [to_tensor(variant, p).numpy().astype(np.float64) for p in preceded_by]
    return c


def run_alone(variant, cfg, A, samp_b):
    res, _ = execute(variant, cfg, samp_b[None], A)
    msgs, _ = evaluate(variant, cfg, samp_b[None], A, res)
    return msgs.get(0)


def localise(variant, cfg, A, samp, b):
    """A violation seen in row b of a batch: smallest case that reproduces it."""
    if run_alone(variant, cfg, A, samp[b]) is not None:
        return make_case(variant, cfg, A, samp[b])
    if variant in BATCHED:
        for j in range(samp.shape[0]):
            if j == b:
                continue
            pair = np.concatenate([samp[j], samp[b]], axis=0)  # (2,Ap,N,2): two samples of one call
            if run_alone(variant, cfg, A, pair) is not None:
                return make_case(variant, cfg, A, pair)
        return make_case(variant, cfg, A, samp[:, 0])  # the whole batch as n_samples=B
    return make_case(variant, cfg, A, samp[b], preceded_by=[samp[j] for j in range(b)])


# ---------------------------------------------------------------------------
# exploration

def process_batch(part, variant, cfg, A, samp):
    H, W, s, sigma = cfg
    B = samp.shape[0]
    results, calls = execute(variant, cfg, samp, A)
    part.transition(calls)
    part.count(B)
    part.add("sample_maps_checked", B * samp.shape[1])
    nt = nontrivial_mask(samp.reshape(B, -1, 1, 2), cfg)
    head = f"{variant}|{H}|{W}|{s}|{sigma}|{A}|{samp.shape[1:]}|".encode()
    s32 = samp.astype(np.float32)
    msgs, outs = evaluate(variant, cfg, samp, A, results)
    first_nt = int(np.argmax(nt)) if nt.any() else None
    for b in range(B):
        k = int.from_bytes(hashlib.blake2b(head + s32[b].tobytes(), digest_size=8).digest(), "big")
        part.state(k)
        if nt[b]:
            part.nontriv(k)
        if outs[b] is not None:
            part.outcome(int.from_bytes(hashlib.blake2b(outs[b].tobytes(), digest_size=8).digest(), "big"))
        if b in (0, B - 1) or b == first_nt:
            part.sample(make_case(variant, cfg, A, samp[b]), bool(nt[b]))
    for b in sorted(msgs):
        if len(part.viol) < 200:
            case = localise(variant, cfg, A, samp, b)
        else:
            case = {"variant": variant, "overflow": True}
        ns = f"{B} (cases batched through the samples axis)" if variant in BATCHED else str(samp.shape[1])
        part.violation(case, f"{variant} H={H} W={W} stride={s} sigma={sigma} n_samples={ns}: {msgs[b]}")
        tag = msgs[b][1:].split("]")[0] if msgs[b].startswith("[") else "raised"
        part.add(f"violations::{variant}::n_samples={samp.shape[1]}::{tag}", 1)


def spec_samples(spec, idx):
    variant, H, W, s, sigma, A, N, p, S, names, lo, hi = spec
    alphs = [alphabet(n, H, W) for n in names]
    total = int(np.prod([len(a) for a in alphs]))

    def rows(ix):
        r = np.zeros((len(ix), 0, N, 2)) if A == 0 else gen_rows(alphs, ix).reshape(len(ix), A, N, 2)
        if p:
            r = np.concatenate([r, np.full((len(ix), p, N, 2), NAN)], axis=1)
        return r

    a = rows(idx)
    if S == 1:
        return a[:, None]
    return np.stack([a, rows((idx + 1) % total)], axis=1)


def run_spec(part, spec):
    variant, H, W, s, sigma, A, N, p, S, names, lo, hi = spec
    for b0 in range(lo, hi, BATCH):
        idx = np.arange(b0, min(b0 + BATCH, hi))
        process_batch(part, variant, (H, W, s, sigma), A, spec_samples(spec, idx))


def work(part, shard):
    for spec in shard:
        run_spec(part, spec)


SIGMAS = (0.5, 1.5, 3.0)


def shape_table(tier_part):
    """kind -> list of (A, N, alphabet names per position, pads, n_samples list)."""
    if tier_part == "core":
        return {
            "single3": [(1, 1, ["K"], (0,)), (1, 2, ["R12"] * 2, (0,))],
            "single4": [(1, 2, ["R12"] * 2, (0,)), (2, 1, ["R12"] * 2, (0,)), (2, 2, ["R5"] * 4, (0,))],
            "multi": [(1, 1, ["K"], (0, 1)), (1, 2, ["R12"] * 2, (0, 1)), (2, 1, ["R12"] * 2, (0, 1)), (2, 2, ["R5"] * 4, (0, 1)),
                      (0, 1, [], (1, 2)), (0, 2, [], (1, 3)),  # A = 0: a frame without any labelled animal (only padding slots)
                      (2, 1, ["F", "R5"], (0,)), (1, 2, ["F", "F"], (0, 1))],  # an animal wholly far outside the frame
            "cent": [(1, 1, ["K"], (0, 1)), (2, 1, ["R12"] * 2, (0, 1)), (0, 1, [], (1, 2, 3)), (2, 1, ["F", "R5"], (0,))],
        }
    if tier_part == "heavy":
        return {
            "single3": [(1, 1, ["L"], (0,)), (1, 2, ["K", "R12"], (0,)), (1, 3, ["R12"] * 3, (0,))],
            "single4": [(2, 2, ["R6"] * 4, (0,)), (2, 3, ["R4"] * 6, (0,)), (3, 2, ["R4"] * 6, (0,))],
            "multi": [
                (1, 1, ["L"], (0,)), (1, 2, ["K", "R12"], (0,)), (2, 1, ["K", "R12"], (0,)), (2, 2, ["R6"] * 4, (0,)),
                (1, 3, ["R12"] * 3, (0,)), (3, 1, ["R12"] * 3, (0,)), (2, 3, ["R4"] * 6, (0,)), (3, 2, ["R4"] * 6, (0,)),
            ],
            "cent": [(1, 1, ["L"], (0,)), (2, 1, ["K", "R12"], (0,)), (3, 1, ["R12"] * 3, (0,))],
        }
    raise KeyError(tier_part)


def plan(tier):
    specs = []

    def add(variant, H, W, s, sigma, A, N, names, p, S):
        total = 1
        for n in names:
            total *= len(alphabet(n, H, W))
        for lo in range(0, total, CHUNK):
            specs.append((variant, H, W, s, sigma, A, N, p, S, tuple(names), lo, min(total, lo + CHUNK)))

    if tier == "quick":
        sizes = [(4, 4), (8, 8), (4, 8), (12, 4), (8, 12)]
        core_cfgs = [(H, W, s) for (H, W) in sizes for s in (1, 2, 4)]
        core_cfgs += [(6, 10, 4), (7, 5, 2)]  # sizes that are not multiples of the stride
        heavy_cfgs, nine_cfgs = [], []
    else:
        sizes = [(H, W) for H in (4, 8, 12) for W in (4, 8, 12)]
        core_cfgs = [(H, W, s) for (H, W) in sizes for s in (1, 2, 4)]
        core_cfgs += [(H, W, 8) for (H, W) in [(8, 8), (8, 16), (16, 8), (24, 16), (16, 24)]]
        core_cfgs += [(6, 10, 4), (7, 5, 2), (9, 12, 4), (10, 7, 4), (5, 5, 2), (12, 20, 8)]  # not multiples of the stride
        heavy_cfgs = [(H, W, s) for (H, W) in [(8, 12), (12, 8)] for s in (1, 2, 4)] + [(16, 24, 8)]
        nine_cfgs = heavy_cfgs
    for (H, W, s) in core_cfgs:
        for sigma in SIGMAS:
            for variant, kind in KIND.items():
                for (A, N, names, pads) in shape_table("core")[kind]:
                    for p in pads:
                        for S in ((1,) if variant in BATCHED else (1, 2)):
                            add(variant, H, W, s, sigma, A, N, names, p, S)
    for (H, W, s) in heavy_cfgs:
        for sigma in SIGMAS:
            for variant, kind in KIND.items():
                for (A, N, names, pads) in shape_table("heavy")[kind]:
                    if not variant.startswith("generate_") and names != ["L"]:
                        continue  # DataPipes: lattice only in the heavy part
                    add(variant, H, W, s, sigma, A, N, names, 0, 1)
    for (H, W, s) in nine_cfgs:
        add(V_GM, H, W, s, 1.5, 3, 3, ["R3"] * 9, 0, 1)
    bounds = {
        "variants": list(KIND),
        "core_configs(H,W,stride)": core_cfgs, "sigmas": list(SIGMAS),
        "core_shapes": {k: [(A, N, "x".join(n), list(p)) for A, N, n, p in v] for k, v in shape_table("core").items()},
        "n_samples": "1 and 2 per call (generate_confmaps: up to 256 cases through the samples axis of one call)",
    }
    if heavy_cfgs:
        bounds["heavy_configs(H,W,stride)"] = heavy_cfgs
        bounds["heavy_shapes"] = {k: [(A, N, "x".join(n)) for A, N, n, p in v] for k, v in shape_table("heavy").items()}
        bounds["3x3_shape"] = "R3^9 through generate_multiconfmaps, sigma 1.5, heavy configs"
    return specs, bounds


def history_calls():
    """Configurations whose grids collide in shape (and sigma*stride) but not in coordinates; 1-2 animals with a missing node."""
    out = []
    for (hw, stride, sigma) in [((8, 12), 1, 1.5), ((16, 24), 2, 1.5), ((32, 48), 4, 1.5), ((8, 12), 2, 3.0), ((4, 6), 1, 3.0), ((16, 24), 2, 0.75), ((12, 8), 1, 1.5), ((24, 16), 2, 1.5)]:
        f = hw[1] / 12.0
        inst = [[[2.5 * f, 1.5 * f], [8.5 * f, 5.25 * f]], [[10.0 * f, 1.0 * f], [float("nan"), float("nan")]]]
        for fn in ("single", "multi", "centroid"):
            out.append((f"{fn}(hw={hw},stride={stride},sigma={sigma})", {"fn": fn, "inst": inst, "hw": hw, "stride": stride, "sigma": sigma}))
    return out


def history_run(entry):
    import torch

    from sleap_nn.data.confidence_maps import generate_confmaps, generate_multiconfmaps

    c = entry[1]
    inst = torch.tensor([c["inst"]], dtype=torch.float32)  # (1, 2 animals, 2 nodes, 2)
    if c["fn"] == "single":
        return generate_confmaps(inst[:, 0], img_hw=tuple(c["hw"]), sigma=c["sigma"], output_stride=c["stride"])
    if c["fn"] == "multi":
        return generate_multiconfmaps(inst, img_hw=tuple(c["hw"]), num_instances=2, sigma=c["sigma"], output_stride=c["stride"], is_centroids=False)
    return generate_multiconfmaps(inst[:, :, 0], img_hw=tuple(c["hw"]), num_instances=2, sigma=c["sigma"], output_stride=c["stride"], is_centroids=True)

def run(ctx):
    core.setup_torch()
    # E2 part first (the parent has not called the functions yet): every ordered pair / triple of a small call alphabet
    # in forked children, each result compared with the same call in a fresh process (history-dependent state)
    from mc import history as _history

    _history.search(ctx, history_calls(), history_run, depth=2 if ctx.tier == "quick" else 3)
    import sleap_nn

    ctx.notes.append(f"sleap_nn imported from {sleap_nn.__file__}")
    specs, bounds = plan(ctx.tier)
    ctx.bounds = bounds
    ctx.bounds["work_items"] = len(specs)
    ctx.bounds["cases_planned"] = int(sum(sp[-1] - sp[-2] for sp in specs))
    # R3: the first execution twice, identical observations
    sp = next(s for s in specs if s[8] == 1)
    samp = spec_samples(sp, np.arange(sp[-2], min(sp[-1], sp[-2] + 32)))
    cfg = (sp[1], sp[2], sp[3], sp[4])
    r1, _ = execute(sp[0], cfg, samp, sp[5])
    r2, _ = execute(sp[0], cfg, samp, sp[5])
    d1 = [None if o is None else o.tobytes() for o, _, _ in r1]
    d2 = [None if o is None else o.tobytes() for o, _, _ in r2]
    if d1 != d2:
        raise RuntimeError("non-deterministic observation on repeating the first execution")
    specs = core.rotate(specs, ctx.seed)
    core.pmap(ctx, work, core.shard_list(specs, 64))


def replay(case):
    if isinstance(case, dict) and case.get("kind") == "history":
        core.setup_torch()
        from mc import history as _history

        return _history.replay(case, history_calls(), history_run)
    core.setup_torch()
    variant = case["variant"]
    cfg = (int(case["H"]), int(case["W"]), int(case["stride"]), float(case["sigma"]))
    A = int(case["num_instances"])
    samp_b = from_tensor_list(variant, case["pts"])
    pre = [from_tensor_list(variant, p) for p in case.get("preceded_by", [])]
    if pre:
        tensors = [to_tensor(variant, p) for p in pre] + [to_tensor(variant, samp_b)]
        try:
            o, i = call_dp(variant, cfg, tensors, A)[-1]
            res = [(o, i, None)]
        except Exception as e:
            res = [(None, None, f"raised {type(e).__name__}: {e}")]
    else:
        res, _ = execute(variant, cfg, samp_b[None], A)
    msgs, outs = evaluate(variant, cfg, samp_b[None], A, res)
    ref, _, _ = reference(normalise(variant, samp_b[None]), cfg)
    small = outs[0] is not None and outs[0].size <= 512
    return {
        "variant": variant, "config": {"H": cfg[0], "W": cfg[1], "stride": cfg[2], "sigma": cfg[3], "num_instances": A},
        "input_shape": list(np.asarray(case["pts"]).shape),
        "output_shape": None if outs[0] is None else list(outs[0].shape),
        "output": outs[0] if small else "(omitted: large)",
        "reference": ref[0] if small else "(omitted: large)",
        "error": msgs.get(0),
        "violates": 0 in msgs,
    }
