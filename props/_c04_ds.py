"""C04 helpers: synthetic label sets for the four Dataset classes and the per-class observation points.

Scene kinds (2 labelled frames each, 3-node skeleton, every drawn blob is a Gaussian of the given sigma):
  multi  : frame 0 = two animals (second one may have missing nodes), frame 1 = one animal with a missing node;
           one blob per visible keypoint.
  single : one animal per frame; one blob per visible keypoint.
  anchor : animals as in `multi`, but ONLY node 0 of each animal is drawn (the centroid model's keypoint when
           anchor_part = 0).
  mid    : animals as in `multi`, but only the midpoint of each animal's bounding box is drawn (the centroid
           model's keypoint when anchor_part = None).
"""
from __future__ import annotations

import numpy as np

from props import _c04_reg as R
from props import _scenes as S

NAN = float("nan")
K = 3
RGB_GAIN = (1.0, 0.8, 0.6)  # distinct channels: sleap-io stores an all-equal-channel PNG as grayscale


def sigma_for(tot):
    """Blob sigma in the source so that it stays >= 1.5 px after all scaling (localisation, not registration,
    would be measured otherwise)."""
    if tot >= 0.75:
        return 2.0
    if tot >= 0.5:
        return 3.0
    if tot >= 1.0 / 3.0:
        return 4.5
    return round(1.5 / tot, 3)


def points_for(H, W, sigma):
    return R.grid_points(H, W, pitch=max(7.0, 4.5 * sigma), inset=max(4.0, 1.5 * sigma))


def _pad(p):
    p = [tuple(q) for q in p][:K]
    return p + [(NAN, NAN)] * (K - len(p))


def scene(H, W, sigma, kind):
    """-> list of frames: {"instances": [[(x,y)]*K, ...], "blobs": [(x,y), ...]}."""
    pts = points_for(H, W, sigma)
    a = _pad(pts[0:3])
    b = _pad(pts[3:6]) if len(pts) > 3 else None
    last = list(reversed(pts[-3:]))
    c = _pad(last)
    if len(last) >= 2:
        c[1] = (NAN, NAN)
    if kind == "single":
        frames = [[a], [c]]
    else:
        frames = [[a] + ([b] if b is not None else []), [c]]
    out = []
    for insts in frames:
        if kind in ("multi", "single"):
            blobs = [p for inst in insts for p in inst if not np.isnan(p[0])]
        elif kind == "anchor":
            blobs = [inst[0] for inst in insts]
        elif kind == "mid":
            blobs = [centroid_src(inst, None) for inst in insts]
        else:
            raise KeyError(kind)
        out.append({"instances": insts, "blobs": blobs})
    return out


def centroid_src(inst, anchor):
    """Where the centroid model's keypoint of one animal is in the source frame (property text of the centroid
    definition: the anchor node if it is visible, else the midpoint of the bounding box of the visible nodes)."""
    if anchor is not None and not np.isnan(inst[anchor][0]):
        return tuple(inst[anchor])
    fin = np.array([p for p in inst if not np.isnan(p[0])], dtype=np.float64)
    return (float((fin[:, 0].min() + fin[:, 0].max()) / 2), float((fin[:, 1].min() + fin[:, 1].max()) / 2))


def frame_image(H, W, blobs, sigma, rgb):
    g = R.blob_image(H, W, blobs, sigma=sigma, rgb=False)[..., 0].astype(np.float64)
    if not rgb:
        return g[..., None].astype(np.uint8)
    return np.stack([np.round(g * k) for k in RGB_GAIN], axis=-1).astype(np.uint8)


def labels_path(env, H, W, sigma, kind, rgb):
    """Write (once per env) the .pkg.slp for this scene and return its path."""
    key = (H, W, sigma, kind, bool(rgb))
    if key not in env["files"]:
        frames = [
            {"image": frame_image(H, W, fr["blobs"], sigma, rgb), "instances": [np.array(i, dtype=np.float64) for i in fr["instances"]]}
            for fr in scene(H, W, sigma, kind)
        ]
        name = f"s{H}x{W}_{str(sigma).replace('.', 'p')}_{kind}_{int(bool(rgb))}"
        env["files"][key] = S.write_labels(env["tmp"], frames, S.make_skeleton(K), name=name)
    return env["files"][key]


def mv_frames(sizes, sigmas, kind):
    """Two-video label set: frame 0 is frame 0 of the scene drawn at sizes[0], frame 1 is frame 1 of the scene at sizes[1]."""
    return [scene(sizes[0][0], sizes[0][1], sigmas[0], kind)[0], scene(sizes[1][0], sizes[1][1], sigmas[1], kind)[1]]


def labels_path_mv(env, sizes, sigmas, kind, rgb):
    """.pkg.slp over two videos of different frame sizes (every labelled frame is frame 0 of its own video)."""
    key = ("mv", tuple(map(tuple, sizes)), tuple(sigmas), kind, bool(rgb))
    if key not in env["files"]:
        frs = mv_frames(sizes, sigmas, kind)
        frames = [
            {"image": frame_image(sizes[v][0], sizes[v][1], fr["blobs"], sigmas[v], rgb), "instances": [np.array(i, dtype=np.float64) for i in fr["instances"]], "video": v}
            for v, fr in enumerate(frs)
        ]
        name = "mv" + "_".join(f"{h}x{w}" for h, w in sizes) + f"_{kind}_{int(bool(rgb))}_" + "_".join(str(x).replace(".", "p") for x in sigmas)
        env["files"][key] = S.write_labels(env["tmp"], frames, S.make_skeleton(K), name=name)
    return env["files"][key]


SCENE_OF = {"bottomup": "multi", "single": "single", "centered": "multi"}


def scene_kind(cls, anchor):
    if cls == "centroid":
        return "anchor" if anchor is not None else "mid"
    return SCENE_OF[cls]


def build_dataset(cls, path, is_rgb, max_hw, scale, stride, crop=None, anchor=0, aug=None):
    """Construct the real Dataset exactly the way the trainer does (tests/data/test_custom_datasets.py)."""
    import sleap_io as sio
    from omegaconf import DictConfig, OmegaConf

    from sleap_nn.data.custom_datasets import BottomUpDataset, CenteredInstanceDataset, CentroidDataset, SingleInstanceDataset

    cfg = {
        "user_instances_only": True,
        "preprocessing": {"max_height": max_hw[0], "max_width": max_hw[1], "scale": scale, "is_rgb": bool(is_rgb)},
        "use_augmentations_train": aug is not None,
    }
    if aug is not None:
        cfg["augmentation_config"] = aug
    cfg = OmegaConf.create(cfg)
    labels = sio.load_slp(path)
    common = dict(labels=labels, data_config=cfg, max_stride=stride, scale=scale, apply_aug=aug is not None, max_hw=tuple(max_hw))
    if cls == "bottomup":
        return BottomUpDataset(
            confmap_head_config=DictConfig({"sigma": 1.5, "output_stride": 1}), pafs_head_config=DictConfig({"sigma": 4, "output_stride": 1}), **common
        )
    if cls == "single":
        return SingleInstanceDataset(confmap_head_config=DictConfig({"sigma": 1.5, "output_stride": 1}), **common)
    if cls == "centroid":
        return CentroidDataset(confmap_head_config=DictConfig({"sigma": 1.5, "output_stride": 1, "anchor_part": anchor}), **common)
    if cls == "centered":
        return CenteredInstanceDataset(
            crop_hw=tuple(crop), confmap_head_config=DictConfig({"sigma": 1.5, "output_stride": 1, "anchor_part": anchor}), **common
        )
    raise KeyError(cls)


def sample_index(cls, frames):
    """Dataset index -> (frame, instance or None), in the order the classes enumerate their samples."""
    if cls == "centered":
        return [(f, i) for f, fr in enumerate(frames) for i in range(len(fr["instances"]))]
    return [(f, None) for f in range(len(frames))]


def observe(cls, sample, frames, f, i, anchor):
    """-> (image tensor, (N,2) output keypoints, (N,2) their source coordinates, both_ways)."""
    fr = frames[f]
    if cls in ("bottomup", "single"):
        kps = sample["instances"].reshape(-1, 2).numpy().astype(np.float64)
        src = np.full((len(kps), 2), np.nan)
        flat = [p for inst in fr["instances"] for p in inst]
        src[: len(flat)] = np.array(flat, dtype=np.float64)
        return sample["image"], kps, src, True
    if cls == "centroid":
        kps = sample["centroids"].reshape(-1, 2).numpy().astype(np.float64)
        src = np.full((len(kps), 2), np.nan)
        cs = [centroid_src(inst, anchor) for inst in fr["instances"]]
        src[: len(cs)] = np.array(cs, dtype=np.float64)
        return sample["image"], kps, src, True
    kps = sample["instance"].reshape(-1, 2).numpy().astype(np.float64)
    src = np.array(fr["instances"][i], dtype=np.float64)
    return sample["instance_image"], kps, src, len(fr["instances"]) == 1
