"""C10 — well-separated animals keep their identity across frames.

E2 over *admissible* histories: BFS by depth on the REAL Tracker, detections drift 1-2 px
per frame, every per-frame order of the detection list is an event.  A history is
admissible (the property's class) iff (i) a never-seen animal only appears in a frame in
which every previously seen animal is present and (ii) an animal reappears only after an
absence of fewer than `window_size` frames.  Admissibility is computed from the history
alone (not from the tracker's queue), so a corrupted queue cannot excuse a switch.
"""
from __future__ import annotations

from mc import core
from props import _tracking as T

LEVEL = "model_checking"
RULE = (
    "BFS by depth over admissible frame histories (every ordered list of distinct animals per frame, drifting "
    "positions) on the real Tracker; states merged on (tracker canonical state incl. entry frame indices, identity "
    "map, last-seen table); oracle on every transition: each detected animal carries the track it first received, "
    "tracks of different animals differ, a newcomer's track was never held before (plus all C09 invariants); "
    "non-trivial = the frame contains a previously seen animal (identity has to be carried over)"
)
ASSUMPTIONS = [
    "animals >= 90 px apart, drift <= 2 px/frame, body size ~14 px (IoU/OKS/negative distance all prefer the own track)",
    "fast scenario (distance-scoring configurations only): animals 100 px apart, all moving 30 px per frame in parallel, single-frame absences, at most one absent frame per animal among the last window+2 frames - so the cumulative displacement exceeds the separation within the frame bound while each step stays far below it (stale-history bugs need this to show within a short history)",
    "stride scenario (OKS configurations only): animals 100 px apart moving 12 px per frame in parallel with the fast scenario's absence rule; the own-track OKS is then ~1e-75 (~1e-300 after an absent frame) - positive in double precision, exactly 0 for every other animal",
    "diag scenario (IoU configurations only): bounding boxes of 12x14 px separated along both axes by 17 px (diagonal neighbours, centres 42 px apart), common drift of (1, 0.5) px/frame",
    "absence counted in frames (empty frames included), which is never more lenient than the tracker's own queue-entry count",
    "bounds: quick K=3,F=3 and K=2,F=5, windows {2,3}; thorough K=3,F=5 and K=2,F=7, windows {1,2,3}, reductions {mean,max}",
    "state merging validated by replaying a 1-in-13 subset of merged histories on fresh trackers",
]


def admissible(ev, seen_last, frame, window, fast=False, hist=()):
    """ev: list of (animal, score). seen_last: animal -> last frame seen. hist: the frames so far."""
    present = {a for a, _ in ev}
    newcomers = [a for a in present if a not in seen_last]
    if newcomers and not all(a in present for a in seen_last):
        return False
    for a in present:
        if a in seen_last:
            gap = frame - seen_last[a] - 1
            if not gap < window:
                return False
            if fast:
                # fast movers: "movement between detections << separation" only holds if detections are not thinned out:
                # single-frame absences, and at most one absent frame among the last window+2 frames since first seen
                if gap > 1:
                    return False
                first = next(i for i, e in enumerate(hist) if any(x[0] == a for x in e))
                lo = max(first, frame - (window + 2))
                absent = sum(1 for f in range(lo, frame) if not any(x[0] == a for x in hist[f]))
                if absent > 1:
                    return False
    return True


def explore(part, cfg, k, depth, fast=False):
    T.MODE["fast"] = fast if fast == "diag" else bool(fast)
    drift = fast if fast in ("diag", "stride") else ("fast" if fast else True)
    events = T.frame_events(k)
    window = cfg["window_size"]
    cfgkey = core.digest(cfg)
    root = T.new_tracker(cfg)
    # node: (history, tracker, ident: animal->track name, last: animal->frame)
    frontier = [([], root, {}, {})]
    T.canon(root, with_frames=True, history=[])
    if not T.INTERNALS_OK["canon"]:
        depth = min(depth, 3 if k == 3 else 5)
        part.add("fallback_tree_search_depth_capped")
    nmerge = 0
    for d in range(depth):
        nxt = {}
        for hist, trk, ident, last in frontier:
            for ev in events:
                if not admissible(ev, last, d, window, fast is True or fast == "stride", hist):
                    part.add("pruned_inadmissible")
                    continue
                t2 = T.clone(trk)
                inputs, out, err = T.step(t2, ev, frame_idx=d, drift=drift)
                part.count()
                part.transition()
                h2 = hist + [ev]
                case = {"cfg": cfg, "history": h2, "k": k, "fast": fast if fast in ("diag", "stride") else bool(fast)}
                carried = any(a in ident for a, _ in ev)
                if carried:
                    part.nontriv(f"{cfgkey}:{h2}")
                part.sample(case, carried and len(ev) > 1)
                if err:
                    part.violation(case, f"{err}; history={h2}")
                    continue
                id2, bad = dict(ident), None
                held = set(ident.values())
                for (a, _), inst in zip(ev, inputs):
                    name = inst.track.name if inst.track is not None else None
                    if a in ident:
                        if name != ident[a]:
                            bad = f"animal {a} had track {ident[a]} and is now returned with track {name}"
                            break
                    else:
                        if name in held:
                            bad = f"newcomer {a} received track {name}, which another animal has already held"
                            break
                        id2[a] = name
                        held.add(name)
                if bad is None and len(set(id2.values())) != len(id2):
                    bad = f"identity map not injective: {id2}"
                part.outcome(repr(tuple(sorted(id2.items()))) + repr(T.observe(ev, out)))
                if bad:
                    part.violation(case, f"{bad}; history={h2}")
                    continue
                l2 = dict(last)
                for a, _ in ev:
                    l2[a] = d
                key = (T.canon(t2, with_frames=True, history=h2), tuple(sorted(id2.items())), tuple(sorted(l2.items())))
                if key in nxt:
                    nmerge += 1
                    if nmerge % 13 == 0:
                        fresh = T.new_tracker(cfg)
                        for i, e in enumerate(h2):
                            T.step(fresh, e, frame_idx=i, drift=drift)
                        part.add("replay_crosschecks")
                        if T.canon(fresh, with_frames=True, history=h2) != key[0]:
                            part.violation(
                                {"harness": "replay", "cfg": cfg, "history": h2},
                                f"HARNESS: state via clone chain differs from replay on a fresh tracker for {h2}",
                            )
                    continue
                nxt[key] = (h2, t2, id2, l2)
                part.state(f"{cfgkey}:{key}")
        frontier = list(nxt.values())
    part.add("merged_transitions", nmerge)
    part.maxi("max_depth", depth)


def work(part, shard):
    for job in shard:
        explore(part, *job)


def run(ctx):
    core.setup_torch()
    if ctx.tier == "quick":
        cfgs = T.all_configs(windows=[2, 3], thresholds=[0.0])
        jobs = [(c, 3, 3) for c in cfgs] + [(c, 2, 5) for c in cfgs]
        jobs += [(c, 2, 6, True) for c in cfgs if c["scoring_method"] == "euclidean_dist"]
        # options otherwise only varied in the thorough tier, at a small depth: reduction 'max', window 1
        jobs += [(c, 2, 4) for c in T.all_configs(windows=[1, 2], thresholds=[0.0], reductions=("max",))]
        jobs += [(c, 2, 5, "stride") for c in cfgs if c["scoring_method"] == "oks"] + [(c, 3, 3, "stride") for c in cfgs if c["scoring_method"] == "oks"]
        jobs += [(c, 3, 3, "diag") for c in cfgs if c["scoring_method"] == "iou"] + [(c, 2, 5, "diag") for c in cfgs if c["scoring_method"] == "iou"]
        ctx.bounds = {"K3_frames": 3, "K2_frames": 5, "K2_frames_fast_scenario": 6, "diag_scenario": "K3x3, K2x5 frames (IoU configs)", "configs": len(cfgs)}
    else:
        cfgs = T.all_configs(windows=[1, 2, 3], thresholds=[0.0], reductions=("mean", "max"))
        jobs = [(c, 3, 5) for c in cfgs] + [(c, 2, 7) for c in cfgs]
        jobs += [(c, 2, 8, True) for c in cfgs if c["scoring_method"] == "euclidean_dist"]
        jobs += [(c, 3, 5, True) for c in cfgs if c["scoring_method"] == "euclidean_dist"]
        jobs += [(c, 2, 7, "stride") for c in cfgs if c["scoring_method"] == "oks"] + [(c, 3, 5, "stride") for c in cfgs if c["scoring_method"] == "oks"]
        jobs += [(c, 3, 5, "diag") for c in cfgs if c["scoring_method"] == "iou"] + [(c, 2, 7, "diag") for c in cfgs if c["scoring_method"] == "iou"]
        ctx.bounds = {"K3_frames": 5, "K2_frames": 7, "K2_frames_fast_scenario": 8, "K3_frames_fast_scenario": 5, "diag_scenario": "K3x5, K2x7 frames (IoU configs)", "configs": len(cfgs)}
    jobs = core.rotate(jobs, ctx.seed)
    core.pmap(ctx, work, [[j] for j in jobs])


def replay(case):
    if case.get("harness"):
        return {"violates": True, "note": "harness self-check failure", "case": case}
    cfg = case["cfg"]
    fast = case.get("fast") if case.get("fast") in ("diag", "stride") else bool(case.get("fast"))
    T.MODE["fast"] = fast
    drift = fast if fast in ("diag", "stride") else ("fast" if fast else True)
    trk = T.new_tracker(cfg)
    ident, log = {}, []
    for i, ev in enumerate(case["history"]):
        ev = [tuple(x) for x in ev]
        inputs, out, err = T.step(trk, ev, frame_idx=i, drift=drift)
        names = [None if (err or x.track is None) else x.track.name for x in inputs]
        log.append({"frame": i, "event": ev, "tracks": names, "error": err})
        if err:
            return {"violates": True, "log": log}
        held = set(ident.values())
        for (a, _), n in zip(ev, names):
            if a in ident and ident[a] != n:
                return {"violates": True, "log": log, "switch": f"{a}: {ident[a]} -> {n}"}
            if a not in ident:
                if n in held:
                    return {"violates": True, "log": log, "switch": f"newcomer {a} got held track {n}"}
                ident[a] = n
                held.add(n)
    return {"violates": False, "log": log}
