"""C20 — config builders reflect every argument; normalisation lossless and idempotent; validators reject.

E1, exhaustive within the bound.  Every case drives the REAL code:

* ``builder``  one of get_data_config / get_model_config / get_trainer_config called with a set of keyword
  deviations from its defaults (all single deviations over 2-3 values per argument, all pairs inside the
  interacting groups [quick] / all pairs inside the builder [thorough], every backbone preset x every head
  string, dict forms with every single field deviation, every pre-trained-weights name x every preset of its
  family, lr-scheduler forms x optimizer x learning rate, every ORDERED augmentation list without repetition).
  The builder result is compared leaf by leaf against the reference tree (table ARG -> config path written
  from the docstrings + docs/config.md; every other leaf = default found by introspecting the attrs schema),
  then the three sections are assembled into a TrainingJobConfig -> to_sleap_nn_cfg() (DictConfig compared with
  the same reference tree) -> verify_training_cfg twice (no value changes, idempotent, input not mutated,
  YAML text stable) -> OmegaConf.save / OmegaConf.load on a real file (loaded == original) -> verify (== original).
* ``aug`` / ``backbone`` / ``head``  the sub-builders called directly (attrs level).
* ``invalid``  one invalid value in one validated field, through the class constructor and through every
  builder path that reaches that field: must raise.  ``valid``: the boundary values next to them must be accepted.
* ``oneof``  every subset of backbone / head types through BackboneConfig / HeadConfig (<=1 accepted, >=2 must
  raise) and the ``oneof`` decorator itself on a local attrs class in both ``must_be_set`` modes.

The oracle never looks at the builder bodies: the effective value of an argument the caller does not pass is the
default in the builder's *signature*; where it goes comes from the hand-written table below.
"""
from __future__ import annotations

import inspect
import itertools
import json
import os
import shutil
import tempfile

from mc import core

LEVEL = "model_checking"
RULE = (
    "one case = one call of a real builder / constructor with a set of keyword deviations (or one invalid field "
    "value, or one subset of oneof members), followed for builder cases by assembly, verify x2 and a YAML file "
    "round trip; a case is non-trivial when at least one argument deviates from the builder's signature default, or "
    "it is an invalid-value / oneof case (the all-default baselines are the only trivial ones); distinct = distinct "
    "canonical JSON of the case"
)
ASSUMPTIONS = [
    "history part: operations are builder calls from a 39-call alphabet and in-place mutation of every leaf of a returned config object; every ordered pair (build, customise, build) is executed in a forked child starting from the unmutated library state and compared with that state's result (shared mutable defaults / caches across calls break 'every unspecified option gets the schema default')",
    "argument alphabets: 2-3 well-typed non-default values per argument (strings include YAML-hostile ones: 'null', "
    "'true', '123', '1e5', '~', '0x1F', paths with blanks and colons; floats include 1e-5 / 1e-8); values outside the "
    "alphabets and OmegaConf interpolation strings ('${..}') are outside the bound",
    "deviation sets: all singles; all pairs inside the interacting groups (quick) or inside each builder (thorough); "
    "triples only inside the preprocessing, checkpoint and wandb groups (thorough); sections are varied one at a time "
    "against a fixed base for the other two (unet + centered_instance, default trainer, default data)",
    "augmentation lists: every ordered list without repetition of the 4 intensity names (65 incl. empty) and of the 5 "
    "geometric names (326 incl. empty); crossed with {None, each single name, the full list} of the other axis (quick) "
    "or with every ordered list of the other axis (thorough, attrs level)",
    "'enabled' for a named augmentation = its probability field is in (0, 1] and, for rotation / scale / translate, "
    "its own range is non-degenerate (rotation != 0; scale[0] != scale[1]; translate_width or _height > 0); affine "
    "parameters of components that are NOT named may be either the schema default or neutral (0, (1,1), None)",
    "out-of-range probabilities include not-a-number (a value for which neither v < 0 nor v > 1 holds)",
    "oneof members are passed by keyword, positionally, and mixed (first positionally, rest by keyword)",
    "'reject' = the constructor / builder raises (any exception type; the type is recorded in the outcome census); "
    "verify_training_cfg on an already-assembled invalid DictConfig is only observed (obs_* counters), the property "
    "speaks about configuration objects",
    "lr_scheduler=None may be represented as None or as a scheduler section whose members are all None",
]
MIN_OUTCOMES = 50
KNOWN_PREDICATES = {}


# ---------------------------------------------------------------------------------------------------------------
# reference table  argument -> config path(s)   (from the builder docstrings and docs/config.md; NOT from the bodies)

DATA_PATHS = {
    "train_labels_path": ["train_labels_path"],
    "val_labels_path": ["val_labels_path"],
    "test_file_path": ["test_file_path"],
    "provider": ["provider"],
    "user_instances_only": ["user_instances_only"],
    "data_pipeline_fw": ["data_pipeline_fw"],
    "np_chunks_path": ["np_chunks_path"],
    "litdata_chunks_path": ["litdata_chunks_path"],
    "use_existing_chunks": ["use_existing_chunks"],
    "chunk_size": ["chunk_size"],
    "delete_chunks_after_training": ["delete_chunks_after_training"],
    "is_rgb": ["preprocessing.is_rgb"],
    "scale": ["preprocessing.scale"],
    "max_height": ["preprocessing.max_height"],
    "max_width": ["preprocessing.max_width"],
    "crop_hw": ["preprocessing.crop_hw"],
    "min_crop_size": ["preprocessing.min_crop_size"],
    "use_augmentations_train": ["use_augmentations_train"],
    # intensity_aug / geometry_aug -> augmentation_config.{intensity,geometric}: handled by expected_aug
}
DATA_SPECIAL = {"intensity_aug", "geometry_aug"}

MODEL_PATHS = {
    "init_weight": ["init_weights"],
    "pre_trained_weights": ["pre_trained_weights"],
    "pretrained_backbone_weights": ["pretrained_backbone_weights"],
    "pretrained_head_weights": ["pretrained_head_weights"],
    # backbone_config -> backbone_config.<family>, head_configs -> head_configs.<type>: handled below
}
MODEL_SPECIAL = {"backbone_config", "head_configs"}

TRAINER_PATHS = {
    "batch_size": ["train_data_loader.batch_size", "val_data_loader.batch_size"],
    "shuffle_train": ["train_data_loader.shuffle"],
    "num_workers": ["train_data_loader.num_workers", "val_data_loader.num_workers"],
    "ckpt_save_top_k": ["model_ckpt.save_top_k"],
    "ckpt_save_last": ["model_ckpt.save_last"],
    "trainer_num_devices": ["trainer_devices"],
    "trainer_accelerator": ["trainer_accelerator"],
    "enable_progress_bar": ["enable_progress_bar"],
    "steps_per_epoch": ["steps_per_epoch"],
    "max_epochs": ["max_epochs"],
    "seed": ["seed"],
    "use_wandb": ["use_wandb"],
    "save_ckpt": ["save_ckpt"],
    "save_ckpt_path": ["save_ckpt_path"],
    "resume_ckpt_path": ["resume_ckpt_path"],
    "wandb_entity": ["wandb.entity"],
    "wandb_project": ["wandb.project"],
    "wandb_name": ["wandb.name"],
    "wandb_api_key": ["wandb.api_key"],
    "wandb_mode": ["wandb.wandb_mode"],
    "wandb_resume_prv_runid": ["wandb.prv_runid"],
    "wandb_group_name": ["wandb.group"],
    "optimizer": ["optimizer_name"],
    "learning_rate": ["optimizer.lr"],
    "amsgrad": ["optimizer.amsgrad"],
    "early_stopping": ["early_stopping.stop_training_on_plateau"],
    "early_stopping_min_delta": ["early_stopping.min_delta"],
    "early_stopping_patience": ["early_stopping.patience"],
}
TRAINER_SPECIAL = {"lr_scheduler"}

INTENSITY_NAMES = ["uniform_noise", "gaussian_noise", "contrast", "brightness"]
GEOMETRIC_NAMES = ["rotation", "scale", "translate", "erase_scale", "mixup"]
INTENSITY_P = {n: n + "_p" for n in INTENSITY_NAMES}
AFFINE = ("rotation", "scale", "translate")

# preset name -> (family, schema class that declares the preset's values, architecture facts that are public
# knowledge about the torchvision ConvNeXt / Swin variants and are asserted independently of the schema)
PRESETS = {
    "unet": ("unet", "UNetConfig", {}),
    "unet_medium_rf": ("unet", "UNetMediumRFConfig", {"filters_rate": 2, "max_stride": 16, "output_stride": 4}),
    "unet_large_rf": ("unet", "UNetLargeRFConfig", {"filters": 24, "max_stride": 32, "output_stride": 4}),
    "convnext": ("convnext", "ConvNextConfig", {"model_type": "tiny", "arch": {"depths": [3, 3, 9, 3], "channels": [96, 192, 384, 768]}}),
    "convnext_tiny": ("convnext", "ConvNextConfig", {"model_type": "tiny", "arch": {"depths": [3, 3, 9, 3], "channels": [96, 192, 384, 768]}}),
    "convnext_small": ("convnext", "ConvNextSmallConfig", {"model_type": "small", "arch": {"depths": [3, 3, 27, 3], "channels": [96, 192, 384, 768]}}),
    "convnext_base": ("convnext", "ConvNextBaseConfig", {"model_type": "base", "arch": {"depths": [3, 3, 27, 3], "channels": [128, 256, 512, 1024]}}),
    "convnext_large": ("convnext", "ConvNextLargeConfig", {"model_type": "large", "arch": {"depths": [3, 3, 27, 3], "channels": [192, 384, 768, 1536]}}),
    "swint": ("swint", "SwinTConfig", {"model_type": "tiny", "arch": {"embed": 96, "depths": [2, 2, 6, 2], "channels": [3, 6, 12, 24]}}),
    "swint_tiny": ("swint", "SwinTConfig", {"model_type": "tiny", "arch": {"embed": 96, "depths": [2, 2, 6, 2], "channels": [3, 6, 12, 24]}}),
    "swint_small": ("swint", "SwinTSmallConfig", {"model_type": "small", "arch": {"embed": 96, "depths": [2, 2, 18, 2], "channels": [3, 6, 12, 24]}}),
    "swint_base": ("swint", "SwinTBaseConfig", {"model_type": "base", "arch": {"embed": 128, "depths": [2, 2, 18, 2], "channels": [4, 8, 16, 32]}}),
}
FAMILIES = {"unet": "UNetConfig", "convnext": "ConvNextConfig", "swint": "SwinTConfig"}
HEADS = {
    "single_instance": ("SingleInstanceConfig", {"confmaps": "SingleInstanceConfMapsConfig"}),
    "centroid": ("CentroidConfig", {"confmaps": "CentroidConfMapsConfig"}),
    "centered_instance": ("CenteredInstanceConfig", {"confmaps": "CenteredInstanceConfMapsConfig"}),
    "bottomup": ("BottomUpConfig", {"confmaps": "BottomUpConfMapsConfig", "pafs": "PAFConfig"}),
}
CONVNEXT_WEIGHTS = ["ConvNeXt_Tiny_Weights", "ConvNeXt_Small_Weights", "ConvNeXt_Base_Weights", "ConvNeXt_Large_Weights"]
SWINT_WEIGHTS = ["Swin_T_Weights", "Swin_S_Weights", "Swin_B_Weights"]

# ---------------------------------------------------------------------------------------------------------------
# argument alphabets (JSON-able; crop_hw is turned into a tuple when the case is materialised)

DATA_BASE = {"train_labels_path": "train.pkg.slp", "val_labels_path": "val.pkg.slp"}
DATA_VALUES = {
    "train_labels_path": ["/data/my run:1/train.slp", "./data//train.slp"],
    "val_labels_path": ["/data/my run:1/val.slp", "data/../val.slp"],
    "test_file_path": ["test.slp", "/data/my run:1/test.mp4", "./test.slp"],
    "provider": ["VideoReader"],
    "user_instances_only": [False],
    "data_pipeline_fw": ["litdata", "torch_dataset_np_chunks"],
    "np_chunks_path": ["/tmp/np chunks", "123", "./chunks/"],
    "litdata_chunks_path": ["/tmp/ld_chunks", "null", "chunks//ld/"],
    "use_existing_chunks": [True],
    "chunk_size": [1, 4096],
    "delete_chunks_after_training": [False],
    "is_rgb": [True],
    "scale": [0.5, 2.0],
    "max_height": [512, 1],
    "max_width": [768, 1],
    "crop_hw": [[160, 160], [96, 128]],
    "min_crop_size": [None, 32],
    "use_augmentations_train": [True],
}
DATA_GROUPS = [
    ["is_rgb", "scale", "max_height", "max_width", "crop_hw", "min_crop_size"],
    ["data_pipeline_fw", "np_chunks_path", "litdata_chunks_path", "use_existing_chunks", "chunk_size", "delete_chunks_after_training"],
    ["train_labels_path", "val_labels_path", "test_file_path"],
]
DATA_TRIPLE_GROUPS = [["scale", "max_height", "max_width", "crop_hw", "min_crop_size"]]

TRAINER_VALUES = {
    "batch_size": [1, 16],
    "shuffle_train": [False],
    "num_workers": [2, 8],
    "ckpt_save_top_k": [0, -1, 3],
    "ckpt_save_last": [False],
    "trainer_num_devices": [1, 4, [0, 1]],
    "trainer_accelerator": ["cpu", "gpu"],
    "enable_progress_bar": [True],
    "steps_per_epoch": [1, 200],
    "max_epochs": [1, 7],
    "seed": [0, 42],
    "use_wandb": [True],
    "save_ckpt": [True],
    # path-like strings include forms a path library would rewrite (leading ./, trailing /, doubled //, ..)
    "save_ckpt_path": ["/tmp/ckpt dir", "models", "./ckpts/", "models//run_1"],
    "resume_ckpt_path": ["/tmp/x/best.ckpt", "last.ckpt", "./runs/../best.ckpt", "ckpts//last.ckpt"],
    "wandb_entity": ["team-a", "true"],
    "wandb_project": ["proj", "null"],
    "wandb_name": ["run 1", "123"],
    "wandb_api_key": ["abc123def", "0x1F"],
    "wandb_mode": ["offline", "online"],
    "wandb_resume_prv_runid": ["a1b2c3", "1e5"],
    "wandb_group_name": ["grp", "~"],
    "optimizer": ["AdamW"],
    "learning_rate": [1e-5, 0.1],
    "amsgrad": [True],
    "early_stopping": [True],
    "early_stopping_min_delta": [1e-8, 0.5],
    "early_stopping_patience": [0, 10],
}
def od(*pairs):
    """A dict argument whose KEY ORDER is part of the case (JSON objects are written with sorted keys)."""
    return {"__items__": [[k, v] for k, v in pairs]}


def mat(v):
    """Materialise the JSON form of a case value: ordered-dict markers -> dict in that order."""
    if isinstance(v, dict) and "__items__" in v:
        return {k: mat(x) for k, x in v["__items__"]}
    if isinstance(v, dict):
        return {k: mat(x) for k, x in v.items()}
    if isinstance(v, list):
        return [mat(x) for x in v]
    return v


LR_FORMS = [
    "step_lr",
    "reduce_lr_on_plateau",
    {"step_lr": {}},
    {"step_lr": {"step_size": 5}},
    {"step_lr": {"gamma": 0.5}},
    {"step_lr": {"step_size": 20, "gamma": 0.9}},
    od(("step_lr", {"step_size": 3}), ("reduce_lr_on_plateau", None)),
    od(("reduce_lr_on_plateau", None), ("step_lr", {"step_size": 3})),
    {"reduce_lr_on_plateau": {}},
    {"reduce_lr_on_plateau": {"threshold": 1e-6}},
    {"reduce_lr_on_plateau": {"threshold_mode": "abs"}},
    {"reduce_lr_on_plateau": {"cooldown": 3}},
    {"reduce_lr_on_plateau": {"patience": 5}},
    {"reduce_lr_on_plateau": {"factor": 0.5}},
    {"reduce_lr_on_plateau": {"min_lr": 1e-8}},
    {"reduce_lr_on_plateau": {"min_lr": [1e-6, 1e-7]}},
    {"reduce_lr_on_plateau": {"threshold": 1e-6, "threshold_mode": "abs", "cooldown": 3, "patience": 5, "factor": 0.5, "min_lr": 1e-8}},
    od(("step_lr", None), ("reduce_lr_on_plateau", {"patience": 2})),
    od(("reduce_lr_on_plateau", {"patience": 2}), ("step_lr", None)),
]
TRAINER_GROUPS = [
    ["use_wandb", "wandb_entity", "wandb_project", "wandb_name", "wandb_api_key", "wandb_mode", "wandb_resume_prv_runid", "wandb_group_name"],
    ["ckpt_save_top_k", "ckpt_save_last", "save_ckpt", "save_ckpt_path", "resume_ckpt_path"],
    ["early_stopping", "early_stopping_min_delta", "early_stopping_patience"],
    ["batch_size", "shuffle_train", "num_workers"],
    ["optimizer", "learning_rate", "amsgrad"],
]
TRAINER_TRIPLE_GROUPS = [
    ["ckpt_save_top_k", "ckpt_save_last", "save_ckpt", "save_ckpt_path", "resume_ckpt_path"],
    ["use_wandb", "wandb_entity", "wandb_project", "wandb_name", "wandb_api_key", "wandb_mode", "wandb_resume_prv_runid", "wandb_group_name"],
]

MODEL_BASE = {"backbone_config": "unet", "head_configs": "centered_instance"}
MODEL_VALUES = {
    "init_weight": ["xavier"],
    "pretrained_backbone_weights": ["/m/backbone.ckpt", "best.ckpt", "./m//backbone.ckpt"],
    "pretrained_head_weights": ["/m/head weights.ckpt", "123", "m/../head.ckpt"],
}
BACKBONE_FIELD_VALUES = {
    "unet": {
        "in_channels": [3],
        "kernel_size": [5],
        "filters": [16, 64],
        "filters_rate": [2.0, 1.0],
        "max_stride": [8, 32],
        "stem_stride": [2, 4],
        "middle_block": [False],
        "up_interpolate": [False],
        "stacks": [2],
        "convs_per_block": [1, 3],
        "output_stride": [2, 4],
    },
    "convnext": {
        "model_type": ["small", "base", "large"],
        "arch": [{"depths": [3, 3, 27, 3], "channels": [128, 256, 512, 1024]}],
        "stem_patch_kernel": [2, 7],
        "stem_patch_stride": [4],
        "in_channels": [3],
        "kernel_size": [5],
        "filters_rate": [1.5],
        "convs_per_block": [3],
        "up_interpolate": [False],
        "output_stride": [2, 4],
        "max_stride": [32],
    },
    "swint": {
        "model_type": ["small", "base"],
        "arch": [{"embed": 128, "depths": [2, 2, 18, 2], "channels": [4, 8, 16, 32]}],
        "patch_size": [[2, 2]],
        "stem_patch_stride": [4],
        "window_size": [[5, 5]],
        "in_channels": [3],
        "kernel_size": [5],
        "filters_rate": [1.5],
        "convs_per_block": [3],
        "up_interpolate": [False],
        "output_stride": [2, 4],
        "max_stride": [32],
    },
}
HEAD_FIELD_VALUES = {
    "single_instance": {"confmaps": {"part_names": [["a", "b"], ["head"]], "sigma": [2.5, 1.0], "output_stride": [2, 4]}},
    "centroid": {"confmaps": {"anchor_part": [0, 2], "sigma": [2.5, 1.0], "output_stride": [2, 4]}},
    "centered_instance": {"confmaps": {"part_names": [["a", "b"], ["head"]], "anchor_part": [0, 2], "sigma": [2.5, 1.0], "output_stride": [2, 4]}},
    "bottomup": {
        "confmaps": {"part_names": [["a", "b"], ["head"]], "sigma": [2.5, 1.0], "output_stride": [2, 4], "loss_weight": [1.0, 0.5]},
        "pafs": {"edges": [[["a", "b"]], [["a", "b"], ["b", "c"]]], "sigma": [4.0, 30.0], "output_stride": [4, 8], "loss_weight": [1.0, 2.0]},
    },
}
INTENSITY_DICTS = [
    {},
    {"uniform_noise_min": 0.1, "uniform_noise_p": 1.0},
    {"uniform_noise_max": 0.5},
    {"gaussian_noise_mean": 0.5, "gaussian_noise_std": 2.0, "gaussian_noise_p": 0.5},
    {"contrast_min": 0.8, "contrast_max": 1.2, "contrast_p": 0.25},
    {"brightness": [0.8, 1.2], "brightness_p": 1.0},
    {"uniform_noise_p": 0.0, "gaussian_noise_p": 1.0, "contrast_p": 1.0, "brightness_p": 0.0},
]
GEOMETRIC_DICTS = [
    {},
    {"rotation": 45.0, "affine_p": 1.0},
    {"scale": [0.5, 1.5], "affine_p": 0.5},
    {"scale": None, "affine_p": 1.0},
    {"translate_width": 0.1, "translate_height": 0.3, "affine_p": 1.0},
    {"erase_scale_min": 0.001, "erase_scale_max": 0.05, "erase_ratio_min": 0.5, "erase_ratio_max": 2.0, "erase_p": 1.0},
    {"mixup_lambda": [0.1, 0.2], "mixup_p": 0.75},
    {"rotation": 180.0, "scale": [0.9, 1.1, 0.8, 1.2], "translate_width": 0.0, "translate_height": 0.0, "affine_p": 1.0, "erase_p": 0.0, "mixup_p": 0.0},
]

# ---------------------------------------------------------------------------------------------------------------
# access to the real code (imported lazily: an ImportError is a violation of the property, not a harness crash)

_M = {}


def mods():
    if not _M:
        core.setup_torch()
        import attrs
        from omegaconf import OmegaConf

        import sleap_nn
        from sleap_nn import train as T
        from sleap_nn.config import data_config as DC
        from sleap_nn.config import model_config as MC
        from sleap_nn.config import trainer_config as TC
        from sleap_nn.config import training_job_config as TJ
        from sleap_nn.config import utils as U

        try:
            from loguru import logger

            logger.remove()  # the validators log every rejection at ERROR level; silence, do not alter behaviour
        except Exception:
            pass
        _M.update(attrs=attrs, OmegaConf=OmegaConf, T=T, DC=DC, MC=MC, TC=TC, TJ=TJ, U=U, sleap_nn=sleap_nn)
    return _M


class AnyOf:
    """Reference leaf / subtree with several admissible values."""

    def __init__(self, *alts):
        self.alts = alts

    def __repr__(self):
        return "AnyOf" + repr(self.alts)


def plain(v):
    """attrs instance / tuple / OmegaConf-free python value -> nested dict / list / scalar."""
    attrs = mods()["attrs"]
    if attrs.has(type(v)):
        return {a.name: plain(getattr(v, a.name)) for a in attrs.fields(type(v))}
    if isinstance(v, dict):
        return {k: plain(x) for k, x in v.items()}
    if isinstance(v, (list, tuple)):
        return [plain(x) for x in v]
    return v


def schema_default(cls):
    """Defaults declared by the attrs schema, by introspection of the class (never by calling a builder)."""
    attrs = mods()["attrs"]
    out = {}
    for a in attrs.fields(cls):
        d = a.default
        if d is attrs.NOTHING:
            out[a.name] = "???"
        elif isinstance(d, attrs.Factory):
            out[a.name] = plain(d.factory())
        else:
            out[a.name] = plain(d)
    return out


def leaf_eq(e, o):
    """Argument value vs observed value: bool / str / None strict, numbers by value, tuples == lists."""
    if isinstance(e, AnyOf):
        return any(leaf_eq(a, o) for a in e.alts)
    if isinstance(e, (list, tuple)):
        return isinstance(o, (list, tuple)) and len(e) == len(o) and all(leaf_eq(a, b) for a, b in zip(e, o))
    if isinstance(e, dict):
        return isinstance(o, dict) and sorted(e) == sorted(o) and all(leaf_eq(e[k], o[k]) for k in e)
    if e is None or o is None:
        return e is None and o is None
    if isinstance(e, bool) or isinstance(o, bool):
        return isinstance(e, bool) and isinstance(o, bool) and e == o
    if isinstance(e, str) or isinstance(o, str):
        return isinstance(e, str) and isinstance(o, str) and e == o
    if isinstance(e, (int, float)) and isinstance(o, (int, float)):
        return e == o
    return False


def compare(exp, obs, path=""):
    """Leaf-by-leaf comparison of the reference tree with the observed tree; key sets must coincide (completeness)."""
    errs = []
    if isinstance(exp, AnyOf):
        if not any(not compare(a, obs, path) for a in exp.alts):
            errs.append(f"{path}: observed {short(obs)}, expected one of {short(list(exp.alts))}")
        return errs
    if isinstance(exp, dict) and not exp.get("__leaf__"):
        if not isinstance(obs, dict):
            return [f"{path}: observed {short(obs)}, expected a section with keys {sorted(exp)}"]
        for k in exp:
            if k not in obs:
                errs.append(f"{path}.{k}: missing from the configuration (expected {short(exp[k])})")
        for k in obs:
            if k not in exp:
                errs.append(f"{path}.{k}: key not declared by the schema (value {short(obs[k])})")
        for k in exp:
            if k in obs:
                errs.extend(compare(exp[k], obs[k], f"{path}.{k}" if path else k))
        return errs
    if isinstance(exp, dict):
        exp = exp["value"]
    if not leaf_eq(exp, obs):
        errs.append(f"{path}: observed {short(obs)}, expected {short(exp)}")
    return errs


def leaf(v):
    """Mark a dict-valued argument (e.g. ConvNeXt `arch`) as an opaque leaf of the reference tree."""
    return {"__leaf__": True, "value": v}


def short(v):
    s = repr(v)
    return s if len(s) <= 160 else s[:157] + "..."


def strict_eq(a, b, path=""):
    """Container equality with exact types (bool/int/float/str distinguished); returns first difference or None."""
    if isinstance(a, dict) and isinstance(b, dict):
        if list(a.keys()) != list(b.keys()):
            if sorted(map(str, a)) != sorted(map(str, b)):
                return f"{path}: key sets differ {sorted(set(map(str, a)) ^ set(map(str, b)))}"
        for k in a:
            d = strict_eq(a[k], b[k], f"{path}.{k}" if path else str(k))
            if d:
                return d
        return None
    if isinstance(a, list) and isinstance(b, list):
        if len(a) != len(b):
            return f"{path}: {short(a)} != {short(b)}"
        for i, (x, y) in enumerate(zip(a, b)):
            d = strict_eq(x, y, f"{path}[{i}]")
            if d:
                return d
        return None
    if type(a) is not type(b) or a != b:
        return f"{path}: {short(a)} ({type(a).__name__}) != {short(b)} ({type(b).__name__})"
    return None


def set_path(tree, path, value):
    keys = path.split(".")
    t = tree
    for k in keys[:-1]:
        t = t[k]
    if keys[-1] not in t:
        raise KeyError(f"reference table path {path} is not a leaf of the schema")
    t[keys[-1]] = leaf(value) if isinstance(value, dict) else value


def effective(fn, kw):
    """Arguments as the builder sees them: what the caller passes, else the default in the builder's signature."""
    out = {}
    for name, p in inspect.signature(fn).parameters.items():
        if name in kw:
            out[name] = kw[name]
        elif p.default is not inspect.Parameter.empty:
            out[name] = p.default
    return out


def overlay(base, d):
    out = dict(base)
    for k, v in d.items():
        if k not in out:
            raise KeyError(f"{k} is not a field of the schema class")
        out[k] = leaf(v) if isinstance(v, dict) else v
    return out


# ---- reference trees -------------------------------------------------------------------------------------------


def names_of(arg):
    if isinstance(arg, str):
        return [arg]
    if isinstance(arg, list):
        return list(arg)
    return None


def in01(p):
    return isinstance(p, (int, float)) and not isinstance(p, bool) and 0.0 < p <= 1.0


def check_intensity(arg, obs, path):
    m = mods()
    base = schema_default(m["DC"].IntensityConfig)
    if arg is None or isinstance(arg, dict):
        return compare(base if arg is None else overlay(base, arg), obs, path)
    names = names_of(arg)
    errs = []
    if not isinstance(obs, dict):
        return [f"{path}: observed {short(obs)}, expected an intensity section"]
    exp = {k: v for k, v in base.items() if k not in {INTENSITY_P[n] for n in names}}
    errs += compare(exp, {k: v for k, v in obs.items() if k in exp or k not in base}, path)
    for n in names:
        k = INTENSITY_P[n]
        if k not in obs:
            errs.append(f"{path}.{k}: missing")
        elif not in01(obs[k]):
            errs.append(f"{path}.{k}: augmentation '{n}' is named in the list {names} but is not enabled (observed {k}={short(obs[k])})")
    return errs


def scale_enabled(s):
    return isinstance(s, (list, tuple)) and len(s) in (2, 4) and any(s[i] != s[i + 1] for i in range(0, len(s), 2))


def check_geometric(arg, obs, path):
    m = mods()
    base = schema_default(m["DC"].GeometricConfig)
    if arg is None or isinstance(arg, dict):
        return compare(base if arg is None else overlay(base, arg), obs, path)
    names = names_of(arg)
    if not isinstance(obs, dict):
        return [f"{path}: observed {short(obs)}, expected a geometric section"]
    errs = []
    free = {"rotation", "scale", "translate_width", "translate_height", "affine_p"}
    if "erase_scale" in names:
        free.add("erase_p")
    if "mixup" in names:
        free.add("mixup_p")
    exp = {k: v for k, v in base.items() if k not in free}
    errs += compare(exp, {k: v for k, v in obs.items() if k not in free}, path)
    for k in free:
        if k not in obs:
            errs.append(f"{path}.{k}: missing")
    if errs:
        return errs
    any_affine = any(n in names for n in AFFINE)
    tag = f"named in the list {names} but not enabled"
    if any_affine:
        if not in01(obs["affine_p"]):
            errs.append(f"{path}.affine_p: {[n for n in names if n in AFFINE]} {tag} (observed affine_p={short(obs['affine_p'])})")
    elif not leaf_eq(AnyOf(base["affine_p"]), obs["affine_p"]):
        errs.append(f"{path}.affine_p: observed {short(obs['affine_p'])}, expected the schema default {base['affine_p']} (no affine augmentation named)")
    # rotation
    if "rotation" in names:
        if not (isinstance(obs["rotation"], (int, float)) and not isinstance(obs["rotation"], bool) and obs["rotation"] != 0):
            errs.append(f"{path}.rotation: 'rotation' {tag} (observed rotation={short(obs['rotation'])})")
    elif not leaf_eq(AnyOf(base["rotation"], 0), obs["rotation"]):
        errs.append(f"{path}.rotation: observed {short(obs['rotation'])}, expected the schema default {base['rotation']} or neutral 0")
    # scale
    if "scale" in names:
        if not scale_enabled(obs["scale"]):
            errs.append(f"{path}.scale: 'scale' {tag} (observed scale={short(obs['scale'])})")
    elif not leaf_eq(AnyOf(base["scale"], [1.0, 1.0], None), obs["scale"]):
        errs.append(f"{path}.scale: observed {short(obs['scale'])}, expected the schema default {base['scale']} or neutral (1, 1)")
    # translate
    tw, th = obs["translate_width"], obs["translate_height"]
    if "translate" in names:
        ok = all(isinstance(x, (int, float)) and not isinstance(x, bool) and x >= 0 for x in (tw, th)) and (tw > 0 or th > 0)
        if not ok:
            errs.append(f"{path}.translate_*: 'translate' {tag} (observed translate_width={short(tw)}, translate_height={short(th)})")
    else:
        for k in ("translate_width", "translate_height"):
            if not leaf_eq(AnyOf(base[k], 0), obs[k]):
                errs.append(f"{path}.{k}: observed {short(obs[k])}, expected the schema default {base[k]} or neutral 0")
    for n, k in (("erase_scale", "erase_p"), ("mixup", "mixup_p")):
        if n in names and not in01(obs[k]):
            errs.append(f"{path}.{k}: '{n}' {tag} (observed {k}={short(obs[k])})")
    return errs


def check_aug(intensity, geometric, obs, path):
    if not isinstance(obs, dict) or sorted(obs) != ["geometric", "intensity"]:
        return [f"{path}: observed {short(obs)}, expected sections intensity + geometric"]
    return check_intensity(intensity, obs["intensity"], path + ".intensity") + check_geometric(geometric, obs["geometric"], path + ".geometric")


def expected_backbone_family(arg):
    """-> (family, reference tree of that family's section)."""
    MC = mods()["MC"]
    if isinstance(arg, str):
        fam, cls, facts = PRESETS[arg]
        tree = schema_default(getattr(MC, FAMILIES[fam]))
        declared = schema_default(getattr(MC, cls))  # the schema class that declares this preset's values
        if sorted(declared) != sorted(tree):
            raise KeyError(f"preset class {cls} and family class {FAMILIES[fam]} declare different fields")
        tree = overlay(tree, declared)
        for k, v in facts.items():  # independent facts must agree with what the schema declares
            if not leaf_eq(v, declared[k]):
                raise AssertionError(f"schema class {cls}.{k}={declared[k]!r} contradicts the documented preset value {v!r}")
        return fam, tree
    (fam,) = [k for k, v in arg.items() if v is not None]
    return fam, overlay(schema_default(getattr(MC, FAMILIES[fam])), arg[fam])


def expected_backbone(arg):
    fam, tree = expected_backbone_family(arg)
    return {f: (tree if f == fam else None) for f in FAMILIES}


def expected_head(arg):
    MC = mods()["MC"]
    out = {h: None for h in HEADS}
    if arg is None:
        return out
    if isinstance(arg, str):
        out[arg] = schema_default(getattr(MC, HEADS[arg][0]))
        return out
    (h,) = [k for k, v in arg.items() if v is not None]
    sec = {}
    for part, cls in HEADS[h][1].items():
        sec[part] = overlay(schema_default(getattr(MC, cls)), arg[h][part])
    out[h] = sec
    return out


def expected_lr(arg):
    TC = mods()["TC"]
    none = {"step_lr": None, "reduce_lr_on_plateau": None}
    if arg is None:
        return AnyOf(None, none)
    out = dict(none)
    cls = {"step_lr": TC.StepLRConfig, "reduce_lr_on_plateau": TC.ReduceLROnPlateauConfig}
    if isinstance(arg, str):
        out[arg] = schema_default(cls[arg])
        return out
    (k,) = [k for k, v in arg.items() if v is not None]
    out[k] = overlay(schema_default(cls[k]), arg[k])
    return out


def expected_data(kw):
    m = mods()
    eff = effective(m["T"].get_data_config, kw)
    tree = schema_default(m["DC"].DataConfig)
    unknown = set(eff) - set(DATA_PATHS) - DATA_SPECIAL
    if unknown:
        raise KeyError(f"get_data_config has arguments without a reference-table entry: {sorted(unknown)}")
    for a, paths in DATA_PATHS.items():
        for p in paths:
            set_path(tree, p, eff[a])
    return tree, eff


def expected_model(kw):
    m = mods()
    eff = effective(m["T"].get_model_config, kw)
    tree = schema_default(m["MC"].ModelConfig)
    unknown = set(eff) - set(MODEL_PATHS) - MODEL_SPECIAL
    if unknown:
        raise KeyError(f"get_model_config has arguments without a reference-table entry: {sorted(unknown)}")
    for a, paths in MODEL_PATHS.items():
        for p in paths:
            set_path(tree, p, eff[a])
    tree["backbone_config"] = expected_backbone(eff["backbone_config"])
    tree["head_configs"] = expected_head(eff["head_configs"])
    return tree


def expected_trainer(kw):
    m = mods()
    TC = m["TC"]
    eff = effective(m["T"].get_trainer_config, kw)
    tree = schema_default(TC.TrainerConfig)
    unknown = set(eff) - set(TRAINER_PATHS) - TRAINER_SPECIAL
    if unknown:
        raise KeyError(f"get_trainer_config has arguments without a reference-table entry: {sorted(unknown)}")
    tree["early_stopping"] = schema_default(TC.EarlyStoppingConfig)  # its three members are all builder arguments
    for a, paths in TRAINER_PATHS.items():
        for p in paths:
            set_path(tree, p, eff[a])
    tree["lr_scheduler"] = expected_lr(eff["lr_scheduler"])
    return tree


# ---- materialising JSON cases ---------------------------------------------------------------------------------


def mat_data(kw):
    kw = dict(kw)
    if isinstance(kw.get("crop_hw"), list):
        kw["crop_hw"] = tuple(kw["crop_hw"])
    return kw


def check_data_obs(kw, obs, path):
    """Reference check of a data section (attrs-level or DictConfig-level container)."""
    tree, eff = expected_data(kw)
    aug_obs = obs.get("augmentation_config") if isinstance(obs, dict) else None
    tree = dict(tree)
    tree.pop("augmentation_config")
    errs = compare(tree, {k: v for k, v in obs.items() if k != "augmentation_config"} if isinstance(obs, dict) else obs, path)
    if not isinstance(obs, dict) or "augmentation_config" not in obs:
        errs.append(f"{path}.augmentation_config: missing")
    elif eff["use_augmentations_train"]:
        errs += check_aug(eff["intensity_aug"], eff["geometry_aug"], aug_obs, path + ".augmentation_config")
    elif aug_obs is not None:
        errs.append(f"{path}.augmentation_config: observed {short(aug_obs)}, expected None (use_augmentations_train is False)")
    return errs


# ---------------------------------------------------------------------------------------------------------------
# executing one case on the real code


class Obs:
    def __init__(self):
        self.errors = []
        self.transitions = 0
        self.outcome = None
        self.extra = {}


_TMP = {"dir": None, "n": 0}


def tmpfile():
    if _TMP["dir"] is None or not os.path.isdir(_TMP["dir"]):
        _TMP["dir"] = tempfile.mkdtemp(prefix="verif-c20-")
        _TMP["own"] = True
    _TMP["n"] += 1
    return os.path.join(_TMP["dir"], f"cfg-{os.getpid()}-{_TMP['n']}.yaml")


def chain(o, sections, kws):
    """sections: dict of the three attrs objects; assembles, normalises twice, YAML round trip."""
    m = mods()
    OC, TJ = m["OmegaConf"], m["TJ"]
    try:
        job = TJ.TrainingJobConfig(data_config=sections["data"], model_config=sections["model"], trainer_config=sections["trainer"])
        o.transitions += 1
        cfg = job.to_sleap_nn_cfg()
    except Exception as e:
        o.errors.append(f"assembling the complete configuration (TrainingJobConfig(...).to_sleap_nn_cfg()) raised {type(e).__name__}: {str(e)[:300]}")
        return None
    c0 = OC.to_container(cfg, resolve=True)
    top = schema_default(TJ.TrainingJobConfig)
    top["sleap_nn_version"] = m["sleap_nn"].__version__
    exp_top = {k: v for k, v in top.items() if k not in ("data_config", "model_config", "trainer_config")}
    errs = compare(exp_top, {k: v for k, v in c0.items() if k not in ("data_config", "model_config", "trainer_config")}, "")
    for k in ("data_config", "model_config", "trainer_config"):
        if k not in c0:
            errs.append(f"{k}: section missing")
    if not errs:
        errs += check_data_obs(kws["data"], c0["data_config"], "data_config")
        errs += compare(expected_model(kws["model"]), c0["model_config"], "model_config")
        errs += compare(expected_trainer(kws["trainer"]), c0["trainer_config"], "trainer_config")
    o.errors += [f"[assembled DictConfig] {e}" for e in errs]
    try:
        o.transitions += 1
        v1 = TJ.verify_training_cfg(cfg)
        c1 = OC.to_container(v1, resolve=True)
        d = strict_eq(c0, c1)
        if d:
            o.errors.append(f"verify_training_cfg changed a value: {d}")
        d = strict_eq(c0, OC.to_container(cfg, resolve=True))
        if d:
            o.errors.append(f"verify_training_cfg mutated its input: {d}")
        o.transitions += 1
        v2 = TJ.verify_training_cfg(v1)
        d = strict_eq(c1, OC.to_container(v2, resolve=True))
        if d:
            o.errors.append(f"verify_training_cfg is not idempotent: {d}")
        y0, y1 = OC.to_yaml(cfg), OC.to_yaml(v1)
        if y0 != y1:
            o.errors.append("YAML text of the normalised configuration differs from the YAML text of the original")
        f = tmpfile()
        try:
            o.transitions += 2
            OC.save(cfg, f)
            loaded = OC.load(f)
        finally:
            if os.path.exists(f):
                os.remove(f)
        d = strict_eq(c0, OC.to_container(loaded, resolve=True))
        if d:
            o.errors.append(f"YAML save/load changed a value: {d}")
        o.transitions += 1
        v3 = TJ.verify_training_cfg(loaded)
        d = strict_eq(c0, OC.to_container(v3, resolve=True))
        if d:
            o.errors.append(f"YAML save/load + verify_training_cfg changed a value: {d}")
    except Exception as e:
        o.errors.append(f"normalisation / YAML round trip raised {type(e).__name__}: {str(e)[:300]}")
    return c0


def run_builder(case, o):
    m = mods()
    T = m["T"]
    fn = case["fn"]
    kws = {"data": dict(DATA_BASE), "model": dict(MODEL_BASE), "trainer": {}}
    sec = {"get_data_config": "data", "get_model_config": "model", "get_trainer_config": "trainer"}[fn]
    kws[sec] = dict(kws[sec])
    kws[sec].update(mat(case["kw"]))
    sections = {}
    try:
        o.transitions += 3
        sections["data"] = T.get_data_config(**mat_data(kws["data"]))
        sections["model"] = T.get_model_config(**kws["model"])
        sections["trainer"] = T.get_trainer_config(**kws["trainer"])
    except Exception as e:
        o.errors.append(f"{fn}(**{short(kws[sec])}) raised {type(e).__name__}: {str(e)[:300]}")
        o.outcome = ("raised", type(e).__name__)
        return
    # builder level (attrs objects)
    obs = plain(sections[sec])
    if sec == "data":
        errs = check_data_obs(kws["data"], obs, "data_config")
    elif sec == "model":
        errs = compare(expected_model(kws["model"]), obs, "model_config")
    else:
        errs = compare(expected_trainer(kws["trainer"]), obs, "trainer_config")
    o.errors += [f"[{fn} result] {e}" for e in errs]
    c0 = chain(o, sections, kws)
    o.outcome = core.digest(c0 if c0 is not None else obs)


def run_sub(case, o):
    T = mods()["T"]
    k = case["kind"]
    case = mat(case)
    o.transitions += 1
    try:
        if k == "aug":
            obs = plain(T.get_aug_config(case["intensity"], case["geometric"]))
            o.errors += check_aug(case["intensity"], case["geometric"], obs, "augmentation_config")
        elif k == "backbone":
            obs = plain(T.get_backbone_config(case["arg"]))
            o.errors += compare(expected_backbone(case["arg"]), obs, "backbone_config")
        else:
            obs = plain(T.get_head_configs(case["arg"]))
            o.errors += compare(expected_head(case["arg"]), obs, "head_configs")
    except Exception as e:
        o.errors.append(f"raised {type(e).__name__}: {str(e)[:300]}")
        o.outcome = ("raised", type(e).__name__)
        return
    o.outcome = core.digest(obs)


def local_oneof_class(must_be_set):
    m = mods()
    attrs = m["attrs"]

    @attrs.define
    class Probe:
        a: object = None
        b: object = None
        c: object = None

    return m["U"].oneof(Probe, must_be_set=must_be_set)


def build_target(target, field, value):
    """Constructs the object named by `target` with one field set to `value` on the real code."""
    m = mods()
    T, DC, MC, TC = m["T"], m["DC"], m["MC"], m["TC"]
    if target.startswith("cls:"):
        mod, cls = target[4:].split(".")
        return getattr({"DC": DC, "MC": MC, "TC": TC}[mod], cls)(**{field: value})
    if target == "get_aug_config.intensity":
        return T.get_aug_config({field: value}, None)
    if target == "get_aug_config.geometric":
        return T.get_aug_config(None, {field: value})
    if target == "get_data_config.intensity":
        return T.get_data_config(**DATA_BASE, use_augmentations_train=True, intensity_aug={field: value})
    if target == "get_data_config.geometric":
        return T.get_data_config(**DATA_BASE, use_augmentations_train=True, geometry_aug={field: value})
    if target == "get_data_config":
        return T.get_data_config(**DATA_BASE, **{field: value})
    if target == "get_trainer_config":
        return T.get_trainer_config(**{field: value})
    if target.startswith("get_trainer_config.lr:"):
        return T.get_trainer_config(lr_scheduler={target.split(":")[1]: {field: value}})
    if target.startswith("get_backbone_config.dict:"):
        return T.get_backbone_config({target.split(":")[1]: {field: value}})
    if target.startswith("get_model_config.dict:"):
        return T.get_model_config(backbone_config={target.split(":")[1]: {field: value}}, head_configs="centroid")
    if target == "get_backbone_config.preset":
        return T.get_backbone_config(value)
    if target == "get_head_configs.name":
        return T.get_head_configs(value)
    if target == "get_aug_config.intensity_name":
        return T.get_aug_config(value, None)
    if target == "get_aug_config.geometric_name":
        return T.get_aug_config(None, value)
    if target == "get_trainer_config.lr_name":
        return T.get_trainer_config(lr_scheduler=value)
    if target.startswith("weights:"):
        # field = backbone (preset name or None), value = pre_trained_weights; via == "ctor" or "builder"
        via = target.split(":")[1]
        if via == "builder":
            return T.get_model_config(pre_trained_weights=value, backbone_config=field, head_configs="centroid")
        fam = PRESETS[field][0]
        bb = MC.BackboneConfig(**{fam: getattr(MC, FAMILIES[fam])()})
        return MC.ModelConfig(pre_trained_weights=value, backbone_config=bb)
    raise KeyError(target)


def run_validity(case, o):
    expect_reject = case["kind"] == "invalid"
    o.transitions += 1
    try:
        value = float("nan") if case["value"] == "NaN" else case["value"]  # "NaN": not-a-number (JSON-able marker)
        obj = build_target(case["target"], case["field"], value)
    except Exception as e:
        o.outcome = ("rejected", case["target"], type(e).__name__, str(e)[:80])
        if not expect_reject:
            o.errors.append(f"valid value {case['field']}={short(case['value'])} rejected by {case['target']}: {type(e).__name__}: {str(e)[:200]}")
        return
    o.outcome = ("accepted", case["target"], core.digest(plain(obj)))
    if expect_reject:
        o.errors.append(f"invalid value {case['field']}={short(case['value'])} accepted by {case['target']} (no exception; result {short(plain(obj))})")
        return
    # accepted valid value must also be reflected
    if case.get("reflect"):
        got = plain(obj)
        for k in case["reflect"].split("."):
            got = got[k] if isinstance(got, dict) and k in got else "<missing>"
        if not leaf_eq(case["value"], got):
            o.errors.append(f"valid value {case['field']}={short(case['value'])} accepted by {case['target']} but {case['reflect']} is {short(got)}")


def run_oneof(case, o):
    m = mods()
    MC = m["MC"]
    members = case["set"]
    o.transitions += 1
    try:
        if case["cls"] == "BackboneConfig":
            cls, vals = MC.BackboneConfig, {f: getattr(MC, FAMILIES[f])() for f in members}
        elif case["cls"] == "HeadConfig":
            cls, vals = MC.HeadConfig, {h: getattr(MC, HEADS[h][0])() for h in members}
        else:
            cls = local_oneof_class(case["cls"] == "oneof(must_be_set=True)")
            vals = {f: 1 for f in members}
        mode = case.get("call", "kw")  # how the members are passed: keywords / positionally / first one positionally
        names = [a.name for a in m["attrs"].fields(cls)]
        if mode == "kw" or not vals:
            obj = cls(**vals)
        else:
            upto = max(names.index(k) for k in vals) if mode == "pos" else min(names.index(k) for k in vals)
            args = [vals.get(nm) for nm in names[: upto + 1]]
            obj = cls(*args, **{k: v for k, v in vals.items() if names.index(k) > upto})
        raised = None
    except Exception as e:
        raised = e
    n = len(members)
    must = case["cls"] == "oneof(must_be_set=True)"
    should_reject = n >= 2 or (n == 0 and must)
    if raised is not None:
        o.outcome = ("rejected", case["cls"], n, type(raised).__name__)
        if not should_reject:
            o.errors.append(f"{case['cls']} with members {members} set was rejected: {type(raised).__name__}: {str(raised)[:200]}")
        return
    try:  # only the constructor decides acceptance; the accessor is queried afterwards
        which = obj.which_oneof_attrib_name()
    except Exception as e:
        which = f"<which_oneof_attrib_name raised {type(e).__name__}>"
    o.outcome = ("accepted", case["cls"], n, which)
    if should_reject:
        o.errors.append(f"{case['cls']} accepted {n} members set at once ({members})" if n else f"{case['cls']} accepted no member although one must be set")
    elif which != (members[0] if members else None):
        o.errors.append(f"{case['cls']}: which_oneof_attrib_name() = {which!r}, expected {(members[0] if members else None)!r}")


def run_observe(case, o):
    """Not part of the verdict: what verify_training_cfg does with an assembled config carrying one invalid leaf."""
    m = mods()
    OC, TJ, T = m["OmegaConf"], m["TJ"], m["T"]
    d = T.get_data_config(**DATA_BASE, use_augmentations_train=True)
    cfg = TJ.TrainingJobConfig(data_config=d, model_config=T.get_model_config(**MODEL_BASE), trainer_config=T.get_trainer_config()).to_sleap_nn_cfg()
    c = OC.create(OC.to_container(cfg))
    OC.update(c, case["path"], case["value"], force_add=True)
    o.transitions += 1
    try:
        TJ.verify_training_cfg(c)
        o.outcome = ("observe", case["path"], "accepted")
        o.extra["obs_verify_training_cfg_accepts_invalid_leaf"] = 1
    except Exception as e:
        o.outcome = ("observe", case["path"], "rejected", type(e).__name__)
        o.extra["obs_verify_training_cfg_rejects_invalid_leaf"] = 1


def run_case(case):
    o = Obs()
    k = case["kind"]
    try:
        mods()
    except Exception as e:
        o.errors.append(f"importing the builders raised {type(e).__name__}: {str(e)[:300]}")
        o.outcome = ("import-error",)
        return o
    if k == "import":
        o.outcome = ("imported",)
        o.transitions += 1
    elif k == "builder":
        run_builder(case, o)
    elif k in ("aug", "backbone", "head"):
        run_sub(case, o)
    elif k in ("invalid", "valid"):
        run_validity(case, o)
    elif k == "oneof":
        run_oneof(case, o)
    elif k == "observe":
        run_observe(case, o)
    else:
        raise KeyError(k)
    return o


# ---------------------------------------------------------------------------------------------------------------
# enumeration


def ordered_lists(names):
    out = []
    for k in range(0, len(names) + 1):
        out.extend([list(p) for p in itertools.permutations(names, k)])
    return out


def deviations(values, groups, all_pairs, triple_groups):
    """singles; pairs inside each group (or inside the whole builder); triples inside triple_groups (first value each)."""
    out = []
    seen = set()

    def add(kw):
        key = json.dumps(kw, sort_keys=True)
        if key not in seen:
            seen.add(key)
            out.append(kw)

    for a, vs in values.items():
        for v in vs:
            add({a: v})
    pair_sets = [list(values)] if all_pairs else groups
    for g in pair_sets:
        for a, b in itertools.combinations([x for x in g if x in values], 2):
            for va in values[a]:
                for vb in values[b]:
                    add({a: va, b: vb})
    for g in triple_groups:
        for abc in itertools.combinations([x for x in g if x in values], 3):
            for vs in itertools.product(*[values[x] for x in abc]):
                add(dict(zip(abc, vs)))
    return out


def field_dicts(values, pairs):
    """{} + every single field deviation (+ every pair of fields, first value each, when `pairs`)."""
    out = [{}]
    for f, vs in values.items():
        for v in vs:
            out.append({f: v})
    if pairs:
        for a, b in itertools.combinations(values, 2):
            out.append({a: values[a][0], b: values[b][-1]})
    return out


def enumerate_cases(tier):
    thorough = tier == "thorough"
    cases = [{"kind": "import"}]

    def B(fn, kw):
        cases.append({"kind": "builder", "fn": fn, "kw": kw})

    # ---- data builder
    B("get_data_config", {})
    for kw in deviations(DATA_VALUES, DATA_GROUPS, thorough, DATA_TRIPLE_GROUPS if thorough else []):
        B("get_data_config", kw)
    ilists, glists = ordered_lists(INTENSITY_NAMES), ordered_lists(GEOMETRIC_NAMES)
    on = {"use_augmentations_train": True}
    for n in INTENSITY_NAMES:
        B("get_data_config", {**on, "intensity_aug": n})
        B("get_data_config", {"intensity_aug": n})  # use_augmentations_train False: documented "only if ... True"
    for n in GEOMETRIC_NAMES:
        B("get_data_config", {**on, "geometry_aug": n})
        B("get_data_config", {"geometry_aug": n})
    for d in INTENSITY_DICTS:
        B("get_data_config", {**on, "intensity_aug": d})
    for d in GEOMETRIC_DICTS:
        B("get_data_config", {**on, "geometry_aug": d})
    for d in INTENSITY_DICTS[1:3]:
        for g in GEOMETRIC_DICTS[1:4]:
            B("get_data_config", {**on, "intensity_aug": d, "geometry_aug": g})
    # complete-configuration chain for the ordered lists: length <= 2 plus the rotations of the full list (quick),
    # every ordered list (thorough); ALL ordered lists go through get_aug_config directly in both tiers (below)
    def chained(lists, names):
        if thorough:
            return lists[1:]
        full = [names[i:] + names[:i] for i in range(len(names))] + [names[::-1]]
        return [l for l in lists[1:] if len(l) <= 2 or l in full]

    for il in chained(ilists, INTENSITY_NAMES):
        B("get_data_config", {**on, "intensity_aug": il})
    for gl in chained(glists, GEOMETRIC_NAMES):
        B("get_data_config", {**on, "geometry_aug": gl})
    B("get_data_config", {**on, "intensity_aug": [], "geometry_aug": []})
    others_i = [None] + INTENSITY_NAMES + [INTENSITY_NAMES] + [INTENSITY_DICTS[1]]
    others_g = [None] + GEOMETRIC_NAMES + [GEOMETRIC_NAMES] + [GEOMETRIC_DICTS[1]]
    # ---- get_aug_config directly: every ordered list x the other axis
    for il in ilists:
        for g in (glists if thorough else others_g):
            cases.append({"kind": "aug", "intensity": il, "geometric": g})
    for gl in glists:
        for i in others_i:
            cases.append({"kind": "aug", "intensity": i, "geometric": gl})
    for n in INTENSITY_NAMES:
        cases.append({"kind": "aug", "intensity": n, "geometric": None})
    for n in GEOMETRIC_NAMES:
        cases.append({"kind": "aug", "intensity": None, "geometric": n})
    for d in INTENSITY_DICTS:
        for g in [None] + GEOMETRIC_DICTS:
            cases.append({"kind": "aug", "intensity": d, "geometric": g})
    for g in GEOMETRIC_DICTS:
        cases.append({"kind": "aug", "intensity": None, "geometric": g})

    # ---- model builder
    B("get_model_config", {})
    B("get_model_config", {"head_configs": None})
    for p in PRESETS:
        cases.append({"kind": "backbone", "arg": p})
        for h in HEADS:
            B("get_model_config", {"backbone_config": p, "head_configs": h})
    for h in HEADS:
        cases.append({"kind": "head", "arg": h})
    for kw in deviations(MODEL_VALUES, [list(MODEL_VALUES)], True, []):
        B("get_model_config", kw)
        if thorough:
            for p in ("convnext", "swint_tiny"):
                B("get_model_config", {**kw, "backbone_config": p, "head_configs": "bottomup"})
    for p, (fam, _c, _f) in PRESETS.items():
        for w in {"convnext": CONVNEXT_WEIGHTS, "swint": SWINT_WEIGHTS}.get(fam, []):
            B("get_model_config", {"backbone_config": p, "pre_trained_weights": w})
            cases.append({"kind": "valid", "target": "weights:ctor", "field": p, "value": w, "reflect": "pre_trained_weights"})
    for fam, vals in BACKBONE_FIELD_VALUES.items():
        for d in field_dicts(vals, thorough):
            cases.append({"kind": "backbone", "arg": {fam: d}})
            B("get_model_config", {"backbone_config": {fam: d}})
            if fam != "unet" and d:
                w = (CONVNEXT_WEIGHTS if fam == "convnext" else SWINT_WEIGHTS)[len(d) % 3]
                B("get_model_config", {"backbone_config": {fam: d}, "pre_trained_weights": w, "head_configs": "single_instance"})
    B("get_model_config", {"backbone_config": {"unet": {"in_channels": 3, "filters": 64, "max_stride": 32, "output_stride": 2}}})  # docstring example
    for h, parts in HEAD_FIELD_VALUES.items():
        dicts = [{p: {} for p in parts}]
        for part, vals in parts.items():
            for d in field_dicts(vals, thorough)[1:]:
                dicts.append({p: (d if p == part else {}) for p in parts})
        if len(parts) == 2:
            (pa, va), (pb, vb) = parts.items()
            for fa, fb in itertools.product(va, vb) if thorough else zip(va, vb):
                dicts.append({pa: {fa: va[fa][0]}, pb: {fb: vb[fb][-1]}})
        for d in dicts:
            cases.append({"kind": "head", "arg": {h: d}})
            B("get_model_config", {"head_configs": {h: d}})
        for order in (list(HEADS), list(HEADS)[::-1]):  # the YAML form: the other head types present and None
            full = od(*[(x, dicts[1] if x == h else None) for x in order])
            cases.append({"kind": "head", "arg": full})
            B("get_model_config", {"head_configs": full})
        if thorough:
            for p in ("unet_large_rf", "convnext_base", "swint_small"):
                for d in dicts[:4]:
                    B("get_model_config", {"backbone_config": p, "head_configs": {h: d}})
    B("get_model_config", {"head_configs": {"single_instance": {"confmaps": {"part_names": None, "sigma": 2.5, "output_stride": 2}}}})  # docstring example

    # ---- trainer builder
    B("get_trainer_config", {})
    for kw in deviations(TRAINER_VALUES, TRAINER_GROUPS, thorough, TRAINER_TRIPLE_GROUPS if thorough else []):
        B("get_trainer_config", kw)
    for f in LR_FORMS:
        B("get_trainer_config", {"lr_scheduler": f})
        for opt in ("AdamW",):
            for lr in TRAINER_VALUES["learning_rate"]:
                B("get_trainer_config", {"lr_scheduler": f, "optimizer": opt, "learning_rate": lr})
        if thorough:
            for a in ("amsgrad", "early_stopping", "max_epochs", "steps_per_epoch"):
                B("get_trainer_config", {"lr_scheduler": f, a: TRAINER_VALUES[a][0]})

    # ---- invalid / boundary-valid values, one field at a time
    def inv(target, field, value):
        cases.append({"kind": "invalid", "target": target, "field": field, "value": value})

    def val(target, field, value, reflect=None):
        cases.append({"kind": "valid", "target": target, "field": field, "value": value, "reflect": reflect})

    for cls, sub, fields in (("IntensityConfig", "intensity", ["uniform_noise_p", "gaussian_noise_p", "contrast_p", "brightness_p"]), ("GeometricConfig", "geometric", ["affine_p", "erase_p", "mixup_p"])):
        for f in fields:
            for t, pre in ((f"cls:DC.{cls}", ""), (f"get_aug_config.{sub}", sub + "."), (f"get_data_config.{sub}", f"augmentation_config.{sub}.")):
                for v in (-0.1, 1.1, "NaN") + ((-1e-9, 1.000001, 2.0, -1.0, float("inf")) if thorough else ()):
                    inv(t, f, v)
                for v in (0.0, 1.0, 0.5):
                    val(t, f, v, pre + f)
    for t, pre in (("cls:DC.IntensityConfig", ""), ("get_aug_config.intensity", "intensity."), ("get_data_config.intensity", "augmentation_config.intensity.")):
        inv(t, "uniform_noise_min", -0.1)
        inv(t, "uniform_noise_max", 1.1)
        inv(t, "contrast_min", -0.1)
        inv(t, "contrast_max", -0.1)
        val(t, "uniform_noise_min", 0.0, pre + "uniform_noise_min")
        val(t, "uniform_noise_max", 1.0, pre + "uniform_noise_max")
        val(t, "contrast_min", 0.0, pre + "contrast_min")
        val(t, "contrast_max", 0.0, pre + "contrast_max")
    for t, pre in (("cls:DC.PreprocessingConfig", ""), ("get_data_config", "preprocessing.")):
        for v in (-1, "a", [-1.0], -1.0, -0.5, [0.5, -0.5], ["a"], None):
            inv(t, "scale", v)
        for v in (0.5, 1.0, 2.0, 0.0):
            val(t, "scale", v, pre + "scale")
    val("cls:DC.PreprocessingConfig", "scale", [0.5, 0.25], "scale")
    # unknown backbone sizes (SwinTConfig.model_type is the validated size field)
    for bad in ("huge", "", "Tiny", "xl"):
        inv("cls:MC.SwinTConfig", "model_type", bad)
        inv("get_backbone_config.dict:swint", "model_type", bad)
        inv("get_model_config.dict:swint", "model_type", bad)
    for t in ("cls:MC.SwinTConfig", "get_backbone_config.dict:swint", "get_model_config.dict:swint"):
        inv(t, "model_type", "large")  # exists for ConvNeXt only
    for good in ("tiny", "small", "base"):
        val("cls:MC.SwinTConfig", "model_type", good, "model_type")
        val("get_backbone_config.dict:swint", "model_type", good, "swint.model_type")
    # ConvNextConfig.model_type is NOT a validated field (an unknown name selects the custom `arch` in
    # ConvNextWrapper), so unknown names are only required to be placed unmodified, like any other argument
    for good in ("tiny", "small", "base", "large", "custom"):
        val("cls:MC.ConvNextConfig", "model_type", good, "model_type")
        val("get_backbone_config.dict:convnext", "model_type", good, "convnext.model_type")
    for bad in ("resnet", "unet_huge", "convnext_huge", "swint_large", "", "UNet"):
        inv("get_backbone_config.preset", None, bad)
    for bad in ("topdown", "", "multi_instance"):
        inv("get_head_configs.name", None, bad)
    for bad in ("noise", "rotation"):
        inv("get_aug_config.intensity_name", None, bad)
        inv("get_aug_config.intensity_name", None, ["contrast", bad])
    for bad in ("rotate", "contrast"):
        inv("get_aug_config.geometric_name", None, bad)
        inv("get_aug_config.geometric_name", None, ["scale", bad])
    inv("get_trainer_config.lr_name", None, "cosine")
    # pre-trained weights of the wrong family
    for via in ("ctor", "builder"):
        for p, (fam, _c, _f) in PRESETS.items():
            if via == "ctor" and p not in ("unet", "convnext", "swint"):
                continue
            wrong = {"unet": CONVNEXT_WEIGHTS[:1] + SWINT_WEIGHTS[:1] + ["weights.ckpt"], "convnext": SWINT_WEIGHTS + ["ConvNeXt_Huge_Weights", "convnext_tiny_weights"], "swint": CONVNEXT_WEIGHTS + ["Swin_L_Weights", "swin_t_weights"]}[fam]
            for w in wrong if (thorough or p in ("unet", "convnext", "swint")) else wrong[:2]:
                inv(f"weights:{via}", p, w)
    # the remaining validated fields of the schema
    for t in ("cls:TC.OptimizerConfig",):
        for v in (0.0, -1e-3):
            inv(t, "lr", v)
        val(t, "lr", 1e-8, "lr")
    for v in (0.0, -1e-3):
        inv("get_trainer_config", "learning_rate", v)
    for v in ("SGD", "adam", ""):
        inv("cls:TC.TrainerConfig", "optimizer_name", v)
        inv("get_trainer_config", "optimizer", v)
    for v in ("Adam", "AdamW"):
        val("cls:TC.TrainerConfig", "optimizer_name", v, "optimizer_name")
        val("get_trainer_config", "optimizer", v, "optimizer_name")
    for v in (-1, "gpu", [0, -1], 1.5, None):
        inv("cls:TC.TrainerConfig", "trainer_devices", v)
        inv("get_trainer_config", "trainer_num_devices", v)
    for v in (0, 1, "auto", [0], [0, 1]):
        val("cls:TC.TrainerConfig", "trainer_devices", v, "trainer_devices")
        val("get_trainer_config", "trainer_num_devices", v, "trainer_devices")
    for v in (0, -1):
        inv("cls:TC.StepLRConfig", "step_size", v)
        inv("get_trainer_config.lr:step_lr", "step_size", v)
    val("cls:TC.StepLRConfig", "step_size", 1, "step_size")
    for v in (-1.0, [-1e-3], "a", [1e-3, -1e-3]):
        inv("cls:TC.ReduceLROnPlateauConfig", "min_lr", v)
        inv("get_trainer_config.lr:reduce_lr_on_plateau", "min_lr", v)
    for v in (0.0, [0.0, 1e-6]):
        val("cls:TC.ReduceLROnPlateauConfig", "min_lr", v, "min_lr")
    inv("cls:TC.EarlyStoppingConfig", "min_delta", -0.1)
    inv("cls:TC.EarlyStoppingConfig", "patience", -1)
    inv("get_trainer_config", "early_stopping_min_delta", -0.1)
    inv("get_trainer_config", "early_stopping_patience", -1)
    val("cls:TC.EarlyStoppingConfig", "min_delta", 0.0, "min_delta")
    val("cls:TC.EarlyStoppingConfig", "patience", 0, "patience")

    # ---- oneof: every subset of members
    for cls, members in (("BackboneConfig", list(FAMILIES)), ("HeadConfig", list(HEADS)), ("oneof(must_be_set=True)", ["a", "b", "c"]), ("oneof(must_be_set=False)", ["a", "b", "c"])):
        for k in range(0, len(members) + 1):
            for s in itertools.permutations(members, k) if k <= 2 else itertools.combinations(members, k):
                cases.append({"kind": "oneof", "cls": cls, "set": list(s)})
                if k >= 1:  # the same members passed positionally / the first one positionally and the rest by keyword
                    cases.append({"kind": "oneof", "cls": cls, "set": list(s), "call": "pos"})
                    if k >= 2:
                        cases.append({"kind": "oneof", "cls": cls, "set": list(s), "call": "mixed"})

    # ---- observations only
    for path, v in (("data_config.augmentation_config.geometric.affine_p", 1.5), ("data_config.preprocessing.scale", -1.0), ("model_config.backbone_config.convnext", {"model_type": "huge"}), ("trainer_config.optimizer_name", "SGD")):
        cases.append({"kind": "observe", "path": path, "value": v})
    # de-duplicate (alphabets overlap in a few places), keep first occurrence
    seen, out = set(), []
    for c in cases:
        k = json.dumps(c, sort_keys=True)
        if k not in seen:
            seen.add(k)
            out.append(c)
    return out


def is_nontrivial(case):
    k = case["kind"]
    if k == "builder":
        return bool(case["kw"])
    if k == "aug":
        return bool(case["intensity"]) or bool(case["geometric"])
    if k == "import":
        return False
    return True


def work(part, shard):
    for case in shard:
        part.count()
        key = json.dumps(case, sort_keys=True)
        part.state(core.digest(key))
        nt = is_nontrivial(case)
        if nt:
            part.nontriv(core.digest(key))
        part.sample(case, nt)
        try:
            o = run_case(case)
        except (KeyError, AssertionError) as e:
            # the reference table does not cover the schema / signature any more: a harness problem, not silence
            part.violation(case, f"reference table out of date: {type(e).__name__}: {e}")
            part.add("harness_errors")
            continue
        part.transition(o.transitions)
        part.outcome(repr(o.outcome))
        part.add("cases_" + case["kind"])
        for k, v in o.extra.items():
            part.add(k, v)
        if o.errors:
            part.violation(case, f"{describe(case)}: " + " | ".join(o.errors[:6]) + (f" | ... {len(o.errors) - 6} more" if len(o.errors) > 6 else ""))


def describe(case):
    k = case["kind"]
    if k == "builder":
        return f"{case['fn']}(**{short(mat(case['kw']))})"
    case = mat(case)
    if k == "aug":
        return f"get_aug_config(intensity_aug={case['intensity']!r}, geometric_aug={case['geometric']!r})"
    if k == "backbone":
        return f"get_backbone_config({case['arg']!r})"
    if k == "head":
        return f"get_head_configs({case['arg']!r})"
    return json.dumps(case, sort_keys=True)


def run(ctx):
    cases = enumerate_cases(ctx.tier)
    _TMP["dir"] = tempfile.mkdtemp(prefix="verif-c20-")
    try:
        try:
            mods()  # import in the parent so that the forked workers share it
        except Exception as e:
            ctx.count()
            ctx.outcome("import-error")
            ctx.violation({"kind": "import"}, f"importing sleap_nn.train / sleap_nn.config raised {type(e).__name__}: {str(e)[:300]}")
            return
        # R3: the first builder case is executed twice; a differing observation is a harness error
        first = next(c for c in cases if c["kind"] == "builder")
        a, b = run_case(first), run_case(first)
        if (a.outcome, a.errors) != (b.outcome, b.errors):
            raise RuntimeError("non-deterministic observation on the first case")
        kinds = {}
        for c in cases:
            kinds[c["kind"]] = kinds.get(c["kind"], 0) + 1
        ctx.bounds = {
            "cases_by_kind": kinds,
            "pairs": "inside each builder" if ctx.tier == "thorough" else "inside interacting groups",
            "ordered_intensity_lists": len(ordered_lists(INTENSITY_NAMES)),
            "ordered_geometric_lists": len(ordered_lists(GEOMETRIC_NAMES)),
            "aug_cross": "all ordered lists x all ordered lists" if ctx.tier == "thorough" else "all ordered lists x {None, singles, full list, dict}",
            "backbone_presets": len(PRESETS),
            "head_types": len(HEADS),
        }
        # heavy (builder) and light cases are interleaved so that the shards are balanced
        heavy = core.rotate([c for c in cases if c["kind"] == "builder"], ctx.seed)
        light = core.rotate([c for c in cases if c["kind"] != "builder"], ctx.seed)
        n = 64 if len(heavy) > 640 else 32
        hs, ls = core.shard_list(heavy, n), core.shard_list(light, n)
        shards = [h + (ls[i] if i < len(ls) else []) for i, h in enumerate(hs)]
        core.pmap(ctx, work, shards)
        # E2 part: call histories (build -> customise the returned object in place -> build again), each in a
        # forked child that starts from the unmutated library state; differential oracle against that state
        from props import _c20_hist

        _c20_hist.explore(ctx, ctx.tier)
        ctx.bounds["history_search"] = "all ordered pairs (call_i, mutate, call_j) over %d builder calls%s" % (
            len(_c20_hist.calls()), "" if ctx.tier == "quick" else ", 3 accumulating rounds")
    finally:
        shutil.rmtree(_TMP["dir"], ignore_errors=True)
        _TMP["dir"] = None


def replay(case):
    if case.get("kind") == "history":
        from props import _c20_hist

        mods()
        return _c20_hist.replay(case)
    return _replay_case(case)


def _replay_case(case):
    try:
        o = run_case(case)
        return {"case": describe(case), "outcome": o.outcome, "errors": o.errors, "violates": bool(o.errors)}
    finally:
        if _TMP.get("dir"):
            shutil.rmtree(_TMP["dir"], ignore_errors=True)
            _TMP["dir"] = None
