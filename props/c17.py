"""C17 — every tree skeleton gets a complete, parent-before-child edge order.

E1, fully exhaustive: all rooted labelled trees on n nodes (n^(n-1), from Pruefer
sequences x root) x ALL (n-1)! listings of the edge set, through the real
`toposort_edges` and through `PAFScorer(part_names, edges).sorted_edge_inds`
(node names permuted relative to indices).
"""
from __future__ import annotations

import itertools

from mc import core

LEVEL = "model_checking"
RULE = (
    "all rooted labelled trees on n nodes (Pruefer sequence x root, edges directed parent->child) x all (n-1)! "
    "edge listings, each run through toposort_edges, PAFScorer.sorted_edge_inds and the real group_instances_sample (one animal, every edge matched: "
    "the order in which the assigner receives the edges is observed and the animal must come back as one complete instance; and, through group_instances_batch, the same animal with each leaf in turn undetected must come back as one instance holding every detected part); a case is non-trivial when "
    "n>=3 and the listing is not already parent-first (so the function has to reorder); distinct = distinct (n, tree, listing, api)"
)
ASSUMPTIONS = [
    "n <= 5 (quick) / n <= 6 plus a deterministic 1-in-49 slice of the 117649 rooted trees on 7 nodes with all 720 listings each (thorough); larger skeletons are outside the bound",
    "skeleton is a tree whose edges are written parent->child (the property's class); DAGs/cycles are not in scope",
]


def prufer_trees(n):
    """All labelled trees on nodes 0..n-1 as undirected edge lists."""
    if n == 1:
        yield []
        return
    if n == 2:
        yield [(0, 1)]
        return
    for seq in itertools.product(range(n), repeat=n - 2):
        degree = [1] * n
        for s in seq:
            degree[s] += 1
        edges = []
        seq = list(seq)
        deg = degree[:]
        for s in seq:
            for leaf in range(n):
                if deg[leaf] == 1:
                    edges.append((leaf, s))
                    deg[leaf] -= 1
                    deg[s] -= 1
                    break
        u, v = [i for i in range(n) if deg[i] == 1]
        edges.append((u, v))
        yield edges


def rooted(edges, n, root):
    adj = {i: [] for i in range(n)}
    for a, b in edges:
        adj[a].append(b)
        adj[b].append(a)
    out, seen, stack = [], {root}, [root]
    while stack:
        u = stack.pop()
        for v in sorted(adj[u]):
            if v not in seen:
                seen.add(v)
                out.append((u, v))
                stack.append(v)
    return out


def check_order(order, listing, n):
    """Oracle: permutation of 0..n-2, and the edge into u precedes every edge out of u."""
    m = len(listing)
    if sorted(order) != list(range(m)):
        return f"not a permutation of 0..{m-1}: {tuple(order)}"
    pos = {}
    for rank, ei in enumerate(order):
        pos[ei] = rank
    into = {}
    for ei, (u, v) in enumerate(listing):
        into[v] = ei
    for ei, (u, v) in enumerate(listing):
        if u in into and pos[into[u]] > pos[ei]:
            return f"edge {listing[ei]} (index {ei}) is listed before the edge into its source {listing[into[u]]}"
    return None


def run_case(n, listing, api):
    from sleap_nn.inference.paf_grouping import EdgeType, PAFScorer, toposort_edges

    if api == "toposort":
        return tuple(int(i) for i in toposort_edges([EdgeType(u, v) for u, v in listing]))
    if api == "grouping":
        return run_grouping(n, listing)
    # names permuted relative to indices: node index i is called f"n{(i*3+1)%7}"-like unique labels, and
    # part_names is given in index order (that defines the indices), edges by name
    names = [f"p{(5 * i + 2) % 11}" for i in range(n)]
    sc = PAFScorer(part_names=names, edges=[(names[u], names[v]) for u, v in listing], pafs_stride=2)
    if [tuple(e) for e in sc.edge_inds] != [tuple(e) for e in listing]:
        return ("edge_inds mismatch", sc.edge_inds)
    return tuple(int(i) for i in sc.sorted_edge_inds)


def run_grouping(n, listing):
    """The order actually USED for grouping: one animal with one peak per node and every listed edge matched goes through
    the real group_instances_sample with the scorer's own sorted_edge_inds; the order in which
    assign_connections_to_instances receives the edge types is observed (harness-side wrapper), and the animal must come
    back as ONE instance holding all n nodes ("no body part is left ungrouped")."""
    import numpy as np
    import torch

    import sleap_nn.inference.paf_grouping as G

    names = [f"p{(5 * i + 2) % 11}" for i in range(n)]
    sc = G.PAFScorer(part_names=names, edges=[(names[u], names[v]) for u, v in listing], pafs_stride=2)
    seen = []
    real = G.assign_connections_to_instances

    def spy(connections, *a, **k):
        seen.append([(int(et.src_node_ind), int(et.dst_node_ind)) for et in connections.keys()])
        return real(connections, *a, **k)

    G.assign_connections_to_instances = spy
    try:
        m = len(listing)
        out = G.group_instances_sample(
            torch.tensor([[3.0 + 7 * i, 5.0 + 3 * i] for i in range(n)]),
            torch.ones(n),
            torch.arange(n, dtype=torch.int32),
            torch.arange(m, dtype=torch.int32),
            torch.zeros(m, dtype=torch.int32),
            torch.zeros(m, dtype=torch.int32),
            torch.ones(m),
            n,
            sc.sorted_edge_inds,
            sc.edge_types,
            0,
        )
    finally:
        G.assign_connections_to_instances = real
    inst = np.asarray(out[0])
    whole = [i for i in range(len(inst)) if not np.isnan(inst[i]).any()]
    grouped = len(inst) == 1 and len(whole) == 1
    order = None
    if seen:
        idx = {tuple(e): i for i, e in enumerate(listing)}
        order = tuple(idx.get(e, -1) for e in seen[0])
    # batch level (group_instances_batch through the scorer): sample 0 fully detected, sample j with leaf j undetected
    # (no peak for that node, no match for the edge into it); every detected part must end up in ONE instance
    leaves = [v for v in range(n) if all(u != v for u, _ in listing)]
    variants = [None] + [lf for lf in leaves if m >= 2]
    pk, pv, pc, me, ms_, md, ml = [], [], [], [], [], [], []
    for miss in variants:
        nodes = [i for i in range(n) if i != miss]
        edges_ = [k for k, (u, v) in enumerate(listing) if v != miss]
        pk.append(torch.tensor([[3.0 + 7 * i, 5.0 + 3 * i] for i in nodes]))
        pv.append(torch.ones(len(nodes)))
        pc.append(torch.tensor(nodes, dtype=torch.int32))
        me.append(torch.tensor(edges_, dtype=torch.int32))
        ms_.append(torch.zeros(len(edges_), dtype=torch.int32))
        md.append(torch.zeros(len(edges_), dtype=torch.int32))
        ml.append(torch.ones(len(edges_)))
    nt = torch.nested.nested_tensor
    bad = None
    try:
        res = G.group_instances_batch(nt(pk), nt(pv), nt(pc), nt(me), nt(ms_), nt(md), nt(ml), n, sc.sorted_edge_inds, sc.edge_types, 0)
        for b, miss in enumerate(variants):
            pi = np.asarray(res[0][b])
            rows = [r for r in pi if not np.isnan(r).all()]
            want = [i for i in range(n) if i != miss]
            if len(rows) != 1 or [i for i in range(n) if not np.isnan(rows[0][i]).any()] != want:
                got = [[i for i in range(n) if not np.isnan(r[i]).any()] for r in rows]
                bad = f"group_instances_batch, node {miss} undetected: detected parts {want} come back as instances holding {got}"
                break
    except Exception as e:
        bad = f"group_instances_batch raised {type(e).__name__}: {e}"
    return ("grouping", order, grouped if bad is None else bad, len(inst))


def work(part, shard):
    prev = {}
    for n, tree, root in shard:
        r = rooted(tree, n, root)
        for listing in itertools.permutations(r):
            listing = list(listing)
            parent_first = check_order(list(range(len(listing))), listing, n) is None
            for api in ("toposort", "pafscorer", "grouping"):
                # all listings of one tree run consecutively in this process; a case remembers its predecessor so that a
                # failure caused by state left behind by the previous call can be replayed
                case = {"n": n, "listing": listing, "api": api}
                if api in prev:
                    case["after"] = prev[api]
                prev[api] = {"n": n, "listing": listing, "api": api}
                part.count()
                part.transition()
                key = (n, tuple(listing), api)
                part.state(repr(key))
                nt = n >= 3 and not parent_first
                if nt:
                    part.nontriv(repr(key))
                part.sample(case, nt)
                try:
                    order = run_case(n, listing, api)
                except Exception as e:  # the real code raised
                    part.violation(case, f"raised {type(e).__name__}: {e}")
                    continue
                part.outcome(repr(order))
                if api == "grouping":
                    _, used, grouped, ninst = order
                    err = None
                    if used is not None:
                        err = check_order(list(used), listing, n)
                        if err:
                            err = f"order in which grouping consumes the edges {used}: {err}"
                    if err is None and isinstance(grouped, str):
                        err = grouped
                    if err is None and not grouped:
                        err = f"one animal with all {n} nodes and every edge matched comes back as {ninst} instance(s), not one complete instance"
                    if err:
                        part.violation(case, err)
                    continue
                err = check_order(list(order), listing, n) if all(isinstance(i, int) for i in order) else str(order)
                if err:
                    part.violation(case, f"order={order}: {err}")


def run(ctx):
    core.setup_torch()
    nmax = 5 if ctx.tier == "quick" else 6
    items = []
    for n in range(2, nmax + 1):
        for tree in prufer_trees(n):
            for root in range(n):
                items.append((n, tree, root))
    ctx.bounds = {"n_max_all_trees_all_listings": nmax}
    if ctx.tier == "thorough":
        k = 0
        for tree in prufer_trees(7):
            for root in range(7):
                if k % 49 == ctx.seed % 49:
                    items.append((7, tree, root))
                k += 1
        ctx.bounds["n7_slice"] = "1-in-49 of the 117649 rooted trees, all 720 listings each (slice index = VERIF_SEED mod 49)"
    items = core.rotate(items, ctx.seed)
    core.pmap(ctx, work, core.shard_list(items, 64 if len(items) > 2000 else 8))


def replay(case):
    if case.get("after"):
        a = case["after"]
        try:
            run_case(a["n"], [tuple(e) for e in a["listing"]], a["api"])  # rebuild the one-step history
        except Exception:
            pass
    listing = [tuple(e) for e in case["listing"]]
    order = run_case(case["n"], listing, case["api"])
    if case["api"] == "grouping":
        _, used, grouped, ninst = order
        err = check_order(list(used), listing, case["n"]) if used is not None else None
        if err is None and isinstance(grouped, str):
            err = grouped
        if err is None and not grouped:
            err = f"{ninst} instance(s) instead of one complete instance"
        return {"order_used": used, "grouped_as_one": grouped, "error": err, "violates": err is not None}
    err = check_order(list(order), listing, case["n"])
    return {"order": order, "error": err, "violates": err is not None}
