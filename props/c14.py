"""C14 — every valid model configuration yields outputs of the contracted shape; eval output is history/batch independent.

(a) E1, configuration grid.  A superset of configurations is enumerated and filtered through the
    *validity predicate* `valid()` (docs/config.md + DESIGN §3 C14): strides are powers of two, backbone
    output_stride = min(head strides), every head stride < max_stride, stem in {None,2,4} (< max_stride),
    convs_per_block >= 2, ConvNeXt/Swin-T max_stride = 8 * stem_patch_stride.  Every valid point is built with
    the real `Model(...)` and run on inputs (k1*max_stride, k2*max_stride) x batch (one instance per configuration,
    inputs in a fixed order, so the grid is at the same time a set of call histories of differing sizes).  Oracle (property text, plain
    arithmetic): exactly one output per head, shape (batch, parts | 2*edges, H/stride, W/stride), which must
    also be the per-sample shape that generate_confmaps / generate_multiconfmaps / generate_pafs produce for
    that head on an image of the same size.  Any exception at construction or forward is a violation.

(b) E2, call histories in eval mode.  For representatives of each family every call sequence up to the depth
    bound over the alphabet {frame a (1x,1x), frame b (2x,1x), frame c (1x,3x), batch [a,d] (1x,1x), ...} is
    executed on a fresh copy of the model (no pruning); after every history the module's non-parameter
    mutable state (training flags, every plain attribute such as MaxPool2dWithSamePadding.padding, buffers,
    parameter digest) is hashed and counted.  Oracle: the last call's output equals, row by row, the output
    a *fresh* copy gives for that frame alone (batch of one) — this is determinism, independence of earlier
    calls and independence of batch-mates in one relation; the model must still be in eval mode afterwards.
"""
from __future__ import annotations

import copy
import itertools

from mc import core

LEVEL = "model_checking"
RULE = (
    "grid: every point of (family x max_stride x stem x filters x filters_rate x convs_per_block x up_interpolate x "
    "middle_block x head type x head stride(s)) that satisfies the validity predicate, x input size x batch; one "
    "evaluation = one forward pass of the real Model built for that configuration (all inputs of a configuration go through "
    "one instance, in order; the case records the prior inputs and replay repeats them); non-trivial = the stride/channel bookkeeping is "
    "exercised beyond the default path (two heads at different strides, or fractional filters_rate, or a stem, or "
    "ConvNeXt/Swin head stride != stem stride).  histories: every call sequence up to the depth bound over the "
    "input alphabet on a fresh copy of each representative model (no pruning), one evaluation = one history, "
    "non-trivial = length >= 2 with at least two different symbols; states = distinct grid points + distinct "
    "(model, hashed non-parameter module state) pairs reached by histories"
)
ASSUMPTIONS = [
    "ConvNeXt / Swin filters_rate given as the int 2 and (transposed-conv upsampling) as the float 2.0 the schema declares",
    "UNet max_stride in {2, 4, 8, 16, 32} (2 = a single down block)",
    "validity predicate as in DESIGN §3 C14 (docs/config.md): power-of-two strides, backbone output_stride = min(head strides), "
    "head strides < max_stride, stem in {None,2,4}, convs_per_block >= 2, ConvNeXt/Swin max_stride = 8*stem_patch_stride, filters_rate 2 for ConvNeXt/Swin "
    "(their stage widths double by construction)",
    "narrow networks (UNet filters 4..12; ConvNeXt/Swin miniature custom arch plus preset 'tiny'), in_channels 1, kernel 3, random weights (torch seed 1000+VERIF_SEED), pre-trained weights None",
    "inputs are multiples of max_stride: (k1,k2) in {1,2,3}^2 x batch {1,2} (thorough, base filters) / {(1,1)x1,(2,3)x2} (quick, extra filter widths)",
    "histories: depth <= 3 (quick) / <= 4 (thorough, miniature nets), alphabet of 4 (quick) / 5 (thorough) call symbols; value tolerance 1e-6 + 1e-5*|ref| (DESIGN: 1e-6)",
    "skeleton: 3 parts, 2 edges; anchor_part None",
]
TOL_ABS = 1e-6
TOL_REL = 1e-5

PARTS = ["n0", "n1", "n2"]
EDGES = [["n0", "n1"], ["n1", "n2"]]
EDGE_INDS = [[0, 1], [1, 2]]
SINGLE_TYPES = ("single_instance", "centroid", "centered_instance")
HEAD_CLASS = {
    "single_instance": "SingleInstanceConfmapsHead",
    "centroid": "CentroidConfmapsHead",
    "centered_instance": "CenteredInstanceConfmapsHead",
}
MINI_CONVNEXT = {"depths": [1, 1, 1, 1], "channels": [4, 8, 16, 32]}
MINI_CONVNEXT_B = {"depths": [1, 2, 1, 1], "channels": [6, 12, 24, 48]}
MINI_SWIN = {"embed": 4, "depths": [1, 1, 1, 1], "num_heads": [1, 1, 2, 2]}
MINI_SWIN_B = {"embed": 8, "depths": [2, 2, 2, 2], "num_heads": [1, 2, 2, 4]}



# ---------------------------------------------------------------------------
# configurations (plain JSON-able dicts)


def unet_cfg(ms, out_stride, stem, filters, rate, cpb, upi, mb):
    return {
        "in_channels": 1,
        "kernel_size": 3,
        "filters": filters,
        "filters_rate": rate,
        "max_stride": ms,
        "stem_stride": stem,
        "middle_block": mb,
        "up_interpolate": upi,
        "stacks": 1,
        "convs_per_block": cpb,
        "output_stride": out_stride,
    }


def convnext_cfg(stem, out_stride, upi, model_type, arch, cpb=2, ms=None):
    return {
        "in_channels": 1,
        "model_type": model_type,
        "arch": arch,
        "kernel_size": 3,
        "filters_rate": 2,
        "convs_per_block": cpb,
        "up_interpolate": upi,
        "stem_patch_kernel": 4,
        "stem_patch_stride": stem,
        "output_stride": out_stride,
        "max_stride": stem * 8 if ms is None else ms,
    }


def swint_cfg(stem, out_stride, upi, model_type, arch, cpb=2, ms=None):
    return {
        "in_channels": 1,
        "model_type": model_type,
        "arch": arch,
        "patch_size": [4, 4],
        "window_size": [7, 7],
        "kernel_size": 3,
        "filters_rate": 2,
        "convs_per_block": cpb,
        "up_interpolate": upi,
        "stem_patch_stride": stem,
        "output_stride": out_stride,
        "max_stride": stem * 8 if ms is None else ms,
    }


def head_cfg(model_type, s1, s2=None, pafs_first=False):
    if model_type == "single_instance":
        return {"confmaps": {"part_names": PARTS, "sigma": 1.5, "output_stride": s1, "loss_weight": 1.0}}
    if model_type == "centered_instance":
        return {"confmaps": {"part_names": PARTS, "anchor_part": None, "sigma": 1.5, "output_stride": s1, "loss_weight": 1.0}}
    if model_type == "centroid":
        return {"confmaps": {"anchor_part": None, "sigma": 1.5, "output_stride": s1, "loss_weight": 1.0}}
    if model_type == "bottomup":
        cms = {"part_names": PARTS, "sigma": 1.5, "output_stride": s1, "loss_weight": 1.0}
        pafs = {"edges": EDGES, "sigma": 4.0, "output_stride": s2, "loss_weight": 1.0}
        # a config file may list the two heads in either order; the heads are identified by key, not by position
        return {"pafs": pafs, "confmaps": cms} if pafs_first else {"confmaps": cms, "pafs": pafs}
    raise ValueError(model_type)


def head_strides(heads):
    return [int(h["output_stride"]) for h in heads.values()]


def _pow2(v):
    return isinstance(v, int) and v >= 1 and (v & (v - 1)) == 0


def valid(family, bb, heads):
    """The validity predicate (the code does not enforce it; docs/config.md + DESIGN §3 C14)."""
    ms, out = bb["max_stride"], bb["output_stride"]
    hs = head_strides(heads)
    if not (_pow2(ms) and _pow2(out) and all(_pow2(s) for s in hs)):
        return False
    if out != min(hs):
        return False
    if not all(out <= s < ms for s in hs):
        return False
    if bb["convs_per_block"] < 2:
        return False
    if family == "unet":
        st = bb["stem_stride"]
        if st not in (None, 2, 4):
            return False
        if st is not None and not st < ms:
            return False
    else:
        if bb["stem_patch_stride"] not in (2, 4):
            return False
        if ms != bb["stem_patch_stride"] * 8:
            return False
    return True


def expected_shapes(model_type, heads, hw, batch):
    """Oracle from the property text: channels = parts | 2*edges, spatial = input / head stride."""
    H, W = hw
    exp = {}
    if model_type == "bottomup":
        s = heads["confmaps"]["output_stride"]
        exp["MultiInstanceConfmapsHead"] = (batch, len(heads["confmaps"]["part_names"]), H // s, W // s)
        s = heads["pafs"]["output_stride"]
        exp["PartAffinityFieldsHead"] = (batch, 2 * len(heads["pafs"]["edges"]), H // s, W // s)
    else:
        s = heads["confmaps"]["output_stride"]
        ch = 1 if model_type == "centroid" else len(heads["confmaps"]["part_names"])
        exp[HEAD_CLASS[model_type]] = (batch, ch, H // s, W // s)
    return exp


_TARGET_CACHE = {}


def target_shapes(model_type, heads, hw):
    """Per-sample target shapes the data pipeline produces (real generate_* functions, called as the datasets call them)."""
    import torch

    from sleap_nn.data.confidence_maps import generate_confmaps, generate_multiconfmaps
    from sleap_nn.data.edge_maps import generate_pafs

    key = (model_type, tuple(hw), tuple(sorted((k, v["output_stride"]) for k, v in heads.items())))
    if key in _TARGET_CACHE:
        return _TARGET_CACHE[key]
    # two animals, three nodes, all strictly inside (0, 4) px so that no in-image filter drops them (min side 8, stride <= side/2)
    inst = torch.tensor(
        [[[[1.5, 1.25], [2.5, 2.0], [3.0, 3.5]], [[3.25, 1.0], [1.0, 2.75], [2.0, 3.0]]]], dtype=torch.float32
    )  # (1, 2, 3, 2)
    hw = (int(hw[0]), int(hw[1]))
    out = {}
    if model_type in ("single_instance", "centered_instance"):
        c = heads["confmaps"]
        t = generate_confmaps(inst[:, 0], img_hw=hw, sigma=c["sigma"], output_stride=c["output_stride"])
        out[HEAD_CLASS[model_type]] = tuple(t.shape[1:])  # (n_samples=1, C, h, w)
    elif model_type == "centroid":
        c = heads["confmaps"]
        cent = inst.mean(dim=2)  # (1, 2, 2)
        t = generate_multiconfmaps(cent, img_hw=hw, num_instances=2, sigma=c["sigma"], output_stride=c["output_stride"], is_centroids=True)
        out["CentroidConfmapsHead"] = tuple(t.shape[1:])
    else:
        c = heads["confmaps"]
        t = generate_multiconfmaps(inst, img_hw=hw, num_instances=2, sigma=c["sigma"], output_stride=c["output_stride"], is_centroids=False)
        out["MultiInstanceConfmapsHead"] = tuple(t.shape[1:])
        p = heads["pafs"]
        t = generate_pafs(inst, img_hw=hw, sigma=p["sigma"], output_stride=p["output_stride"], edge_inds=torch.Tensor(EDGE_INDS), flatten_channels=True)
        out["PartAffinityFieldsHead"] = tuple(t.shape)  # (2E, h, w) for the single sample
    _TARGET_CACHE[key] = out
    return out


# ---------------------------------------------------------------------------
# real code drivers


def build(mc):
    """Construct the real Model for model-case `mc` (family, backbone, model_type, heads, wseed), eval mode."""
    import torch
    from omegaconf import OmegaConf

    from sleap_nn.architectures.model import Model

    torch.manual_seed(int(mc["wseed"]))
    m = Model(
        backbone_type=mc["family"],
        backbone_config=OmegaConf.create(mc["backbone"]),
        head_configs=OmegaConf.create(mc["heads"]),
        input_expand_channels=1,
        model_type=mc["model_type"],
    )
    m.eval()
    return m


_FRAME_PARAMS = {  # name: (fy, fx, phase, amplitude, offset)  -- different max / mean per frame
    "a": (0.37, 0.91, 0.0, 0.50, 0.50),
    "b": (0.73, 0.29, 1.1, 0.35, 0.40),
    "c": (0.53, 0.61, 2.3, 0.25, 0.30),
    "d": (1.07, 0.43, 0.7, 0.15, 0.20),
    "e": (0.19, 1.31, 1.9, 0.45, 0.55),
}


def frame(name, H, W):
    """Deterministic (1, 1, H, W) float32 image."""
    import numpy as np
    import torch

    fy, fx, ph, amp, off = _FRAME_PARAMS[name]
    yy, xx = np.meshgrid(np.arange(H, dtype=np.float64), np.arange(W, dtype=np.float64), indexing="ij")
    img = off + amp * np.sin(fy * yy + fx * xx + ph) * np.cos(0.11 * yy * xx / (H + W) + ph)
    return torch.from_numpy(img.astype(np.float32))[None, None]


def grid_input(hw, batch):
    import torch

    names = ["a", "d", "b", "c"]
    return torch.cat([frame(names[i % 4], hw[0], hw[1]) for i in range(batch)], dim=0)


def forward(m, x):
    import torch

    with torch.no_grad():
        return m(x)


def check_shapes(mc, hw, batch, out):
    """Return None or a message."""
    import torch

    exp = expected_shapes(mc["model_type"], mc["heads"], hw, batch)
    if not isinstance(out, dict):
        return f"forward returned {type(out).__name__}, expected a dict with one entry per head"
    got = {k: (tuple(v.shape) if isinstance(v, torch.Tensor) else type(v).__name__) for k, v in out.items()}
    if got != exp:
        return f"output shapes {got} != contracted {exp} (input {(batch, 1) + tuple(hw)})"
    try:
        tgt = target_shapes(mc["model_type"], mc["heads"], hw)
    except Exception as e:
        return f"target generator raised {type(e).__name__}: {e}"
    per_sample = {k: v[1:] for k, v in got.items()}
    if per_sample != tgt:
        return f"per-sample output shapes {per_sample} != shapes of the pipeline's targets {tgt}"
    for k, v in out.items():
        if v.dtype != torch.float32:
            return f"output {k} has dtype {v.dtype}"
    return None


def nontrivial_grid(mc):
    bb, hs = mc["backbone"], head_strides(mc["heads"])
    if len(set(hs)) > 1:
        return True
    if mc["family"] == "unet":
        return bb["stem_stride"] is not None or float(bb["filters_rate"]) != int(bb["filters_rate"])
    return hs[0] != bb["stem_patch_stride"]


def _sig(mc, phase, e):
    return f"viol_{mc['family']}_{phase}_{type(e).__name__}"


def run_grid_point(mc, hw, batch, model=None, prior=()):
    """One grid point on the real code -> (message or None, observed).  `prior` = inputs already fed to the same
    instance (the explorer pushes all inputs of a configuration through one instance, in order; replay repeats that)."""
    if model is None:
        model = build(mc)
        for phw, pb in prior:
            forward(model, grid_input(tuple(phw), int(pb)))
    out = forward(model, grid_input(hw, batch))
    msg = check_shapes(mc, hw, batch, out)
    obs = {k: list(v.shape) for k, v in out.items()} if isinstance(out, dict) else repr(out)
    return msg, obs


def work_grid(part, shard):
    for mc, inputs in shard:
        nt = nontrivial_grid(mc)
        part.add("grid_models")
        try:
            model = build(mc)
        except Exception as e:
            hw, batch = inputs[0]
            case = dict(mc, part="grid", hw=list(hw), batch=batch, prior=[])
            part.count()
            part.transition()
            part.state(core.digest(case))
            part.sample(case, nt)
            part.add("grid_models_construction_failed")
            part.add(_sig(mc, "build", e))
            part.violation(case, f"construction raised {type(e).__name__}: {e}")
            continue
        prior = []
        for hw, batch in inputs:
            case = dict(mc, part="grid", hw=list(hw), batch=batch, prior=list(prior))
            key = core.digest(case)
            part.count()
            part.transition()
            part.state(key)
            if nt:
                part.nontriv(key)
            part.sample(case, nt)
            try:
                msg, obs = run_grid_point(mc, hw, batch, model)
            except Exception as e:
                part.add(_sig(mc, "forward", e))
                part.violation(case, f"forward raised {type(e).__name__}: {e}")
                # a forward that raised half-way may leave the instance in an arbitrary state: continue on a new one
                try:
                    model = build(mc)
                    prior = []
                except Exception:
                    break
                continue
            prior.append([list(hw), batch])
            part.outcome(repr((mc["family"], sorted(obs.items()) if isinstance(obs, dict) else obs)))
            if msg:
                part.add(f"viol_{mc['family']}_shape")
                part.violation(case, msg)


# ---------------------------------------------------------------------------
# grid enumeration


def head_space(strides, pairs="all"):
    """(model_type, s1, s2) over a stride alphabet."""
    out = [(mt, s, None) for mt in SINGLE_TYPES for s in strides]
    for a in strides:
        for b in strides:
            if pairs == "all" or (pairs == "cms<=paf" and a <= b):
                out.append(("bottomup", a, b))
    return out


ALL_STRIDES = (1, 2, 4, 8, 16, 32)


def enum_models(tier, wseed, counters):
    """Enumerate a superset and keep what the validity predicate admits.  Returns [(mc, inputs)], simplest first."""
    full_inputs = [((k1, k2), b) for k1 in (1, 2, 3) for k2 in (1, 2, 3) for b in (1, 2)]
    two_inputs = [((1, 1), 1), ((2, 3), 2)]
    items = []

    def add(family, bb, model_type, heads, inputs):
        counters["enumerated"] += 1
        if not valid(family, bb, heads):
            return
        counters["valid"] += 1
        ms = bb["max_stride"]
        mc = {"family": family, "backbone": bb, "model_type": model_type, "heads": heads, "wseed": wseed}
        items.append((mc, [((k1 * ms, k2 * ms), b) for (k1, k2), b in inputs]))
        if model_type == "bottomup" and len(set(head_strides(heads))) == 2:
            # the same model with the heads listed pafs-first (key order of the config mapping)
            counters["valid"] += 1
            mc2 = dict(mc, heads={k: heads[k] for k in reversed(list(heads))})
            items.append((mc2, [((k1 * ms, k2 * ms), b) for (k1, k2), b in inputs[:1]]))

    # ---- UNet
    filt_full = (4,)
    filt_extra = () if tier == "quick" else (6, 8, 12)
    for ms in (2, 4, 8, 16, 32):  # 2: an encoder with a single down block
        for filters in filt_full + filt_extra:
            inputs = (two_inputs if tier == "quick" else full_inputs) if filters in filt_full else two_inputs
            for stem, rate, cpb, upi, mb in itertools.product((None, 2, 4), (2, 1.5), (2, 3), (True, False), (True, False)):
                for mt, s1, s2 in head_space([s for s in ALL_STRIDES if s <= ms]):
                    heads = head_cfg(mt, s1, s2)
                    bb = unet_cfg(ms, min(head_strides(heads)), stem, filters, rate, cpb, upi, mb)
                    add("unet", bb, mt, heads, inputs)
    # ---- ConvNeXt / Swin-T, miniature custom arch
    for family, mk, archs in (
        ("convnext", convnext_cfg, (MINI_CONVNEXT,) if tier == "quick" else (MINI_CONVNEXT, MINI_CONVNEXT_B)),
        ("swint", swint_cfg, (MINI_SWIN,) if tier == "quick" else (MINI_SWIN, MINI_SWIN_B)),
    ):
        for arch in archs:
            for stem in (2, 4):
                for upi in (True, False):
                    for cpb in (2,) if tier == "quick" else (2, 3):
                        for mt, s1, s2 in head_space([s for s in ALL_STRIDES if s <= stem * 8]):
                            heads = head_cfg(mt, s1, s2)
                            bb = mk(stem, min(head_strides(heads)), upi, None, arch, cpb)
                            add(family, bb, mt, heads, two_inputs if tier == "quick" else full_inputs)
                            if not upi:  # filters_rate as the float the schema declares (OmegaConf.structured gives 2.0)
                                add(family, dict(bb, filters_rate=2.0), mt, heads, (two_inputs if tier == "quick" else full_inputs)[:1])
    # ---- presets
    for family, mk in (("convnext", convnext_cfg), ("swint", swint_cfg)):
        for stem in (2, 4):
            strides = [s for s in ALL_STRIDES if s <= stem * 8]
            if tier == "quick":
                space = [("centroid", s, None) for s in strides] + [("bottomup", stem, 2 * stem), ("bottomup", 2 * stem, 4 * stem)]
                upis, inputs = (True,), [((1, 1), 1)]
            else:
                space = head_space(strides)
                upis, inputs = (True, False), [((1, 1), 1), ((2, 1), 2), ((1, 3), 1)]
            for upi in upis:
                for mt, s1, s2 in space:
                    heads = head_cfg(mt, s1, s2)
                    bb = mk(stem, min(head_strides(heads)), upi, "tiny", None)
                    add(family, bb, mt, heads, inputs)
    return items


# ---------------------------------------------------------------------------
# E2: call histories


SYMBOLS = {  # symbol -> (frames, (k1, k2))
    "a11": (("a",), (1, 1)),
    "b21": (("b",), (2, 1)),
    "c13": (("c",), (1, 3)),
    "ad11": (("a", "d"), (1, 1)),
    "eb21": (("e", "b"), (2, 1)),
}


def symbol_input(sym, ms):
    import torch

    frames, (k1, k2) = SYMBOLS[sym]
    return torch.cat([frame(f, k1 * ms, k2 * ms) for f in frames], dim=0)


def module_state(m):
    """Canonical description of everything on the module tree that is not a registered parameter:
    training flags, plain-valued instance attributes (e.g. MaxPool2dWithSamePadding.padding), buffers; plus a
    digest of the parameters (they must not move in eval mode either)."""
    import torch

    st = {}
    skip = {"_parameters", "_modules", "_buffers", "_non_persistent_buffers_set"}
    for name, mod in m.named_modules():
        d = {}
        for k, v in vars(mod).items():
            if k in skip or k.endswith("_hooks") or k.endswith("_hooks_with_kwargs") or k.endswith("_hooks_always_called"):
                continue
            if isinstance(v, (bool, int, float, str, type(None))):
                d[k] = v
            elif isinstance(v, (tuple, list)) and all(isinstance(i, (bool, int, float, str, type(None))) for i in v):
                d[k] = list(v)
            elif isinstance(v, torch.Tensor):
                d[k] = ["tensor", list(v.shape), float(v.double().sum())]
            elif isinstance(v, dict) and k not in ("_modules",) and all(isinstance(i, (bool, int, float, str, type(None))) for i in v.values()):
                d[k] = {str(a): b for a, b in v.items()}
        for k, b in mod._buffers.items():
            if b is not None:
                d["buffer:" + k] = [list(b.shape), float(b.double().sum()), float((b.double() ** 2).sum())]
        st[name] = d
    psum = 0.0
    for p in m.parameters():
        psum += float(p.detach().double().abs().sum())
    st["__params__"] = psum
    return st


def compare_rows(out, refs, frames, exp_names):
    """out: dict head -> (B, C, h, w); refs[frame]: dict head -> (1, C, h, w).  Returns (msg or None, max_dev)."""
    import torch

    if not isinstance(out, dict) or sorted(out) != sorted(exp_names):
        return f"outputs {sorted(out) if isinstance(out, dict) else type(out).__name__} != heads {sorted(exp_names)}", 0.0
    worst = 0.0
    for hname in exp_names:
        o = out[hname]
        if o.shape[0] != len(frames):
            return f"{hname}: batch axis {o.shape[0]} != {len(frames)} frames", worst
        for i, f in enumerate(frames):
            r = refs[f][hname][0]
            if tuple(o[i].shape) != tuple(r.shape):
                return f"{hname} row {i} (frame {f}): shape {tuple(o[i].shape)} != {tuple(r.shape)} of the fresh single-frame call", worst
            dev = float((o[i].double() - r.double()).abs().max()) if o[i].numel() else 0.0
            if dev != dev:
                dev = float("inf")
            worst = max(worst, dev)
            if not bool(torch.isclose(o[i], r, rtol=TOL_REL, atol=TOL_ABS, equal_nan=True).all()):
                return (
                    f"{hname} row {i} (frame {f}{' in a batch of ' + str(len(frames)) if len(frames) > 1 else ''}): "
                    f"max |out - fresh single-frame out| = {dev:.3e} > {TOL_ABS:g}+{TOL_REL:g}|ref|"
                ), worst
    return None, worst


def references(pristine, ms, symbols):
    """Fresh-copy output for every frame of the alphabet alone (batch of one)."""
    refs = {}
    for sym in symbols:
        frames, (k1, k2) = SYMBOLS[sym]
        for f in frames:
            if f not in refs:
                refs[f] = forward(copy.deepcopy(pristine), frame(f, k1 * ms, k2 * ms))
    return refs


def hist_seed(history):
    return 7 + sum((i + 1) * sum(map(ord, s)) for i, s in enumerate(history))


def run_history(mc, history, pristine=None, refs=None):
    """Execute one history on a fresh copy -> (msg or None, max_dev, state, out shapes)."""
    import torch

    if pristine is None:
        pristine = build(mc)
    ms = mc["backbone"]["max_stride"]
    if refs is None:
        torch.manual_seed(3)
        refs = references(pristine, ms, sorted(set(history)))
    exp_names = list(expected_shapes(mc["model_type"], mc["heads"], (ms, ms), 1))
    m = copy.deepcopy(pristine)
    torch.manual_seed(hist_seed(history))  # any RNG-consuming layer sees a history-specific stream
    out = None
    for sym in history:
        out = forward(m, symbol_input(sym, ms))
    frames = SYMBOLS[history[-1]][0]
    msg, dev = compare_rows(out, refs, frames, exp_names)
    st = module_state(m)
    if msg is None:
        ntrain = sum(1 for mod in m.modules() if mod.training)
        if ntrain:
            msg = f"after {len(history)} eval-mode call(s) {ntrain} submodule(s) are in training mode"
    shapes = {k: list(v.shape) for k, v in out.items()} if isinstance(out, dict) else repr(out)
    return msg, dev, st, shapes


def work_hist(part, shard):
    import torch

    for mc, first, symbols, depth in shard:
        mkey = core.digest(mc)
        ms = mc["backbone"]["max_stride"]
        try:
            pristine = build(mc)
            torch.manual_seed(3)
            refs = references(pristine, ms, symbols)
        except Exception as e:
            case = dict(mc, part="history", history=[first])
            part.count()
            part.add("viol_history_setup")
            part.violation(case, f"setting up the representative raised {type(e).__name__}: {e}")
            continue
        part.state(repr((mkey, core.digest(module_state(pristine)))))
        for L in range(1, depth + 1):
            for rest in itertools.product(symbols, repeat=L - 1):
                history = [first] + list(rest)
                case = dict(mc, part="history", history=history)
                part.count()
                part.transition(len(history))
                part.add("histories")
                nt = len(set(history)) >= 2
                if nt:
                    part.nontriv(core.digest(case))
                part.sample(case, nt)
                try:
                    msg, dev, st, shapes = run_history(mc, history, pristine, refs)
                except Exception as e:
                    part.add("viol_history_raised")
                    part.violation(case, f"history raised {type(e).__name__}: {e}")
                    continue
                part.maxi("max_dev_history", dev)
                part.state(repr((mkey, core.digest(st))))
                part.outcome(repr((mc["family"], history[-1], sorted(shapes.items()) if isinstance(shapes, dict) else shapes)))
                if msg:
                    part.add("viol_history")
                    part.violation(case, msg)
        # replayability: a second construction with the same torch seed must reproduce the reference
        # (checked last so that forward-pass nondeterminism is reported by the histories above, in their own words)
        case = dict(mc, part="history", history=[first])
        try:
            torch.manual_seed(11)
            again = forward(build(mc), symbol_input(first, ms))
            msg, dev = compare_rows(again, refs, SYMBOLS[first][0], list(again))
        except Exception as e:
            msg = f"second construction raised {type(e).__name__}: {e}"
        if msg:
            part.add("viol_history_rebuild")
            part.violation(case, "a second construction with the same torch seed does not reproduce the fresh-copy output: " + msg)


def representatives(tier, wseed):
    def mc(family, bb, mt, s1, s2=None):
        heads = head_cfg(mt, s1, s2)
        bb = dict(bb, output_stride=min(head_strides(heads)))
        assert valid(family, bb, heads), (family, bb, heads)
        return {"family": family, "backbone": bb, "model_type": mt, "heads": heads, "wseed": wseed}

    reps = [
        mc("unet", unet_cfg(16, 0, None, 4, 1.5, 2, True, True), "bottomup", 2, 4),
        mc("unet", unet_cfg(8, 0, 2, 4, 2, 3, False, False), "single_instance", 1),
        mc("unet", unet_cfg(16, 0, 4, 8, 2, 2, True, True), "centroid", 8),
        mc("convnext", convnext_cfg(2, 0, True, None, MINI_CONVNEXT), "centered_instance", 2),
        mc("convnext", convnext_cfg(4, 0, False, None, MINI_CONVNEXT_B), "bottomup", 1, 4),
        mc("swint", swint_cfg(2, 0, True, None, MINI_SWIN_B), "centroid", 2),
        mc("swint", swint_cfg(4, 0, False, None, MINI_SWIN), "bottomup", 2, 4),
    ]
    presets = []
    if tier == "thorough":
        reps += [
            mc("unet", unet_cfg(32, 0, 2, 6, 1.5, 3, False, True), "bottomup", 4, 2),
            mc("convnext", convnext_cfg(2, 0, False, None, MINI_CONVNEXT), "single_instance", 1),
            mc("swint", swint_cfg(2, 0, True, None, MINI_SWIN_B), "bottomup", 1, 2),
        ]
        presets = [
            mc("convnext", convnext_cfg(2, 0, True, "tiny", None), "centroid", 2),
            mc("swint", swint_cfg(2, 0, True, "tiny", None), "centroid", 2),
        ]
    return reps, presets


# ---------------------------------------------------------------------------


def run(ctx):
    core.setup_torch()
    # import everything the workers need before forking (torchvision etc. cost ~2 s CPU per process otherwise)
    import omegaconf  # noqa: F401
    import sleap_nn.architectures.model  # noqa: F401
    import sleap_nn.data.confidence_maps  # noqa: F401
    import sleap_nn.data.edge_maps  # noqa: F401

    wseed = 1000 + ctx.seed
    counters = {"enumerated": 0, "valid": 0}
    items = enum_models(ctx.tier, wseed, counters)
    ctx.extra["grid_configs_enumerated"] = counters["enumerated"]
    ctx.extra["grid_configs_valid"] = counters["valid"]
    ctx.extra["grid_points_valid"] = sum(len(i[1]) for i in items)
    # expensive presets first inside each shard does not matter; round-robin sharding spreads them
    items = core.rotate(items, ctx.seed)
    core.pmap(ctx, work_grid, core.shard_list(items, 96))

    reps, presets = representatives(ctx.tier, wseed)
    if ctx.tier == "quick":
        symbols, depth = ["a11", "b21", "c13", "ad11"], 3
    else:
        symbols, depth = ["a11", "b21", "c13", "ad11", "eb21"], 4
    shards = [[(mc, first, symbols, depth)] for mc in reps for first in symbols]
    psym = ["a11", "b21", "c13", "ad11"]
    shards += [[(mc, first, psym, 3)] for mc in presets for first in psym]
    shards = core.rotate(shards, ctx.seed)
    core.pmap(ctx, work_hist, shards)
    ctx.bounds = {
        "tier": ctx.tier,
        "grid": {
            "unet": "max_stride {8,16,32} x stem {None,2,4} x filters_rate {2,1.5} x convs_per_block {2,3} x up_interpolate 2 x middle_block 2 x "
            "{single,centroid,centred} x stride + bottom-up all ordered (cms,paf) stride pairs; filters "
            + ("{4}" if ctx.tier == "quick" else "{4} (all 18 inputs) and {6,8,12} (2 inputs)"),
            "convnext_swint_mini": "stem {2,4} x up_interpolate 2 x head space"
            + ("" if ctx.tier == "quick" else " x convs_per_block {2,3} x 2 miniature archs"),
            "convnext_swint_tiny_preset": "stem {2,4} x centroid at every stride + 2 bottom-up pairs, 1 input" if ctx.tier == "quick" else "stem {2,4} x up_interpolate 2 x full head space, 3 inputs",
            "inputs": "{(1,1)x1,(2,3)x2} x max_stride" if ctx.tier == "quick" else "(k1,k2) in {1,2,3}^2 x batch {1,2}",
            "configs_enumerated": counters["enumerated"],
            "configs_valid": counters["valid"],
        },
        "histories": {"representatives": len(reps), "presets": len(presets), "alphabet": symbols, "depth": depth, "preset_depth": 3 if presets else 0},
        "weight_seed": wseed,
    }


def replay(case):
    core.setup_torch()
    mc = {k: case[k] for k in ("family", "backbone", "model_type", "heads", "wseed")}
    if case.get("part") == "history":
        try:
            msg, dev, st, shapes = run_history(mc, list(case["history"]))
        except Exception as e:
            return {"raised": f"{type(e).__name__}: {e}", "violates": True}
        return {"message": msg, "max_dev": dev, "shapes": shapes, "violates": msg is not None}
    hw, batch = tuple(case["hw"]), int(case["batch"])
    try:
        msg, obs = run_grid_point(mc, hw, batch, None, case.get("prior") or [])
    except Exception as e:
        return {"raised": f"{type(e).__name__}: {e}", "expected": expected_shapes(mc["model_type"], mc["heads"], hw, batch), "violates": True}
    return {"observed": obs, "expected": expected_shapes(mc["model_type"], mc["heads"], hw, batch), "message": msg, "violates": msg is not None}
