"""C11 helper: the bounded alphabet of synthetic label sets and what the property says a dataset must return for them.

A label set is a small JSON-able spec

    {"id": "F1-5-0", "frames": [{"user": [["A", 5], ["B", 0]], "pred": [["P", 7]]}, ...]}

An instance is (animal, pattern): `animal` picks a fixed geometry (centre + three node offsets, all four animals
have different shapes so that a sample built from the wrong instance cannot pass), `pattern` is a 3-bit
visibility mask (bit k set = node k labelled; 0 = an all-NaN "empty" instance).  Everything the oracle needs is
computed from the spec in float64 numpy, never from sleap-io or sleap-nn objects.
"""
from __future__ import annotations

import numpy as np

K = 3  # nodes
H, W = 40, 56  # frame size: not a multiple of 16, so the stride padding path runs
MAX_STRIDE = 16
CROP = 32  # crop_hw of the centred-instance dataset: larger than any animal (extent <= 15.2 px)
SIGMA, STRIDE = 1.5, 2  # confidence-map head
PAF_SIGMA, PAF_STRIDE = 4.0, 4
EDGES = [(0, 1), (1, 2)]

# centre (x, y) and node offsets: general position (no dyadic fractions), nodes >= 10 px apart inside an animal
ANIMALS = {
    "A": ((13.4, 12.7), [(-7.2, -3.1), (0.4, 5.3), (7.9, -2.2)]),
    "B": ((41.6, 26.3), [(-6.1, 4.2), (1.3, -5.7), (8.2, 3.9)]),
    "C": ((27.3, 19.8), [(-5.3, -5.8), (-0.6, 6.1), (6.7, -4.4)]),
    "P": ((40.2, 12.9), [(-6.6, 0.7), (0.9, -6.2), (5.8, 5.1)]),
    # E: every node on the left border strip (x = 0 exactly); O: wholly outside the 40x56 frame (annotation just out of view)
    "E": ((0.0, 27.4), [(0.0, -10.3), (0.0, 0.6), (0.0, 10.9)]),
    "O": ((70.3, 18.2), [(-5.1, -6.3), (0.7, 5.9), (6.4, -3.8)]),
}


def points(animal, pattern):
    (cx, cy), offs = ANIMALS[animal]
    out = np.full((K, 2), np.nan, dtype=np.float64)
    for k, (dx, dy) in enumerate(offs):
        if pattern >> k & 1:
            out[k] = (cx + dx, cy + dy)
    return out


def frame_instances(frame, uio):
    """Instances the property lets a dataset use for this frame (label order: user, then predicted)."""
    user = list(frame.get("user", []))
    pred = list(frame.get("pred", []))
    if uio and user:
        return user
    return user + pred


def centroid_ref(pts, anchor):
    """Documented contract of the centroid: the anchor if labelled, else the bbox midpoint of the labelled nodes."""
    pts = np.asarray(pts, dtype=np.float64)
    if anchor is not None and not np.isnan(pts[anchor]).any():
        return pts[anchor].copy()
    vis = ~np.isnan(pts).any(axis=1)
    if not vis.any():
        return np.array([np.nan, np.nan])
    v = pts[vis]
    return (v.min(axis=0) + v.max(axis=0)) / 2.0


def expected(spec, cls, uio):
    """List of expected samples.  Frame-based classes: one per frame with >= 1 non-empty instance,
    centred-instance: one per non-empty instance."""
    out = []
    for fi, fr in enumerate(spec["frames"]):
        insts = [(a, p) for a, p in frame_instances(fr, uio)]
        nonempty = [(a, p) for a, p in insts if p != 0]
        if cls == "CenteredInstance":
            for a, p in nonempty:
                out.append({"frame": fi, "animals": [[a, p]], "points": [points(a, p)]})
        elif nonempty:
            out.append({"frame": fi, "animals": [[a, p] for a, p in nonempty], "points": [points(a, p) for a, p in nonempty]})
    return out


def min_visible_distance(spec):
    d = np.inf
    for fr in spec["frames"]:
        pts = [points(a, p) for a, p in fr.get("user", []) + fr.get("pred", [])]
        if not pts:
            continue
        pts = np.concatenate(pts)
        pts = pts[~np.isnan(pts).any(axis=1)]
        for i in range(len(pts)):
            for j in range(i + 1, len(pts)):
                d = min(d, float(np.hypot(*(pts[i] - pts[j]))))
    return d


def render_frames(spec):
    """Frames for _scenes.write_labels: every instance (user and predicted) is drawn."""
    from props import _scenes as S

    frames, predicted = [], []
    for fr in spec["frames"]:
        user = [points(a, p) for a, p in fr.get("user", [])]
        pred = [points(a, p) for a, p in fr.get("pred", [])]
        frames.append({"image": S.render(H, W, user + pred), "instances": user})
        predicted.append([(p, 0.9) for p in pred])
    return frames, predicted


def write(tmpdir, spec, name):
    from props import _scenes as S

    frames, predicted = render_frames(spec)
    # missing nodes are stored as INVISIBLE points that keep plausible coordinates (Instance.numpy() still shows NaN)
    return S.write_labels(tmpdir, frames, S.make_skeleton(K, EDGES), name=name, embed=True, predicted=predicted, stale_invisible=True)


# ---------------------------------------------------------------------------
# the enumerated alphabet


def _mk(id_, frames):
    return {"id": id_, "frames": frames}


def label_sets(tier):
    """Returns [(spec, family)] ; family in {"two", "single", "single_only"} decides which dataset classes run on it."""
    quick = tier == "quick"
    P8 = list(range(8))
    out = []
    # F1: frame0 = two user animals with every pair of visibility patterns, frame1 = one complete animal
    for p in P8:
        for q in P8:
            if quick and not (q in (7, 0, 2) or p in (0, 2)):
                continue
            out.append((_mk(f"F1-{p}-{q}", [{"user": [["A", p], ["B", q]]}, {"user": [["C", 7]]}]), "two"))
    # F2: a predicted instance next to a user instance (frame0), two user animals (frame1)
    for p in (7, 5, 0) if quick else P8:
        for r in (5,) if quick else (7, 5, 6, 3):
            for q in (7, 0) if quick else (7, 0, 5):
                out.append((_mk(f"F2-{p}-{r}-{q}", [{"user": [["A", p]], "pred": [["P", r]]}, {"user": [["B", 7], ["C", q]]}]), "two_pred"))
    # F3: three frames, one of them holding only empty instances, at every position
    for p in (3,) if quick else P8:
        for q in (6, 0) if quick else P8:
            for e in (0, 1, 2):
                frames = [{"user": [["A", p]]}, {"user": [["B", q], ["C", 7]]}]
                frames.insert(e, {"user": [["A", 0], ["B", 0]]})
                out.append((_mk(f"F3-{p}-{q}-{e}", frames), "two"))
    # F4: three populated frames (up to four centred-instance samples)
    for p, q in ((7, 7), (5, 3)) if quick else [(p, q) for p in P8 for q in P8]:
        out.append((_mk(f"F4-{p}-{q}", [{"user": [["A", p], ["B", q]]}, {"user": [["C", q]]}, {"user": [["B", p]]}]), "two"))
    # S1: single-animal projects (max_instances == 1: no NaN padding rows)
    for p in P8:
        for q in (7, 2) if quick else P8:
            fam = "single" if (not quick or (p in (5, 0) and q == 7) or (p, q) in ((7, 2), (3, 2))) else "single_only"
            out.append((_mk(f"S1-{p}-{q}", [{"user": [["A", p]]}, {"user": [["C", q]]}]), fam))
    # S3: three single-animal frames
    for p, q in ((7, 7), (5, 1)) if quick else [(p, q) for p in P8 for q in (7, 1, 4, 0)]:
        out.append((_mk(f"S3-{p}-{q}", [{"user": [["A", p]]}, {"user": [["C", 7]]}, {"user": [["B", q]]}]), "single"))
    # drop label sets without any non-empty instance at all (no dataset can be built from them)
    keep = []
    for spec, fam in out:
        if any(p != 0 for fr in spec["frames"] for _, p in fr.get("user", []) + fr.get("pred", [])):
            keep.append((spec, fam))
    return keep


def configs(spec, fam, tier):
    """Dataset configurations run on one label set."""
    quick = tier == "quick"
    has_pred = any(fr.get("pred") for fr in spec["frames"])
    uios = (True, False) if has_pred else (True,)
    out = []
    for uio in uios:
        # a frame of ours always holds >= 1 user instance, so uio=True means "user instances only" unambiguously
        for npc in (False, True):
            if fam in ("single", "single_only") or any(p == 0 for fr in spec["frames"][:1] for _, p in fr.get("user", [])):
                out.append({"cls": "SingleInstance", "anchor": 0, "np_chunks": npc, "uio": uio, "scale": 1.0})
            if fam == "single_only":
                continue
            out.append({"cls": "BottomUp", "anchor": 0, "np_chunks": npc, "uio": uio, "scale": 1.0})
            for anchor in (None, 0, 1, 2):
                if quick and npc and anchor in (0, 2):
                    continue
                for cls in ("CenteredInstance", "Centroid"):
                    out.append({"cls": cls, "anchor": anchor, "np_chunks": npc, "uio": uio, "scale": 1.0})
            if not quick and not npc:
                # scale 0.5: keypoints * 0.5 is exact in float32, so label equality stays bitwise
                out.append({"cls": "BottomUp", "anchor": 0, "np_chunks": npc, "uio": uio, "scale": 0.5})
                out.append({"cls": "Centroid", "anchor": 1, "np_chunks": npc, "uio": uio, "scale": 0.5})
                out.append({"cls": "CenteredInstance", "anchor": 1, "np_chunks": npc, "uio": uio, "scale": 0.5})
    return out


# ---------------------------------------------------------------------------
# call sequences: a de Bruijn cycle B(n, D) cut into n arcs that start with n different symbols


def de_bruijn(n, D):
    a = [0] * (n * D + 1)
    seq = []

    def db(t, p):
        if t > D:
            if D % p == 0:
                seq.extend(a[1 : p + 1])
        else:
            a[t] = a[t - p]
            db(t + 1, p)
            for j in range(a[t - p] + 1, n):
                a[t] = j
                db(t + 1, t)

    db(1, 1)
    return seq


def arcs(n, D, rot=0):
    """{first index r: call sequence starting with r}; together the arcs contain every word of length D over
    range(n) as a window (and so every shorter word as a prefix of one).  Verified, not assumed."""
    if n <= 0:
        return {}
    c = de_bruijn(n, D)
    N = len(c)
    c = c[rot % N :] + c[: rot % N]
    starts = {}
    for r in range(n):
        t = (r * N) // n
        for off in range(N):
            pos = (t + off) % N
            if c[pos] == r:
                starts[r] = pos
                break
    order = sorted(starts.items(), key=lambda kv: kv[1])
    out = {}
    for k, (r, pos) in enumerate(order):
        nxt = order[(k + 1) % len(order)][1]
        length = (nxt - pos) % N or N
        out[r] = [c[(pos + i) % N] for i in range(length + D - 1)]
    words = set()
    for r, seq in out.items():
        assert seq[0] == r
        for i in range(len(seq) - D + 1):
            words.add(tuple(seq[i : i + D]))
    assert len(words) == n**D, (n, D, len(words))
    assert sorted(out) == list(range(n))
    return out
