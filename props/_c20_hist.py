"""C20, E2 part: call histories over the configuration-builder API.

Operation alphabet: call(a) for every builder call a of a small argument alphabet, and
mutate(r) = change every leaf of a previously returned config object in place (what a user
does when customising a built config).  Every history [call(a_i), mutate(result), call(a_j)]
(all ordered pairs i, j; thorough: one more mutate/call round) is executed in a forked child
process that starts from the unmutated library state.  Differential oracle (start from a
non-initial state): the result of call(a_j) after the history must equal the result of the
same call in the unmutated state - "every unspecified option gets the schema default"
cannot depend on what was built, or customised, before.
"""
from __future__ import annotations

import copy
import json
import os
import sys
import traceback


def calls():
    """The call alphabet: (name, function name, args, kwargs)."""
    out = []
    for p in ["unet", "unet_medium_rf", "unet_large_rf", "convnext", "convnext_tiny", "convnext_small", "convnext_base", "convnext_large", "swint", "swint_tiny", "swint_small", "swint_base"]:
        out.append((f"backbone:{p}", "get_backbone_config", [p], {}))
    out.append(("backbone:dict-unet", "get_backbone_config", [{"unet": {"filters": 8, "max_stride": 8}}], {}))
    out.append(("backbone:dict-convnext", "get_backbone_config", [{"convnext": {"model_type": "small"}}], {}))
    out.append(("backbone:dict-swint", "get_backbone_config", [{"swint": {"model_type": "small"}}], {}))
    for h in ["single_instance", "centroid", "centered_instance", "bottomup"]:
        out.append((f"head:{h}", "get_head_configs", [h], {}))
    out.append(("head:dict-centroid", "get_head_configs", [{"centroid": {"confmaps": {"anchor_part": None, "sigma": 2.0, "output_stride": 4}}}], {}))
    out.append(("aug:none", "get_aug_config", [None, None], {}))
    out.append(("aug:noise", "get_aug_config", ["uniform_noise", None], {}))
    out.append(("aug:rot", "get_aug_config", [None, "rotation"], {}))
    out.append(("aug:lists", "get_aug_config", [["contrast", "brightness"], ["rotation", "scale"]], {}))
    out.append(("aug:erase", "get_aug_config", [None, ["erase_scale", "mixup"]], {}))
    base = {"train_labels_path": "train.pkg.slp", "val_labels_path": "val.pkg.slp"}
    out.append(("data:default", "get_data_config", [], dict(base)))
    out.append(("data:aug", "get_data_config", [], dict(base, use_augmentations_train=True, intensity_aug="contrast", geometry_aug=["rotation", "translate"])))
    out.append(("data:crop", "get_data_config", [], dict(base, crop_hw=(64, 64), scale=0.5)))
    for p in ["unet", "unet_medium_rf", "convnext_small", "swint_base"]:
        for h in ["centroid", "bottomup"]:
            out.append((f"model:{p}:{h}", "get_model_config", [], {"backbone_config": p, "head_configs": h}))
    out.append(("trainer:default", "get_trainer_config", [], {}))
    out.append(("trainer:step_lr", "get_trainer_config", [], {"lr_scheduler": "step_lr"}))
    out.append(("trainer:plateau", "get_trainer_config", [], {"lr_scheduler": "reduce_lr_on_plateau", "early_stopping": True}))
    out.append(("trainer:wandb", "get_trainer_config", [], {"use_wandb": True, "wandb_project": "p", "wandb_mode": "offline"}))
    return out


def snapshot(obj):
    import attrs

    if attrs.has(type(obj)):
        return {"__cls__": type(obj).__name__, **{a.name: snapshot(getattr(obj, a.name)) for a in attrs.fields(type(obj))}}
    if isinstance(obj, dict):
        return {str(k): snapshot(v) for k, v in obj.items()}
    if isinstance(obj, (list, tuple)):
        return [snapshot(v) for v in obj]
    return obj


def mutate(obj, depth=0):
    """Change every leaf of a returned config object in place. Returns the number of leaves changed."""
    import attrs

    n = 0
    if depth > 8:
        return 0
    if attrs.has(type(obj)):
        for a in attrs.fields(type(obj)):
            v = getattr(obj, a.name)
            if attrs.has(type(v)) or isinstance(v, (list, dict)):
                n += mutate(v, depth + 1)
                continue
            new = None
            if isinstance(v, bool):
                new = not v
            elif isinstance(v, (int, float)):
                new = v + 1
            elif isinstance(v, str):
                new = v + "_m"
            elif isinstance(v, tuple) and v and all(isinstance(x, (int, float)) for x in v):
                new = tuple(x + 1 for x in v)
            if new is not None:
                try:
                    setattr(obj, a.name, new)
                    n += 1
                except Exception:
                    pass  # a validator refused the value: leave this leaf
    elif isinstance(obj, dict):
        for k in list(obj):
            v = obj[k]
            if attrs.has(type(v)) or isinstance(v, (list, dict)):
                n += mutate(v, depth + 1)
            elif isinstance(v, (int, float)) and not isinstance(v, bool):
                obj[k] = v + 1
                n += 1
        obj["__verif_mutated__"] = 1
        n += 1
    elif isinstance(obj, list):
        for i, v in enumerate(obj):
            if attrs.has(type(v)) or isinstance(v, (list, dict)):
                n += mutate(v, depth + 1)
            elif isinstance(v, (int, float)) and not isinstance(v, bool):
                obj[i] = v + 1
                n += 1
        obj.append(977)
        n += 1
    return n


def do_call(entry):
    import sleap_nn.train as T

    name, fn, args, kwargs = entry
    return getattr(T, fn)(*copy.deepcopy(args), **copy.deepcopy(kwargs))


def diff(a, b, path=""):
    if type(a) != type(b) and not (isinstance(a, (int, float)) and isinstance(b, (int, float))):
        return f"{path}: {a!r} != {b!r}"
    if isinstance(a, dict):
        if set(a) != set(b):
            return f"{path}: keys {sorted(set(a) ^ set(b))} differ"
        for k in a:
            d = diff(a[k], b[k], f"{path}.{k}")
            if d:
                return d
        return None
    if isinstance(a, list):
        if len(a) != len(b):
            return f"{path}: {a!r} != {b!r}"
        for i, (x, y) in enumerate(zip(a, b)):
            d = diff(x, y, f"{path}[{i}]")
            if d:
                return d
        return None
    return None if a == b else f"{path}: {a!r} != {b!r}"


def child(first_idx, rounds):
    """Runs in a forked child: refs in the unmutated state, then call(first) -> mutate -> every call(j)."""
    cs = calls()
    res = {"first": cs[first_idx][0], "executed": 0, "mutated_leaves": 0, "violations": [], "outcomes": []}
    refs = {}
    for e in cs:
        try:
            refs[e[0]] = snapshot(do_call(e))
        except Exception as ex:
            refs[e[0]] = ("raised", type(ex).__name__)
    hist = []
    cur = first_idx
    for rnd in range(rounds):
        e = cs[cur]
        try:
            r = do_call(e)
        except Exception as ex:
            r = None
        hist.append(f"call({e[0]})")
        if r is not None:
            res["mutated_leaves"] += mutate(r)
            hist.append("mutate(result)")
        for j, e2 in enumerate(cs):
            res["executed"] += 1
            try:
                got = snapshot(do_call(e2))
            except Exception as ex:
                got = ("raised", type(ex).__name__)
            d = None if isinstance(got, tuple) or isinstance(refs[e2[0]], tuple) else diff(refs[e2[0]], got, e2[0])
            if isinstance(got, tuple) != isinstance(refs[e2[0]], tuple) or (isinstance(got, tuple) and got != refs[e2[0]]):
                d = f"{e2[0]}: {got} vs unmutated-state result {refs[e2[0]] if isinstance(refs[e2[0]], tuple) else 'a config'}"
            res["outcomes"].append(0 if d is None else 1)
            if d and len(res["violations"]) < 5:
                res["violations"].append({"history": hist + [f"call({e2[0]})"], "first": first_idx, "second": j, "rounds": rnd + 1, "diff": d})
        cur = (cur + 7) % len(cs)  # next round continues from another call, state keeps accumulating
    return res


def run_forked(first_idx, rounds):
    r, w = os.pipe()
    pid = os.fork()
    if pid == 0:
        os.close(r)
        try:
            out = child(first_idx, rounds)
        except BaseException:
            out = {"first": str(first_idx), "executed": 0, "mutated_leaves": 0, "violations": [{"history": [], "first": first_idx, "second": -1, "rounds": 0, "diff": "harness: " + traceback.format_exc()[-400:]}], "outcomes": []}
        with os.fdopen(w, "w") as f:
            json.dump(out, f, default=repr)
        os._exit(0)
    os.close(w)
    with os.fdopen(r) as f:
        data = f.read()
    os.waitpid(pid, 0)
    return json.loads(data)


def explore(part, tier):
    cs = calls()
    rounds = 1 if tier == "quick" else 3
    for i in range(len(cs)):
        res = run_forked(i, rounds)
        part.count(res["executed"])
        part.transition(res["executed"] + rounds)
        part.add("history_calls_after_mutation", res["executed"])
        part.add("history_leaves_mutated", res["mutated_leaves"])
        for j in range(res["executed"]):
            key = f"hist:{i}:{j}"
            part.state(key)
            part.nontriv(key)
        part.outcome(f"hist:{cs[i][0]}:{sum(res['outcomes'])}")
        part.sample({"kind": "history", "first": cs[i][0], "calls_after_mutation": res["executed"]}, True)
        for v in res["violations"][:2]:
            part.violation({"kind": "history", "first": v["first"], "second": v["second"], "rounds": v["rounds"]}, f"after {v['history']}: {v['diff']}")


def replay(case):
    res = run_forked(case["first"], case.get("rounds", 1))
    hits = [v for v in res["violations"] if v["second"] == case["second"]] or res["violations"]
    return {"violates": bool(hits), "violations": hits[:3], "executed": res["executed"]}
