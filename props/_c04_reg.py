"""C04 helpers: registration oracle (Gaussian blobs + sub-pixel locator), the kornia parameter seam,
and the arithmetic model behind the K4 known-finding signature.

Nothing in here imports sleap-nn.  The oracle never needs to know WHICH transform was applied: it only
looks at the returned image and the returned keypoints and asks "is there a blob where the keypoint is,
and a keypoint where each blob is".
"""
from __future__ import annotations

import contextlib
import math

import numpy as np

FLOOR = 0.1  # background level of every synthetic frame: real content is > 0 everywhere, padding is exactly 0
TOL = 1.0  # "interpolation error of under one output pixel"
MARGIN = 3.0  # a keypoint is checked only if it is >= MARGIN px inside the output (and its source >= MARGIN px inside the source)


# ---------------------------------------------------------------------------
# scenes


def blob_image(H, W, points, sigma=2.0, rgb=False):
    """(H,W,C) uint8: background FLOOR, one Gaussian blob of peak 1.0 per finite point."""
    yy, xx = np.mgrid[0:H, 0:W].astype(np.float64)
    img = np.full((H, W), FLOOR, dtype=np.float64)
    for x, y in np.asarray(points, dtype=np.float64).reshape(-1, 2):
        if np.isnan(x) or np.isnan(y):
            continue
        img = np.maximum(img, np.exp(-((xx - x) ** 2 + (yy - y) ** 2) / (2 * sigma**2)))
    out = np.round(img * 255.0).astype(np.uint8)
    if rgb:
        return np.stack([out, out, out], axis=-1)
    return out[..., None]


def grid_points(H, W, pitch=7.0, inset=4.0):
    """Deterministic 'general position' keypoints: a lattice of the given pitch, every point displaced by a
    different non-dyadic fraction, all >= inset px inside the frame.  Row-major order."""
    pts = []
    nx = int((W - 1 - 2 * inset) // pitch) + 1
    ny = int((H - 1 - 2 * inset) // pitch) + 1
    ox = (W - 1 - (nx - 1) * pitch) / 2.0
    oy = (H - 1 - (ny - 1) * pitch) / 2.0
    k = 0
    for j in range(ny):
        for i in range(nx):
            jx = ((k * 37 + 11) % 23) / 23.0 - 0.5  # in (-0.5, 0.5)
            jy = ((k * 53 + 7) % 29) / 29.0 - 0.5
            pts.append((round(ox + i * pitch + 0.6 * jx, 3), round(oy + j * pitch + 0.6 * jy, 3)))
            k += 1
    return pts


# ---------------------------------------------------------------------------
# sub-pixel locator


def _par3(a, b, c):
    a, b, c = (math.log(max(float(v), 1e-9)) for v in (a, b, c))
    d = a - 2 * b + c
    return 0.0 if d >= 0 else max(-0.5, min(0.5, 0.5 * (a - c) / d))


def _refine(img, px, py, r):
    """Weighted least-squares fit of a quadratic to log-intensity around the integer peak (px,py).

    Exact for an (anisotropic, rotated) Gaussian; falls back to the 3-point log-parabola per axis."""
    H, W = img.shape

    def three():
        dx = _par3(img[py, px - 1], img[py, px], img[py, px + 1]) if 0 < px < W - 1 else 0.0
        dy = _par3(img[py - 1, px], img[py, px], img[py + 1, px]) if 0 < py < H - 1 else 0.0
        return px + dx, py + dy

    y0, y1, x0, x1 = max(0, py - r), min(H, py + r + 1), max(0, px - r), min(W, px + r + 1)
    yy, xx = np.mgrid[y0:y1, x0:x1]
    v = img[y0:y1, x0:x1].astype(np.float64)
    m = (v > 0.3 * img[py, px]) & (v > 1.5 * FLOOR) & ((xx - px) ** 2 + (yy - py) ** 2 <= r * r + 0.5)
    if int(m.sum()) < 8:
        return three()
    x = (xx[m] - px).astype(np.float64)
    y = (yy[m] - py).astype(np.float64)
    z = np.log(v[m])
    w = v[m]
    A = np.stack([np.ones_like(x), x, y, x * x, y * y, x * y], 1)
    try:
        c = np.linalg.lstsq(A * w[:, None], z * w, rcond=None)[0]
        Hm = np.array([[2 * c[3], c[5]], [c[5], 2 * c[4]]])
        if not np.all(np.linalg.eigvalsh(Hm) < 0):
            return three()
        d = -np.linalg.solve(Hm, np.array([c[1], c[2]]))
    except np.linalg.LinAlgError:
        return three()
    if not np.all(np.isfinite(d)) or math.hypot(d[0], d[1]) > 1.5:
        return three()
    return px + float(d[0]), py + float(d[1])


def find_blobs(img, sigma_out, min_amp=0.3):
    """All blobs of a 2-D float image: local maxima (8-neighbourhood) above min_amp, sub-pixel refined.
    Returns a list of (x, y, amplitude)."""
    img = np.asarray(img, dtype=np.float64)
    H, W = img.shape
    pad = np.full((H + 2, W + 2), -np.inf)
    pad[1:-1, 1:-1] = img
    ismax = img >= min_amp
    for dy in (-1, 0, 1):
        for dx in (-1, 0, 1):
            if dx == 0 and dy == 0:
                continue
            ismax &= img >= pad[1 + dy : 1 + dy + H, 1 + dx : 1 + dx + W]
    r = max(2, int(round(1.5 * sigma_out)))
    cand = sorted(((float(img[y, x]), int(x), int(y)) for y, x in zip(*np.nonzero(ismax))), key=lambda t: (-t[0], t[2], t[1]))
    blobs = []
    for amp, px, py in cand:
        bx, by = _refine(img, px, py, r)
        if any(math.hypot(bx - ox, by - oy) < 1.5 for ox, oy, _ in blobs):
            continue  # plateau / tie: the same blob seen twice
        blobs.append((bx, by, amp))
    return blobs


def to_gray(image):
    """(..., C, H, W) tensor/array -> (H, W) float64 (channel mean of sample 0)."""
    a = np.asarray(image.detach().cpu().numpy() if hasattr(image, "detach") else image, dtype=np.float64)
    while a.ndim > 3:
        a = a[0]
    return a.mean(axis=0)


def registration(img, kps, sigma_out, src_ok=None, both_ways=True, ignore=None, tol=TOL, margin=MARGIN):
    """The oracle.  img: (H,W) float; kps: (N,2) output coordinates (NaN = not labelled).

    kp->blob: every finite keypoint >= margin px inside the output AND >= margin px away from any pixel that holds
    no source content (exact zeros: padding, or the outside of the source frame in a crop) has a blob within tol.
    blob->kp (both_ways): every blob >= margin+1 px inside the output / the content has a finite keypoint within tol.  ignore: optional boolean (H,W) mask of pixels that were legitimately
    destroyed (erasing); keypoints / blobs within 4 px of it are not judged.

    Returns dict(checked, worst, errs=[(i, ex, ey)], fails=[...]).
    """
    H, W = img.shape
    kps = np.asarray(kps, dtype=np.float64).reshape(-1, 2)
    blobs = find_blobs(img, sigma_out)
    fails, errs = [], []
    worst = 0.0

    nocontent = img == 0  # exact zeros = stride/size padding or the outside of the source frame (content is >= FLOOR > 0)

    def near_ignored(x, y, m):
        xi, yi = int(round(x)), int(round(y))
        if ignore is not None and bool(ignore[max(0, yi - 4) : yi + 5, max(0, xi - 4) : xi + 5].any()):
            return True
        return bool(nocontent[max(0, yi - m) : yi + m + 1, max(0, xi - m) : xi + m + 1].any())

    for i, (x, y) in enumerate(kps):
        if not (np.isfinite(x) and np.isfinite(y)):
            continue
        if src_ok is not None and not src_ok[i]:
            continue
        if not (margin <= x <= W - 1 - margin and margin <= y <= H - 1 - margin):
            continue
        if near_ignored(x, y, int(math.ceil(margin))):
            continue
        if blobs:
            d, bx, by = min((math.hypot(x - bx, y - by), bx, by) for bx, by, _ in blobs)
        else:
            d, bx, by = float("inf"), float("nan"), float("nan")
        ex, ey = (x - bx, y - by) if math.isfinite(d) and d <= 4.0 else (float("nan"), float("nan"))
        errs.append((i, ex, ey))
        worst = max(worst, min(d, 99.0))
        if not d <= tol:
            fails.append({"dir": "kp_without_blob", "kp": i, "at": [round(float(x), 3), round(float(y), 3)],
                          "err": [None if not math.isfinite(ex) else round(ex, 4), None if not math.isfinite(ey) else round(ey, 4)],
                          "dist": None if not math.isfinite(d) else round(d, 4)})
    if both_ways:
        fin = kps[np.isfinite(kps).all(axis=1)]
        for bx, by, amp in blobs:
            if not (margin + 1 <= bx <= W - 2 - margin and margin + 1 <= by <= H - 2 - margin):
                continue
            if near_ignored(bx, by, int(math.ceil(margin)) + 1):
                continue
            d = float(np.min(np.hypot(fin[:, 0] - bx, fin[:, 1] - by))) if len(fin) else float("inf")
            if not d <= tol:
                fails.append({"dir": "blob_without_kp", "blob": [round(bx, 3), round(by, 3)], "amp": round(amp, 3),
                              "dist": None if not math.isfinite(d) else round(d, 4)})
    return {"checked": len(errs), "worst": worst, "errs": errs, "fails": fails, "n_blobs": len(blobs)}


def content_rect(img):
    """Padding oracle: the non-zero pixels of (H,W) img must be exactly a rectangle anchored at (0,0).
    Returns (h, w) of it, or a string describing why it is not one."""
    nz = np.asarray(img) != 0
    if not nz.any():
        return "output is all zero"
    rows = np.nonzero(nz.any(axis=1))[0]
    cols = np.nonzero(nz.any(axis=0))[0]
    h, w = int(rows[-1]) + 1, int(cols[-1]) + 1
    if rows[0] != 0 or cols[0] != 0:
        return f"zero rows/columns at the top/left: first non-zero row {int(rows[0])}, column {int(cols[0])}"
    if not nz[:h, :w].all():
        return "non-zero content is not a solid top-left rectangle"
    return (h, w)


# ---------------------------------------------------------------------------
# K4 arithmetic (used ONLY by the known-finding signature and for reporting)


def fit_scale(h, w, max_h, max_w):
    """Aspect-preserving fit of (h,w) into (max_h,max_w): nominal ratio."""
    max_h = h if max_h is None else max_h
    max_w = w if max_w is None else max_w
    if (h, w) == (max_h, max_w):
        return 1.0, max_h, max_w
    return min(max_h / h, max_w / w), max_h, max_w


def k4_model(h, w, max_h, max_w, scale, sizes_after):
    """Half-pixel/integer-size model of the resize stages.

    sleap-nn multiplies a keypoint by the nominal factor (origin = centre of pixel (0,0)); torchvision maps
    content at x to (x+0.5)*s_act-0.5 with s_act = out/in per axis (origin = pixel corner, integer out size).
    sizes_after = [(th,tw) content size after size matching, (H1,W1) canvas after size matching,
                   (H2,W2) canvas after the resizer] as OBSERVED.
    Returns f(x,y) -> (kp_x, kp_y, content_x, content_y) in the final frame.
    """
    (th, tw), (H1, W1), (H2, W2) = sizes_after
    r, _, _ = fit_scale(h, w, max_h, max_w)

    def f(x, y):
        kx, ky = x * r, y * r
        if (th, tw) != (h, w):
            cx, cy = (x + 0.5) * (tw / w) - 0.5, (y + 0.5) * (th / h) - 0.5
        else:
            cx, cy = x, y
        if scale != 1.0:
            kx, ky = kx * scale, ky * scale
            cx, cy = (cx + 0.5) * (W2 / W1) - 0.5, (cy + 0.5) * (H2 / H1) - 0.5
        return kx, ky, cx, cy

    return f


def affine_models(h, w, cfg, sel):
    """Arithmetic used ONLY by the known-finding signature K6 (validated against the real code in the `affine` part:
    keypoints follow M exactly, image content follows S*M*S^-1 to <= 0.04 px).

    M is kornia's affine for the forced corner `sel` of the ranges in cfg (rotation by the angle about the image
    centre (w/2-0.5, h/2-0.5), per-axis scale, then translation by the fraction of the image size); RandomAffine's
    default align_corners=False makes warp_affine resample the image with S*M*S^-1 instead, S = scaling about the
    centre by w/(w-1), h/(h-1).  Returns (M, M_image) as functions of an (x, y) array."""

    def pick(lo, hi, k):
        return lo if k < 0 else hi if k > 0 else 0.5 * (lo + hi)

    a = math.radians(pick(-cfg["rotation"], cfg["rotation"], sel[0]))
    sc = cfg.get("scale")
    if sc is None:
        sx = sy = 1.0
    else:
        sx = pick(sc[0], sc[1], sel[3])
        sy = pick(sc[2], sc[3], sel[3]) if len(sc) == 4 else sx
    t = np.array([pick(-cfg["translate_width"], cfg["translate_width"], sel[1]) * w, pick(-cfg["translate_height"], cfg["translate_height"], sel[2]) * h])
    c = np.array([w / 2 - 0.5, h / 2 - 0.5])
    A = np.array([[math.cos(a), -math.sin(a)], [math.sin(a), math.cos(a)]]) @ np.diag([sx, sy])
    k = np.array([w / (w - 1.0), h / (h - 1.0)])

    def M(p):
        return A @ (np.asarray(p, dtype=np.float64) - c) + c + t

    def M_image(p):
        q = c + (np.asarray(p, dtype=np.float64) - c) / k
        return c + (M(q) - c) * k

    return M, M_image


# ---------------------------------------------------------------------------
# the kornia seam: enumerated corners instead of random draws


@contextlib.contextmanager
def forced_affine(sel):
    """Inside the block every kornia RandomAffine draws the corner `sel = (a, tx, ty, s)` (each in {-1,0,+1}:
    low end / middle / high end) of the ranges IT WAS CONFIGURED WITH (so the ranges still travel through
    sleap-nn's own arguments).  sel=None leaves kornia untouched."""
    if sel is None:
        yield
        return
    import torch
    from kornia.augmentation.random_generator import AffineGenerator

    orig = AffineGenerator.forward

    def pick(lo, hi, k):
        lo, hi = float(lo), float(hi)
        return lo if k < 0 else hi if k > 0 else 0.5 * (lo + hi)

    def rng(sampler):
        return float(sampler.low), float(sampler.high)

    def forward(self, batch_shape, same_on_batch=False):
        b, height, width = batch_shape[0], batch_shape[-2], batch_shape[-1]
        a, tx, ty, s = sel
        angle = torch.full((b,), pick(*rng(self.degree_sampler), a), dtype=torch.float32)
        sx = sy = 1.0
        if self.scale_2_sampler is not None:
            sx = sy = pick(*rng(self.scale_2_sampler), s)
            if self.scale_4_sampler is not None:
                sy = pick(*rng(self.scale_4_sampler), s)
        scale = torch.tensor([[sx, sy]], dtype=torch.float32).repeat(b, 1)
        if self.translate_x_sampler is not None and self.translate_y_sampler is not None:
            t = torch.tensor(
                [[pick(*rng(self.translate_x_sampler), tx) * width, pick(*rng(self.translate_y_sampler), ty) * height]], dtype=torch.float32
            ).repeat(b, 1)
        else:
            t = torch.zeros((b, 2), dtype=torch.float32)
        center = (torch.tensor([width, height], dtype=torch.float32).view(1, 2) / 2.0 - 0.5).expand(b, -1)
        z = torch.zeros((b,), dtype=torch.float32)
        return {"translations": t, "center": center, "scale": scale, "angle": angle, "shear_x": z, "shear_y": z.clone()}

    AffineGenerator.forward = forward
    try:
        yield
    finally:
        AffineGenerator.forward = orig


@contextlib.contextmanager
def forced_erase(sel):
    """Every kornia RandomErasing erases the largest configured rectangle at the corner sel=(ix,iy) in {0,1,2}^2
    (left/middle/right x top/middle/bottom)."""
    if sel is None:
        yield
        return
    import torch
    from kornia.augmentation.random_generator import RectangleEraseGenerator

    orig = RectangleEraseGenerator.forward

    def forward(self, batch_shape, same_on_batch=False):
        b, height, width = batch_shape[0], batch_shape[-2], batch_shape[-1]
        sc = [float(v) for v in torch.as_tensor(self.scale).flatten().tolist()]
        ra = [float(v) for v in torch.as_tensor(self.ratio).flatten().tolist()]
        area = sc[1] * height * width
        hh = min(max(round(math.sqrt(area * ra[1])), 1), height)
        ww = min(max(round(math.sqrt(area / ra[1])), 1), width)
        fx, fy = (0.0, 0.5, 0.999)[sel[0]], (0.0, 0.5, 0.999)[sel[1]]
        f = lambda v: torch.full((b,), float(v), dtype=torch.float32)
        return {"widths": f(ww), "heights": f(hh), "xs": f(math.floor(fx * (width - ww + 1))), "ys": f(math.floor(fy * (height - hh + 1))),
                "values": f(self.value)}

    RectangleEraseGenerator.forward = forward
    try:
        yield
    finally:
        RectangleEraseGenerator.forward = orig
